"""
T-const translator for property C09 (DESIGN.md 4.1): esutil/coords.py  ->  coq/theories/C09/Gen.v

Reads the coords.py of the build under test with python's `ast` and emits, as exact rationals,
  * the psi/stheta/ctheta/phi tables of `euler` (2 epochs x 6 selectors), `i = select - 1`;
  * the documented pole/node constants in the comment block of `euler` (J2000);
  * PI/HALFPI/D2R/R2D (checked to be math.pi, PI/2.0, PI/180.0, 1.0/D2R);
  * the SDSS survey constants `_sdsspar[...]` and the shape of node/etapole;
  * the range-check bounds of eq2sdss/sdss2eq, the bounds passed to atbound, atbound's period and
    comparison operators, atbound2's thresholds;
  * shiftlon's period, thresholds and comparison operators.
Anything that does not have exactly the expected shape raises TranslateError (fail closed): the
run then reports a broken tie.  Every decimal literal keeps its digits:
`0.88998808748` becomes `88998808748 / 100000000000`.
"""
import ast
import os
import re
from fractions import Fraction


class TranslateError(Exception):
    pass


def _need(cond, what):
    if not cond:
        raise TranslateError("coords.py no longer has the expected shape: " + what)


class Src:
    def __init__(self, path):
        self.text = open(path).read()
        try:
            self.tree = ast.parse(self.text)
        except SyntaxError as e:
            raise TranslateError("coords.py does not parse: %s" % e)
        self.funcs = {n.name: n for n in self.tree.body if isinstance(n, ast.FunctionDef)}

    def seg(self, node):
        s = ast.get_source_segment(self.text, node)
        _need(s is not None, "source segment of a literal")
        return s

    def num(self, node):
        """numeric literal (optionally signed) -> (num, den) keeping the literal's digits"""
        sign = 1
        while isinstance(node, ast.UnaryOp) and isinstance(node.op, (ast.USub, ast.UAdd)):
            if isinstance(node.op, ast.USub):
                sign = -sign
            node = node.operand
        _need(isinstance(node, ast.Constant) and isinstance(node.value, (int, float)) and not isinstance(node.value, bool),
              "numeric literal expected at line %d" % getattr(node, "lineno", 0))
        txt = self.seg(node).strip().replace("_", "")
        m = re.fullmatch(r"(\d*)(?:\.(\d*))?(?:[eE]([+-]?\d+))?", txt)
        _need(m is not None and (m.group(1) or m.group(2)), "decimal literal %r" % txt)
        ip, fp, ex = m.group(1) or "", m.group(2) or "", int(m.group(3) or 0)
        n, d = int((ip + fp) or "0"), 10 ** len(fp)
        if ex >= 0:
            n *= 10 ** ex
        else:
            d *= 10 ** (-ex)
        _need(float(Fraction(n, d)) == float(node.value), "literal %r re-read" % txt)
        return sign * n, d


def _is_name(n, name):
    return isinstance(n, ast.Name) and n.id == name


def _is_attr(n, base, attr):
    return isinstance(n, ast.Attribute) and n.attr == attr and _is_name(n.value, base)


def _sub_key(n):
    """_sdsspar["key"] -> key"""
    if isinstance(n, ast.Subscript) and _is_name(n.value, "_sdsspar"):
        k = n.slice
        if isinstance(k, ast.Constant) and isinstance(k.value, str):
            return k.value
    return None


def straightline(src, fn, targets, params, tables, consts, abstract=(), options=None, callees=None):
    """Symbolic execution of the straight-line arithmetic at the top level of `fn` up to the assignment of the last
    target: every value is a real-number term (string) over the parameters.  Accepted statements: `v = <expr>`,
    `v op= <expr>`, the identity copies `v = np.array(v|v_in, ...)`, in-place `np.deg2rad(v, v)`; <expr> is built from
    names, numeric literals, + - * / unary minus, sin/cos/np.sin/np.cos/deg2rad, table[i] and _sdsspar["k"].
    Statements that do not assign any name the targets depend on are skipped only if they are docstrings, `if` blocks
    that raise or fill the constant tables, or assignments of names never used afterwards (checked: an unknown
    name inside a needed expression raises).  Returns None when a target is never assigned (as-found shapes)."""
    # targets None: run to the `return a, b[, c]` statement and give the returned names' terms;
    # abstract: names whose value is replaced by the name itself once assigned (the output stage is a function of x, y, z)
    env = dict((k, v) for k, v in params.items())

    def ex(n):
        if isinstance(n, ast.Name):
            if n.id in env:
                return env[n.id]
            if n.id in consts:
                return consts[n.id]
            raise TranslateError("%s: name %r used before a translatable assignment (line %d)" % (fn.name, n.id, n.lineno))
        if isinstance(n, ast.Constant) or (isinstance(n, ast.UnaryOp) and isinstance(n.operand, ast.Constant)):
            return _r(src.num(n))
        if isinstance(n, ast.UnaryOp) and isinstance(n.op, ast.USub):
            return "(- %s)" % ex(n.operand)
        if isinstance(n, ast.BinOp) and type(n.op) in (ast.Add, ast.Sub, ast.Mult, ast.Div):
            op = {ast.Add: "+", ast.Sub: "-", ast.Mult: "*", ast.Div: "/"}[type(n.op)]
            return "(%s %s %s)" % (ex(n.left), op, ex(n.right))
        if isinstance(n, ast.Subscript):
            k = _sub_key(n)
            if k is not None and ("_sdsspar:" + k) in consts:
                return consts["_sdsspar:" + k]
            if isinstance(n.value, ast.Name) and n.value.id in tables and _is_name(n.slice, "i"):
                return tables[n.value.id]
            raise TranslateError("%s: subscript at line %d" % (fn.name, n.lineno))
        if isinstance(n, ast.Call) and len(n.args) == 1 and not n.keywords:
            f = n.func.id if isinstance(n.func, ast.Name) else (n.func.attr if isinstance(n.func, ast.Attribute) and _is_name(n.func.value, "np") else None)
            if f in ("sin", "cos", "sqrt"):
                return "(%s %s)" % (f, ex(n.args[0]))
            if f == "deg2rad":
                return "(%s * D2R)" % ex(n.args[0])
        if isinstance(n, ast.Call) and len(n.args) == 2 and not n.keywords and (_is_name(n.func, "arctan2") or _is_attr(n.func, "np", "arctan2")):
            return "(atan2 %s %s)" % (ex(n.args[0]), ex(n.args[1]))
        if isinstance(n, ast.BinOp) and isinstance(n.op, ast.Mod):
            return "(Rmod %s %s)" % (ex(n.left), ex(n.right))
        raise TranslateError("%s: expression at line %d is outside the translatable fragment" % (fn.name, getattr(n, "lineno", 0)))

    # options: values of keyword arguments (`stomp`, `units`) for which the routine is specialised: an `if` whose test
    # is such a name, or `name == "literal"`, is replaced by the branch taken; callees: functions whose results are
    # bound to fresh parameters (`theta, phi = _xyz2thetaphi(x, y, z)`) or whose call is what is returned
    options = options or {}
    callees = callees or {}

    def static_test(t):
        if isinstance(t, ast.Name) and t.id in options:
            return bool(options[t.id])
        if isinstance(t, ast.Compare) and len(t.ops) == 1 and isinstance(t.ops[0], ast.Eq) and isinstance(t.left, ast.Name) \
                and t.left.id in options and isinstance(t.comparators[0], ast.Constant):
            return options[t.left.id] == t.comparators[0].value
        return None

    def flatten(stmts):
        out = []
        for st in stmts:
            if isinstance(st, ast.If) and static_test(st.test) is not None:
                out.extend(flatten(st.body if static_test(st.test) else st.orelse))
            else:
                out.append(st)
        return out
    body = flatten(fn.body)
    done = set()
    for k_st, st in enumerate(body):
        if isinstance(st, ast.Expr) and isinstance(st.value, ast.Constant):
            continue
        # a, b = callee(...): results of a separately tied routine become parameters
        if isinstance(st, ast.Assign) and len(st.targets) == 1 and isinstance(st.targets[0], ast.Tuple) \
                and isinstance(st.value, ast.Call) and isinstance(st.value.func, ast.Name) and st.value.func.id in callees \
                and all(isinstance(e, ast.Name) for e in st.targets[0].elts):
            names = callees[st.value.func.id]
            _need(len(names) == len(st.targets[0].elts), "%s: results of %s" % (fn.name, st.value.func.id))
            for e, nm in zip(st.targets[0].elts, names):
                env[e.id] = nm
            continue
        # (w,) = np.where(v < c) ; if w.size > 0: v[w] += e      ==>   v := if v < c then v + e else v
        if isinstance(st, ast.Assign) and len(st.targets) == 1 and isinstance(st.targets[0], ast.Tuple) and k_st + 1 < len(body) \
                and isinstance(st.value, ast.Call) and len(st.value.args) == 1 and isinstance(st.value.args[0], ast.Compare) \
                and (_is_name(st.value.func, "where") or _is_attr(st.value.func, "np", "where")):
            cmpn, nxt = st.value.args[0], body[k_st + 1]
            if isinstance(cmpn.left, ast.Name) and cmpn.left.id in env and len(cmpn.ops) == 1 and isinstance(cmpn.ops[0], ast.Lt) \
                    and isinstance(nxt, ast.If) and not nxt.orelse and len(nxt.body) == 1 and isinstance(nxt.body[0], ast.AugAssign) \
                    and isinstance(nxt.body[0].op, ast.Add) and isinstance(nxt.body[0].target, ast.Subscript) \
                    and _is_name(nxt.body[0].target.value, cmpn.left.id):
                v = cmpn.left.id
                env[v] = "(if Rlt_dec %s %s then %s + %s else %s)" % (env[v], ex(cmpn.comparators[0]), env[v], ex(nxt.body[0].value), env[v])
                body[k_st + 1] = ast.Pass()
                continue
        if isinstance(st, ast.Pass):
            continue
        if isinstance(st, ast.Assign) and len(st.targets) == 1 and isinstance(st.targets[0], ast.Name):
            t, v = st.targets[0].id, st.value
            # identity copies: v = np.array(w, ndmin=1, copy=True, dtype=...) / np.atleast_1d(w)
            if isinstance(v, ast.Call) and isinstance(v.func, ast.Attribute) and _is_name(v.func.value, "np") \
                    and v.func.attr in ("array", "atleast_1d") and len(v.args) == 1 and isinstance(v.args[0], ast.Name):
                w = v.args[0].id
                w2 = w[:-3] if w.endswith("_in") else w
                if w in env:
                    env[t] = env[w]
                elif w2 in env:
                    env[t] = env[w2]
                else:
                    env.pop(t, None)
                continue
            try:
                env[t] = ex(v)
            except TranslateError:
                if targets and t in targets:
                    raise
                env.pop(t, None)          # not translatable: the name becomes unknown (an error if needed later)
            if t in abstract and t in env:
                env[t] = t
            if targets and t in targets:
                done.add(t)
                if done == set(targets):
                    return tuple(env[k] for k in targets)
            continue
        # in-place conversions and wraps of the output stage
        if isinstance(st, ast.Expr) and isinstance(st.value, ast.Call):
            call = st.value
            f = call.func.id if isinstance(call.func, ast.Name) else (call.func.attr if isinstance(call.func, ast.Attribute) and _is_name(call.func.value, "np") else None)
            names = [a.id for a in call.args if isinstance(a, ast.Name)]
            kws = {k.arg: k.value for k in call.keywords}
            # rad2deg(v, out=v) / np.rad2deg(v, v)
            if f == "rad2deg" and len(call.args) >= 1 and isinstance(call.args[0], ast.Name) and (
                    (len(call.args) == 2 and names == [names[0], names[0]] and not kws)
                    or (len(call.args) == 1 and list(kws) == ["out"] and _is_name(kws["out"], names[0]))):
                if names[0] in env:
                    env[names[0]] = "(%s * R2D)" % env[names[0]]
                continue
            # arctan2(a, b, a): in place
            if f == "arctan2" and len(call.args) == 3 and len(names) == 3 and names[2] == names[0] and not kws:
                if names[0] in env and names[1] in env:
                    env[names[0]] = "(atan2 %s %s)" % (env[names[0]], env[names[1]])
                    continue
            # atbound(v, lo, hi) / atbound2(theta, phi): the callee is modelled separately (atbound, atbound2 of Model.v)
            if f == "atbound" and isinstance(call.func, ast.Name) and len(call.args) == 3 and isinstance(call.args[0], ast.Name) and not kws \
                    and call.args[0].id in env:
                v = call.args[0].id
                env[v] = "(atb %s %s %s)" % (env[v], _r(src.num(call.args[1])), _r(src.num(call.args[2])))
                continue
            if f == "atbound2" and isinstance(call.func, ast.Name) and len(names) == 2 and len(call.args) == 2 and not kws \
                    and all(n in env for n in names):
                a, b = env[names[0]], env[names[1]]
                env[names[0]] = "(fst (atb2 %s %s))" % (a, b)
                env[names[1]] = "(snd (atb2 %s %s))" % (a, b)
                continue
        # `if is_scalar: v = v[0]` -- unwrapping of length-1 results, the values are unchanged
        if isinstance(st, ast.If) and _is_name(st.test, "is_scalar") and not st.orelse and all(
                isinstance(b, ast.Assign) and len(b.targets) == 1 and isinstance(b.targets[0], ast.Name)
                and isinstance(b.value, ast.Subscript) and _is_name(b.value.value, b.targets[0].id)
                and isinstance(b.value.slice, ast.Constant) and b.value.slice.value == 0 for b in st.body):
            continue
        if isinstance(st, ast.Return) and targets is None and isinstance(st.value, ast.Call) and isinstance(st.value.func, ast.Name) \
                and st.value.func.id in callees and all(isinstance(a, ast.Name) and a.id in env for a in st.value.args):
            return tuple(env[a.id] for a in st.value.args)        # the arguments handed to the (separately tied) callee
        if isinstance(st, ast.Return) and targets is None:
            v = st.value
            _need(isinstance(v, ast.Tuple) and all(isinstance(e, ast.Name) for e in v.elts), "%s returns a tuple of names" % fn.name)
            for e in v.elts:
                _need(e.id in env, "%s: returned name %r has no translatable value" % (fn.name, e.id))
            return tuple(env[e.id] for e in v.elts)
        if isinstance(st, ast.AugAssign) and isinstance(st.target, ast.Name) and type(st.op) in (ast.Add, ast.Sub, ast.Mult, ast.Div):
            t = st.target.id
            op = {ast.Add: "+", ast.Sub: "-", ast.Mult: "*", ast.Div: "/"}[type(st.op)]
            if t in env:
                try:
                    env[t] = "(%s %s %s)" % (env[t], op, ex(st.value))
                except TranslateError:
                    env.pop(t, None)
            continue
        if isinstance(st, ast.Expr) and isinstance(st.value, ast.Call) and isinstance(st.value.func, ast.Attribute) \
                and st.value.func.attr == "deg2rad" and len(st.value.args) == 2 \
                and all(isinstance(a, ast.Name) for a in st.value.args) and st.value.args[0].id == st.value.args[1].id:
            t = st.value.args[0].id
            if t in env:
                env[t] = "(%s * D2R)" % env[t]
            continue
        # anything else (if blocks, tuple assignment of np.where, bare calls): every name it may change -- assigned,
        # stored into through a subscript/attribute, or handed to a call that is a statement of its own (in-place
        # ufuncs, atbound) -- becomes unknown; needing it later is a translation error
        for t in _clobbered(st):
            if t not in tables:
                env.pop(t, None)
    return None


def _clobbered(st):
    """names a statement (with everything nested in it) may change"""
    out = set()
    for n in ast.walk(st):
        if isinstance(n, ast.Name) and isinstance(n.ctx, (ast.Store, ast.Del)):
            out.add(n.id)
        elif isinstance(n, (ast.Subscript, ast.Attribute)) and isinstance(n.ctx, (ast.Store, ast.Del)):
            b = n
            while isinstance(b, (ast.Subscript, ast.Attribute)):
                b = b.value
            if isinstance(b, ast.Name):
                out.add(b.id)
        elif isinstance(n, ast.Expr) and isinstance(n.value, ast.Call):
            for a in list(n.value.args) + [k.value for k in n.value.keywords]:
                for m in ast.walk(a):
                    if isinstance(m, ast.Name):
                        out.add(m.id)
    return out


def single_exit(fn):
    """fail closed on shortcuts: the only `return` of a modelled routine is its last top-level statement (the model has
    one formula chain; an early return for special argument values would be a second, unmodelled one)"""
    rets = [n for n in ast.walk(fn) if isinstance(n, ast.Return)]
    top = [st for st in fn.body if isinstance(st, ast.Return)]
    _need(len(rets) == len(top) and len(top) <= 1 and (not top or fn.body[-1] is top[0]),
          "%s has exactly one exit, its last statement (found %d return statement(s), %d nested)" % (fn.name, len(rets), len(rets) - len(top)))
    for n in ast.walk(fn):
        _need(not isinstance(n, (ast.Try, ast.With, ast.Global, ast.Nonlocal, ast.Lambda, ast.FunctionDef)) or n is fn,
              "%s contains no try/with/global/nested function (line %d)" % (fn.name, getattr(n, "lineno", 0)))


CMP = {ast.Gt: "CGt", ast.GtE: "CGe", ast.Lt: "CLt", ast.LtE: "CLe", ast.Eq: "CEq"}


def _cmp(src, node, var=None):
    """`<var-expr> OP literal` -> (OP, (num, den))"""
    _need(isinstance(node, ast.Compare) and len(node.ops) == 1 and type(node.ops[0]) in CMP, "simple comparison")
    return CMP[type(node.ops[0])], src.num(node.comparators[0])


def _walk_calls(fn, name):
    out = []
    for n in ast.walk(fn):
        if isinstance(n, ast.Call) and (_is_name(n.func, name) or (isinstance(n.func, ast.Attribute) and n.func.attr == name)):
            out.append(n)
    out.sort(key=lambda n: (n.lineno, n.col_offset))
    return out


def extract(path):
    s = Src(path)
    c = {}
    # ---- module constants
    mod = {}
    for n in s.tree.body:
        if isinstance(n, ast.Assign) and len(n.targets) == 1:
            t = n.targets[0]
            if isinstance(t, ast.Name):
                mod[t.id] = n.value
            elif _sub_key(t):
                mod["sdss:" + _sub_key(t)] = n.value
    for k in ("PI", "HALFPI", "D2R", "R2D", "sdss:center_ra", "sdss:center_dec", "sdss:node", "sdss:etapole"):
        _need(k in mod, "module-level assignment of " + k)
    _need(_is_attr(mod["PI"], "math", "pi"), "PI = math.pi")
    v = mod["HALFPI"]
    _need(isinstance(v, ast.BinOp) and isinstance(v.op, ast.Div) and _is_name(v.left, "PI"), "HALFPI = PI / 2.0")
    c["halfpi_div"] = s.num(v.right)
    v = mod["D2R"]
    _need(isinstance(v, ast.BinOp) and isinstance(v.op, ast.Div) and _is_name(v.left, "PI"), "D2R = PI / 180.0")
    c["d2r_div"] = s.num(v.right)
    v = mod["R2D"]
    _need(isinstance(v, ast.BinOp) and isinstance(v.op, ast.Div) and _is_name(v.right, "D2R"), "R2D = 1.0 / D2R")
    c["r2d_num"] = s.num(v.left)
    c["center_ra"] = s.num(mod["sdss:center_ra"])
    c["center_dec"] = s.num(mod["sdss:center_dec"])
    v = mod["sdss:node"]
    _need(isinstance(v, ast.BinOp) and isinstance(v.op, ast.Mult) and _is_name(v.right, "D2R")
          and isinstance(v.left, ast.BinOp) and isinstance(v.left.op, ast.Sub)
          and _sub_key(v.left.left) == "center_ra", 'node = (_sdsspar["center_ra"] - 90.0) * D2R')
    c["node_off"] = s.num(v.left.right)
    v = mod["sdss:etapole"]
    _need(isinstance(v, ast.BinOp) and isinstance(v.op, ast.Mult) and _is_name(v.right, "D2R")
          and _sub_key(v.left) == "center_dec", 'etapole = _sdsspar["center_dec"] * D2R')

    # ---- euler tables
    for f in ("euler", "eq2gal", "gal2eq", "eq2ec", "ec2eq", "ec2gal", "gal2ec", "eq2sdss", "sdss2eq", "eq2xyz",
              "xyz2eq", "atbound", "atbound2", "shiftlon", "shiftra", "rotate"):
        _need(f in s.funcs, "function " + f)
    for f in ("euler", "eq2gal", "gal2eq", "eq2ec", "ec2eq", "ec2gal", "gal2ec", "eq2sdss", "sdss2eq", "eq2xyz", "xyz2eq",
              "_thetaphi2xyz", "_xyz2thetaphi", "atbound", "atbound2", "shiftlon", "shiftra", "rotate"):
        _need(f in s.funcs, "function " + f)
        single_exit(s.funcs[f])
    # module-level state other than the constants read above would be carried across calls
    known_globals = {"PI", "HALFPI", "D2R", "R2D", "_sdsspar"}
    for n in s.tree.body:
        if isinstance(n, (ast.Assign, ast.AugAssign, ast.AnnAssign)):
            for t in ([n.target] if not isinstance(n, ast.Assign) else n.targets):
                b = t
                while isinstance(b, (ast.Subscript, ast.Attribute)):
                    b = b.value
                _need(isinstance(b, ast.Name) and b.id in known_globals,
                      "no module-level variable besides PI, HALFPI, D2R, R2D, _sdsspar (line %d)" % n.lineno)
    eu = s.funcs["euler"]
    ifs = [n for n in eu.body if isinstance(n, ast.If) and _is_name(n.test, "b1950")]
    _need(len(ifs) == 1, "exactly one `if b1950:` in euler")

    def tables(stmts):
        t = {}
        for st in stmts:
            _need(isinstance(st, ast.Assign) and len(st.targets) == 1 and isinstance(st.targets[0], ast.Name),
                  "table assignment in euler")
            name = st.targets[0].id
            call = st.value
            _need(isinstance(call, ast.Call) and _is_attr(call.func, "np", "array") and len(call.args) == 1
                  and isinstance(call.args[0], ast.List), "np.array([...]) for " + name)
            t[name] = [s.num(e) for e in call.args[0].elts]
        _need(sorted(t) == ["ctheta", "phi", "psi", "stheta"], "tables psi/stheta/ctheta/phi")
        _need(all(len(v) == 6 for v in t.values()), "six entries per table")
        return t
    c["B1950"] = tables(ifs[0].body)
    c["J2000"] = tables(ifs[0].orelse)
    # i = select - 1
    idx = [st for st in eu.body if isinstance(st, ast.Assign) and _is_name(st.targets[0], "i")]
    _need(len(idx) == 1 and isinstance(idx[0].value, ast.BinOp) and isinstance(idx[0].value.op, ast.Sub)
          and _is_name(idx[0].value.left, "select") and s.num(idx[0].value.right) == (1, 1), "i = select - 1")
    # the wrappers' selectors
    c["selectors"] = {}
    for name in ("eq2gal", "gal2eq", "eq2ec", "ec2eq", "ec2gal", "gal2ec"):
        rets = [n for n in ast.walk(s.funcs[name]) if isinstance(n, ast.Return)]
        _need(len(rets) == 1 and isinstance(rets[0].value, ast.Call) and _is_name(rets[0].value.func, "euler")
              and len(rets[0].value.args) == 3, name + " returns euler(a, b, k, ...)")
        k = s.num(rets[0].value.args[2])
        _need(k[1] == 1 and 1 <= k[0] <= 6, "selector of " + name)
        c["selectors"][name] = k[0]
    # documented constants (comment block of euler)
    lines = s.text.splitlines()[eu.lineno - 1:eu.end_lineno]
    doc = {}
    for ln in lines:
        m = re.match(r"\s*#\s*(\w+)\s*=\s*([0-9]+\.[0-9]+)d\s+(\S.*)$", ln)
        if m:
            txt = m.group(2)
            doc[m.group(1)] = (int(txt.replace(".", "")), 10 ** len(txt.split(".")[1]), m.group(3).strip())
    for k in ("eps", "alphaG", "deltaG", "lomega", "alphaE", "deltaE", "Eomega"):
        _need(k in doc, "documented constant %s in the comment block of euler" % k)
    c["doc"] = doc

    # ---- eq2sdss / sdss2eq range checks and atbound calls
    def range_checks(fn):
        out = []
        for st in fn.body:
            if isinstance(st, ast.If) and isinstance(st.test, ast.BinOp) and isinstance(st.test.op, ast.BitOr) \
                    and any(isinstance(b, ast.Raise) for b in st.body):
                lo, hi = st.test.left, st.test.right
                out.append((_cmp(s, lo), _cmp(s, hi)))
        return out
    rc = range_checks(s.funcs["eq2sdss"])
    _need(len(rc) == 2 and all(a[0] == "CLt" and b[0] == "CGt" for a, b in rc), "two `(min < lo) | (max > hi)` checks in eq2sdss")
    c["eq2sdss_range"] = [(a[1], b[1]) for a, b in rc]
    rc = range_checks(s.funcs["sdss2eq"])
    _need(len(rc) == 2 and all(a[0] == "CLt" and b[0] == "CGt" for a, b in rc), "two range checks in sdss2eq")
    c["sdss2eq_range"] = [(a[1], b[1]) for a, b in rc]

    def atb_args(fn, n):
        calls = _walk_calls(fn, "atbound")
        _need(len(calls) == n and all(len(k.args) == 3 for k in calls), "%d atbound call(s) in %s" % (n, fn.name))
        return [(k.args[0].id if isinstance(k.args[0], ast.Name) else "?", s.num(k.args[1]), s.num(k.args[2])) for k in calls]
    c["eq2sdss_atbound"] = atb_args(s.funcs["eq2sdss"], 1)
    c["xyz2eq_atbound"] = atb_args(s.funcs["xyz2eq"], 1)
    c["atbound2_atbound"] = atb_args(s.funcs["atbound2"], 3)
    _need([a[0] for a in c["atbound2_atbound"]] == ["theta", "theta", "phi"], "atbound2 bounds theta, theta, phi")
    # atbound: two while loops
    ab = s.funcs["atbound"]
    whiles = [n for n in ab.body if isinstance(n, ast.While)]
    _need(len(whiles) == 2, "two while loops in atbound")
    pre = [n for n in ab.body if isinstance(n, ast.Assign)]
    _need(len(pre) == 2, "two np.where in atbound")
    ops, steps = [], []
    for a, w in zip(pre, whiles):
        call = a.value
        _need(isinstance(call, ast.Call) and len(call.args) == 1 and isinstance(call.args[0], ast.Compare)
              and len(call.args[0].ops) == 1 and type(call.args[0].ops[0]) in CMP, "np.where(longitude OP bound)")
        ops.append(CMP[type(call.args[0].ops[0])])
        aug = [n for n in w.body if isinstance(n, ast.AugAssign)]
        _need(len(aug) == 1 and isinstance(aug[0].op, (ast.Add, ast.Sub)), "longitude[w] +=/-= period")
        steps.append(("add" if isinstance(aug[0].op, ast.Add) else "sub", s.num(aug[0].value)))
    _need(ops == ["CLt", "CGt"] and steps[0][0] == "add" and steps[1][0] == "sub" and steps[0][1] == steps[1][1],
          "atbound: while < min: += p; while > max: -= p")
    c["atbound_period"] = steps[0][1]
    # atbound2: abs(theta) > 90 fold, abs(theta) == 90 reset
    a2 = s.funcs["atbound2"]
    cmps = [n for n in ast.walk(a2) if isinstance(n, ast.Compare)]
    cmps.sort(key=lambda n: n.lineno)
    cm = [_cmp(s, n) for n in cmps if isinstance(n.left, ast.Call)]
    _need([x[0] for x in cm] == ["CGt", "CEq"], "atbound2: abs(theta) > t, abs(theta) == t")
    c["atbound2_fold"], c["atbound2_pole"] = cm[0][1], cm[1][1]
    folds = [n for n in ast.walk(a2) if isinstance(n, ast.Assign) and isinstance(n.value, ast.BinOp)
             and isinstance(n.value.op, ast.Sub) and isinstance(n.value.left, ast.Constant)]
    _need(len(folds) == 1, "theta[w] = 180.0 - theta[w]")
    c["atbound2_reflect"] = s.num(folds[0].value.left)
    augs = [n for n in ast.walk(a2) if isinstance(n, ast.AugAssign)]
    _need(len(augs) == 1 and isinstance(augs[0].op, ast.Add), "phi[w] += 180.0")
    c["atbound2_phishift"] = s.num(augs[0].value)

    # ---- shiftlon
    sh = s.funcs["shiftlon"]
    top = [n for n in sh.body if isinstance(n, ast.If)]
    _need(len(top) == 1 and isinstance(top[0].test, ast.Compare) and isinstance(top[0].test.ops[0], ast.IsNot)
          and _is_name(top[0].test.left, "shift"), "if shift is not None")
    body = top[0].body
    neg = [n for n in body if isinstance(n, ast.If) and isinstance(n.test, ast.Compare) and _is_name(n.test.left, "shift")]
    _need(len(neg) == 1 and _cmp(s, neg[0].test) == ("CLt", (0, 1)), "if shift < 0")
    mods = [n for n in body if isinstance(n, ast.Assign) and isinstance(n.value, ast.BinOp) and isinstance(n.value.op, ast.Mod)]
    _need(len(mods) == 1 and _is_name(mods[0].value.left, "abs_shift"), "abs_shift = abs_shift % 360.0")
    c["shift_mod"] = s.num(mods[0].value.right)
    br = [n for n in body if isinstance(n, ast.If) and _is_name(n.test, "negshift")]
    _need(len(br) == 1 and len(br[0].orelse) > 0, "if negshift: ... else: ...")

    def branch(stmts, first_op):
        aug = [n for n in stmts if isinstance(n, ast.AugAssign)]
        _need(len(aug) == 1 and isinstance(aug[0].op, first_op) and _is_name(aug[0].value, "abs_shift"), "lon +=/-= abs_shift")
        wh = [n for n in stmts if isinstance(n, ast.Assign) and isinstance(n.value, ast.Call)]
        _need(len(wh) == 1 and len(wh[0].value.args) == 1, "np.where(lon OP t)")
        op, t = _cmp(s, wh[0].value.args[0])
        inner = [n for n in stmts if isinstance(n, ast.If)]
        _need(len(inner) == 1 and len(stmts) == 3, "lon +=/-= abs_shift; w = where(...); if w.size > 0")
        ib = inner[0].body
        _need(not inner[0].orelse and len(ib) in (1, 3) and isinstance(ib[0], ast.AugAssign), "lon[w] +=/-= 360.0")
        rewrap = None
        if len(ib) == 3:
            # second wrap after the first: (w,) = np.where(lon OP t); if w.size > 0: lon[w] -= p
            _need(isinstance(ib[1], ast.Assign) and isinstance(ib[1].value, ast.Call) and len(ib[1].value.args) == 1
                  and isinstance(ib[2], ast.If) and not ib[2].orelse and len(ib[2].body) == 1
                  and isinstance(ib[2].body[0], ast.AugAssign) and isinstance(ib[2].body[0].op, ast.Sub),
                  "second wrap: w = where(lon OP t); if w.size > 0: lon[w] -= p")
            op2, t2 = _cmp(s, ib[1].value.args[0])
            rewrap = (op2, t2, s.num(ib[2].body[0].value))
        return op, t, ("add" if isinstance(ib[0].op, ast.Add) else "sub"), s.num(ib[0].value), rewrap
    c["shift_neg"] = branch(br[0].body, ast.Add)
    c["shift_pos"] = branch(br[0].orelse, ast.Sub)
    _need(c["shift_neg"][4] is None, "no second wrap in the negative-shift branch")
    _need(c["shift_neg"][2] == "sub" and c["shift_pos"][2] == "add", "negative shift wraps down, positive wraps up")
    el = top[0].orelse
    _need(len(el) == 1 and isinstance(el[0], ast.If) and _is_name(el[0].test, "wrap") and not el[0].orelse, "elif wrap:")
    wh = [n for n in el[0].body if isinstance(n, ast.Assign) and isinstance(n.value, ast.Call)]
    _need(len(wh) == 1, "where(lon > 180)")
    op, t = _cmp(s, wh[0].value.args[0])
    inner = [n for n in el[0].body if isinstance(n, ast.If)]
    ia = [n for n in inner[0].body if isinstance(n, ast.AugAssign)] if len(inner) == 1 else []
    _need(len(ia) == 1 and isinstance(ia[0].op, ast.Sub), "lon[w] -= 360")
    c["wrap"] = (op, t, s.num(ia[0].value))
    # ---- how each routine extracts the latitude: arcsin(third component) or arctan2(z, sqrt(x*x + y*y))
    def lat_method(fn, want):
        asin = _walk_calls(fn, "arcsin")
        hits = []
        for k in _walk_calls(fn, "arctan2"):
            if len(k.args) >= 2 and isinstance(k.args[0], ast.Name) and isinstance(k.args[1], ast.Call) \
                    and _is_name(k.args[1].func, "sqrt") and len(k.args[1].args) == 1:
                e = k.args[1].args[0]
                if isinstance(e, ast.BinOp) and isinstance(e.op, ast.Add) \
                        and all(isinstance(m, ast.BinOp) and isinstance(m.op, ast.Mult) and isinstance(m.left, ast.Name)
                                and isinstance(m.right, ast.Name) and m.left.id == m.right.id for m in (e.left, e.right)):
                    hits.append((k.args[0].id, e.left.left.id, e.right.left.id))
        if asin:
            _need(not hits, "%s mixes arcsin and arctan2 latitudes" % fn.name)
            return False
        _need(hits == [want], "%s: latitude = arctan2(%s, sqrt(%s * %s + %s * %s))" % (fn.name, want[0], want[1], want[1], want[2], want[2]))
        return True
    c["lat_atan2"] = {
        "euler": lat_method(s.funcs["euler"], ("z", "x", "y")),
        "rotate": lat_method(s.funcs["rotate"], ("z", "x", "y")),
        "xyz2eq": lat_method(s.funcs["_xyz2thetaphi"], ("z", "x", "y")),
        "eq2sdss": lat_method(s.funcs["eq2sdss"], ("x", "y", "z")),
        "sdss2eq": lat_method(s.funcs["sdss2eq"], ("z", "x", "y")),
    }
    # clipping of the arcsin argument (as-found euler/rotate clip only from above)
    # ---- xyz2eq: `atbound(theta, 0, 360)` for both units (as found) or only for degrees with a 2*PI wrap for radians
    xq = s.funcs["xyz2eq"]
    units_if = [n for n in xq.body if isinstance(n, ast.If) and isinstance(n.test, ast.Compare) and _is_name(n.test.left, "units")]
    _need(len(units_if) == 1, "one `if units == \"deg\":` in xyz2eq")
    in_if = any(isinstance(n, ast.Call) and _is_name(n.func, "atbound") for st in units_if[0].body for n in ast.walk(st))
    if in_if:
        el = units_if[0].orelse
        _need(len(el) == 2 and isinstance(el[0], ast.Assign) and isinstance(el[0].value, ast.Call)
              and len(el[0].value.args) == 1 and _cmp(s, el[0].value.args[0])[0] == "CLt" and _cmp(s, el[0].value.args[0])[1][0] == 0
              and isinstance(el[1], ast.If) and len(el[1].body) == 1 and isinstance(el[1].body[0], ast.AugAssign)
              and isinstance(el[1].body[0].op, ast.Add), "else: w = where(theta < 0.0); if w.size > 0: theta[w] += 2.0 * PI")
        v = el[1].body[0].value
        _need(isinstance(v, ast.BinOp) and isinstance(v.op, ast.Mult) and _is_name(v.right, "PI")
              and Fraction(*s.num(v.left)) == 2, "theta[w] += 2.0 * PI")
        c["xyz2eq_rad_wrap_2pi"] = True
    else:
        _need(not units_if[0].orelse, "no else branch of `if units == \"deg\"` in xyz2eq")
        c["xyz2eq_rad_wrap_2pi"] = False
    # ---- straight-line formulas (T-expr): the three components computed by euler / rotate / _thetaphi2xyz /
    #      eq2sdss / sdss2eq, translated expression by expression into real-number terms
    c["formulas"] = {
        "euler": straightline(s, s.funcs["euler"], ("x", "y", "z"), {"ai": "ai", "bi": "bi"},
                              {"psi": "psi", "stheta": "stheta", "ctheta": "ctheta", "phi": "phi"}, {"D2R": "D2R"}),
        "rotate": straightline(s, s.funcs["rotate"], ("x", "y", "z"),
                               {"phi": "phi", "theta": "theta", "psi": "psi", "ra": "ra", "dec": "dec"}, {}, {"D2R": "D2R"})
        if c["lat_atan2"]["rotate"] else None,
        "thetaphi2xyz": straightline(s, s.funcs["_thetaphi2xyz"], ("x", "y", "z"), {"theta": "theta", "phi": "phi"}, {}, {}),
        "sdss2eq": straightline(s, s.funcs["sdss2eq"], ("x", "y", "z"), {"clambda": "clambda", "ceta": "ceta"}, {},
                                {"D2R": "D2R", "_sdsspar:etapole": "sdss_etapole", "_sdsspar:node": "sdss_node"}),
        "eq2sdss": straightline(s, s.funcs["eq2sdss"], ("x", "y", "z"), {"ra": "ra", "dec": "dec"}, {},
                                {"D2R": "D2R", "_sdsspar:etapole": "sdss_etapole", "_sdsspar:node": "sdss_node"}),
    }
    if not c["lat_atan2"]["euler"]:
        c["formulas"]["euler"] = None      # as-found code never forms x, y, z
    # output stage: the returned (longitude, latitude) as terms over x, y, z (arctan2 -> atan2, % -> Rmod, passed in as parameters)
    c["outstage"] = {
        "euler": straightline(s, s.funcs["euler"], None, {"ai": "ai", "bi": "bi"},
                              {"psi": "psi", "stheta": "stheta", "ctheta": "ctheta", "phi": "phi"}, {"D2R": "D2R", "R2D": "R2D", "PI": "PI"},
                              abstract=("x", "y", "z")) if c["lat_atan2"]["euler"] else None,
        "xyz2thetaphi": straightline(s, s.funcs["_xyz2thetaphi"], None, {"x": "x", "y": "y", "z": "z"}, {}, {})
        if c["lat_atan2"]["xyz2eq"] else None,
    }
    c["outstage"]["rotate"] = straightline(
        s, s.funcs["rotate"], None, {"phi": "phi", "theta": "theta", "psi": "psi", "ra": "ra", "dec": "dec"}, {},
        {"D2R": "D2R", "R2D": "R2D", "PI": "PI"}, abstract=("x", "y", "z")) if c["lat_atan2"]["rotate"] else None
    sd = {"D2R": "D2R", "R2D": "R2D", "_sdsspar:etapole": "sdss_etapole", "_sdsspar:node": "sdss_node"}
    c["outstage"]["eq2sdss"] = straightline(s, s.funcs["eq2sdss"], None, {"ra": "ra", "dec": "dec"}, {}, sd,
                                            abstract=("x", "y", "z")) if c["lat_atan2"]["eq2sdss"] else None
    c["outstage"]["sdss2eq"] = straightline(s, s.funcs["sdss2eq"], None, {"clambda": "clambda", "ceta": "ceta"}, {}, sd,
                                            abstract=("x", "y", "z")) if c["lat_atan2"]["sdss2eq"] else None
    for k, v in c["outstage"].items():
        _need(v is None or len(v) == 2, "%s returns (longitude, latitude)" % k)
    # eq2xyz / xyz2eq specialised to the four (units, stomp) settings: the arguments eq2xyz hands to _thetaphi2xyz, and
    # what xyz2eq does with the (theta, phi) it gets from _xyz2thetaphi
    c["eq2xyz_args"], c["xyz2eq_post"] = {}, {}
    for units in ("deg", "rad"):
        for stomp in (True, False):
            o = {"units": units, "stomp": stomp}
            c["eq2xyz_args"][(units, stomp)] = straightline(
                s, s.funcs["eq2xyz"], None, {"ra": "ra", "dec": "dec"}, {}, {"D2R": "D2R", "_sdsspar:node": "sdss_node"},
                options=o, callees={"_thetaphi2xyz": ()})
            c["xyz2eq_post"][(units, stomp)] = straightline(
                s, s.funcs["xyz2eq"], None, {}, {}, {"R2D": "R2D", "PI": "PI", "_sdsspar:node": "sdss_node"},
                options=o, callees={"_xyz2thetaphi": ("theta0", "phi0")})
            for k in ("eq2xyz_args", "xyz2eq_post"):
                v = c[k][(units, stomp)]
                _need(v is not None and len(v) == 2, "%s for units=%s stomp=%s" % (k, units, stomp))
    # the exception class of the range checks
    for fnm in ("eq2sdss", "sdss2eq"):
        for st in s.funcs[fnm].body:
            if isinstance(st, ast.If) and any(isinstance(b, ast.Raise) for b in st.body):
                r = [b for b in st.body if isinstance(b, ast.Raise)][0]
                _need(isinstance(r.exc, ast.Call) and isinstance(r.exc.func, ast.Name), "%s raises a named exception class" % fnm)
                c.setdefault("range_err", set()).add(r.exc.func.id)
    _need(len(c.get("range_err", ())) == 1, "one exception class for all range checks")
    c["range_err"] = {"ValueError": "EValue", "IndexError": "EIndex", "RuntimeError": "ERuntime", "TypeError": "EType",
                      "KeyError": "EKey"}.get(list(c["range_err"])[0], "EOther")
    # shiftra just forwards
    rets = [n for n in ast.walk(s.funcs["shiftra"]) if isinstance(n, ast.Return)]
    _need(len(rets) == 1 and isinstance(rets[0].value, ast.Call) and _is_name(rets[0].value.func, "shiftlon"), "shiftra calls shiftlon")
    return c


# ----------------------------------------------------------------------------------------------
# emission
# ----------------------------------------------------------------------------------------------

def _r(q):
    n, d = q
    body = "%d" % abs(n) if d == 1 else "%d / %d" % (abs(n), d)
    return "(- %s)" % body if n < 0 else ("(%s)" % body if d != 1 else body)


def _q(q):
    n, d = q
    fr = Fraction(n, d)
    return "(%d # %d)" % (fr.numerator, fr.denominator)


def emit(c):
    o = []
    w = o.append
    w("(* GENERATED by harness/translate/c09_consts.py from esutil/coords.py -- do not edit.")
    w("   Constants of the coordinate conversions as exact rationals (every decimal literal keeps its digits). *)")
    w("From Coq Require Import Reals QArith List.")
    w("From EsVerif.Common Require Import Base.")
    w("Import ListNotations.")
    w("Open Scope R_scope.")
    w("")
    w("Inductive cmp := CGt | CGe | CLt | CLe | CEq.")
    w("")
    w("(* PI = math.pi; HALFPI = PI / %s; D2R = PI / %s; R2D = %s / D2R *)" % (_r(c["halfpi_div"]), _r(c["d2r_div"]), _r(c["r2d_num"])))
    w("Definition HALFPI : R := PI / %s." % _r(c["halfpi_div"]))
    w("Definition D2R : R := PI / %s." % _r(c["d2r_div"]))
    w("Definition R2D : R := %s / D2R." % _r(c["r2d_num"]))
    w("")
    w("(* euler: rows (psi, stheta, ctheta, phi) for select = 1..6 (i = select - 1) *)")
    w("Definition row := (R * R * R * R)%type.")
    for ep in ("J2000", "B1950"):
        t = c[ep]
        for i in range(6):
            w("Definition row_%s_%d : row := (%s, %s, %s, %s)." % (
                ep, i + 1, _r(t["psi"][i]), _r(t["stheta"][i]), _r(t["ctheta"][i]), _r(t["phi"][i])))
        w("Definition rows_%s : list row := [%s]." % (ep, "; ".join("row_%s_%d" % (ep, i + 1) for i in range(6))))
    w("Definition euler_row (b1950 : bool) (select : nat) : row :=")
    w("  nth (select - 1) (if b1950 then rows_B1950 else rows_J2000) (0, 0, 0, 0).")
    w("")
    w("(* selectors used by the six wrappers *)")
    for k, v in c["selectors"].items():
        w("Definition sel_%s : nat := %d." % (k, v))
    w("")
    w("(* documented constants (comment block of euler, J2000, degrees) *)")
    for k in ("eps", "alphaG", "deltaG", "lomega", "alphaE", "deltaE", "Eomega"):
        n, d, what = c["doc"][k]
        w("Definition doc_%s : R := %s.  (* %s *)" % (k, _r((n, d)), what.replace("*)", "* )")))
    w("")
    w("(* SDSS survey constants *)")
    w("Definition sdss_center_ra : R := %s." % _r(c["center_ra"]))
    w("Definition sdss_center_dec : R := %s." % _r(c["center_dec"]))
    w("Definition sdss_node : R := (sdss_center_ra - %s) * D2R." % _r(c["node_off"]))
    w("Definition sdss_etapole : R := sdss_center_dec * D2R.")
    for nm in ("eq2sdss", "sdss2eq"):
        (a, b), (c2, d2) = c[nm + "_range"]
        w("Definition %s_range1 : R * R := (%s, %s)." % (nm, _r(a), _r(b)))
        w("Definition %s_range2 : R * R := (%s, %s)." % (nm, _r(c2), _r(d2)))
    w("Definition eq2sdss_atbound : R * R := (%s, %s)." % (_r(c["eq2sdss_atbound"][0][1]), _r(c["eq2sdss_atbound"][0][2])))
    w("Definition xyz2eq_atbound : R * R := (%s, %s)." % (_r(c["xyz2eq_atbound"][0][1]), _r(c["xyz2eq_atbound"][0][2])))
    for i, a in enumerate(c["atbound2_atbound"]):
        w("Definition atbound2_bound%d : R * R := (%s, %s)." % (i + 1, _r(a[1]), _r(a[2])))
    w("Definition atbound_period : R := %s." % _r(c["atbound_period"]))
    w("Definition atbound2_fold : R := %s." % _r(c["atbound2_fold"]))
    w("Definition atbound2_pole : R := %s." % _r(c["atbound2_pole"]))
    w("Definition atbound2_reflect : R := %s." % _r(c["atbound2_reflect"]))
    w("Definition atbound2_phishift : R := %s." % _r(c["atbound2_phishift"]))
    w("")
    w("(* shape of the code: true = latitude by arctan2(z, sqrt(x*x + y*y)); false = arcsin of the third component *)")
    for k in ("euler", "rotate", "xyz2eq", "eq2sdss", "sdss2eq"):
        w("Definition %s_lat_atan2 : bool := %s." % (k, "true" if c["lat_atan2"][k] else "false"))
    w("(* xyz2eq(units='rad'): true = negative ra wrapped by 2*PI; false = atbound(theta, 0, 360) applied to radians *)")
    w("Definition xyz2eq_rad_wrap_2pi : bool := %s." % ("true" if c["xyz2eq_rad_wrap_2pi"] else "false"))
    w("")
    w("(* the three components computed by each routine, translated expression by expression from the source *)")
    sig = {"euler": "(psi stheta ctheta phi ai bi : R)", "rotate": "(phi theta psi ra dec : R)", "thetaphi2xyz": "(theta phi : R)",
           "sdss2eq": "(clambda ceta : R)", "eq2sdss": "(ra dec : R)"}
    for k in ("euler", "rotate", "thetaphi2xyz", "sdss2eq", "eq2sdss"):
        f = c["formulas"][k]
        if f is None:
            w("Definition %s_xyz_src %s : option (R * R * R) := None.  (* the code does not form x, y, z *)" % (k, sig[k]))
        else:
            w("Definition %s_xyz_src %s : option (R * R * R) :=\n  Some (%s,\n        %s,\n        %s)." % (k, sig[k], f[0], f[1], f[2]))
    w("")
    w("(* the output stage: the returned (longitude, latitude) as functions of x, y, z, translated from the source;")
    w("   numpy's arctan2 and float % are parameters (Model.atan2, Model.Rmod are plugged in by Proofs.v) *)")
    osig = {"euler": "(atan2 Rmod : R -> R -> R) (psi x y z : R)", "xyz2thetaphi": "(atan2 Rmod : R -> R -> R) (x y z : R)",
            "rotate": "(atan2 Rmod : R -> R -> R) (phi theta psi ra dec x y z : R)",
            "eq2sdss": "(atan2 : R -> R -> R) (atb : R -> R -> R -> R) (ra dec x y z : R)",
            "sdss2eq": "(atan2 : R -> R -> R) (atb2 : R -> R -> R * R) (clambda ceta x y z : R)"}
    for k in ("euler", "xyz2thetaphi", "rotate", "eq2sdss", "sdss2eq"):
        f = c["outstage"][k]
        if f is None:
            w("Definition %s_out_src %s : option (R * R) := None.  (* as-found shape (arcsin) *)" % (k, osig[k]))
        else:
            w("Definition %s_out_src %s : option (R * R) :=\n  Some (%s,\n        %s)." % (k, osig[k], f[0], f[1]))
    w("")
    w("(* eq2xyz: the (theta, phi) handed to _thetaphi2xyz; xyz2eq: what is returned for the (theta0, phi0) of _xyz2thetaphi;")
    w("   one branch per (units == \"deg\", stomp) setting, each translated from the source specialised to that setting *)")
    def four(tab):
        g = lambda u, st: "(%s, %s)" % tab[(u, st)]
        return ("  if deg then (if stomp then %s else %s)\n  else (if stomp then %s else %s)."
                % (g("deg", True), g("deg", False), g("rad", True), g("rad", False)))
    w("Definition eq2xyz_args_src (deg stomp : bool) (ra dec : R) : R * R :=\n" + four(c["eq2xyz_args"]))
    w("Definition xyz2eq_post_src (atb : R -> R -> R -> R) (deg stomp : bool) (theta0 phi0 : R) : R * R :=\n" + four(c["xyz2eq_post"]))
    w("")
    w("(* error class raised by the range checks of eq2sdss / sdss2eq *)")
    w("Definition sdss_range_err : err := %s." % c["range_err"])
    w("")
    w("(* shiftlon (exact rationals, Q) *)")
    w("Definition shift_mod : Q := %s." % _q(c["shift_mod"]))
    for nm in ("neg", "pos"):
        op, t, _, p, _rw = c["shift_" + nm]
        w("Definition shift_%s_cmp : cmp := %s." % (nm, op))
        w("Definition shift_%s_thr : Q := %s." % (nm, _q(t)))
        w("Definition shift_%s_period : Q := %s." % (nm, _q(p)))
    rw = c["shift_pos"][4]
    w("(* second wrap after `lon[w] += period` of the positive-shift branch (None: absent) *)")
    w("Definition shift_pos_rewrap : option (cmp * Q * Q) := %s." % (
        "None" if rw is None else "Some (%s, %s, %s)" % (rw[0], _q(rw[1]), _q(rw[2]))))
    op, t, p = c["wrap"]
    w("Definition wrap_cmp : cmp := %s." % op)
    w("Definition wrap_thr : Q := %s." % _q(t))
    w("Definition wrap_period : Q := %s." % _q(p))
    return "\n".join(o) + "\n"


def generate(impl_dir):
    """Gen.v text for the coords.py of the build at impl_dir"""
    return emit(extract(os.path.join(impl_dir, "esutil", "coords.py")))


def regenerate(impl_dir, coqdir):
    """-> (constants, changed: bool); rewrites coq/theories/C09/Gen.v only when its text changes; raises TranslateError"""
    p = os.path.join(impl_dir, "esutil", "coords.py")
    if not os.path.exists(p):
        raise TranslateError("cannot read %s" % p)
    c = extract(p)
    txt = emit(c)
    dst = os.path.join(coqdir, "theories", "C09", "Gen.v")
    old = open(dst).read() if os.path.exists(dst) else None
    if old == txt:
        return c, False
    tmp = dst + ".tmp.%d" % os.getpid()
    with open(tmp, "w") as f:
        f.write(txt)
    os.replace(tmp, dst)
    return c, True


if __name__ == "__main__":
    import sys
    sys.stdout.write(generate(sys.argv[1]))

"""C15 — non-in-place calls never modify the arrays passed to them (DESIGN.md section 7, C15).

INVENTORY c15_translate: every public callable of the 8 anchored python modules is driven by c15_drivers.py or listed out of
        scope with a reason; parameter lists of driven callables unchanged; C++ class methods and the array arguments each C entry
        point stores through (syntactic scan of chist_pywrap.c, cosmolib_pywrap.c, htmc.cc) agree with the extractor's C table.
STATIC  every driver of c15_drivers.py (one public function + one option valuation) is turned into an
        effect skeleton by harness/translate/c15_skeleton.py from the sources of the scratch build, and
        `frame_ok skeleton params = true` is one generated, kernel-checked lemma (vm_compute).  By
        C15_frame_ok_sound no execution of the skeleton changes a parameter's buffer (C15_frame_ok_decides: and conversely).
        `ret_alias skeleton params ret` (C15_alias_sound) predicts which arguments the return value may share memory with.
DYNAMIC the same driver text is compiled and run against the scratch build on the matrix
        {native, byte-swapped(, mixed)} x {contiguous, strided} x {0-d, 1-d, 2-d} x {f8, f4, i8, i4 / structured}
        with a snapshot (bytes of the whole base buffer, dtype incl. byte order, shape, strides,
        writeable) of every array argument before and after; the snapshots are compared inside Coq by
        the verified checker.  Any difference is a failing input (verdict >= 2).  The arguments the real return value shares
        memory with must be inside the predicted set (else verdict bit 0: model <> implementation).
The two are cross-checked: a driver whose obligation fails but never mutates dynamically (after a full-matrix
search) is reported `no-failing-input-found`; a driver that mutates although its obligation was
discharged is reported as a failing input AND as an extractor defect.
"""
import ast
import contextlib
import io
import os
import re
import signal
import sys
import time
import zlib

from .. import core
from ..core import cstr, cbool
from ..runner import Entry, differential, run_entry
from ..translate import c15_skeleton as sk
from . import c15_drivers as drv
from . import c15_translate as tr

PRE = ("From EsVerif.Common Require Import Base Bytes.\nFrom EsVerif.C15 Require Import Model Spec Exec.\n"
       "From Coq Require Import Uint63.\n")
PRE_STATIC = "From EsVerif.Common Require Import Base.\nFrom EsVerif.C15 Require Import Model Spec Exec.\n"

BY_NAME = {d["name"]: d for d in drv.DRIVERS}
FAMILIES = ["recfile", "fields", "byteorder", "match", "hist", "stat", "coords", "wcs", "cosmo", "htm", "integrate", "random"]
STATIC_OK = {}          # driver name -> bool, filled by static_step
EXEMPT_HITS = {}        # "driver.arg" -> number of calls in which the exempt (documented in-place) argument did change
ERRORS = {}             # driver -> number of calls that raised (an exception is not a mutation)
TIMES = {}              # phase -> seconds (reported in the evidence)
SKIP = set()            # drivers whose target does not exist in this tree (d["needs"])
RO_HITS = {}            # driver -> calls that raised "read-only" on a read-only (non-exempt) argument
RO_MSG = re.compile(r"read-only|read only|readonly|not writeable|not writable|WRITEABLE", re.I)
SHARE_HITS = {}         # driver -> number of calls whose return value shared memory with a (non-exempt) argument
RET_STATIC = {}         # driver -> ids of the parameters the RETURN VALUE may share memory with (verified analysis, evaluated in Coq)
PARAM_ID = {}           # driver -> {parameter name: id in its skeleton}
DYN_CHANGED = {}        # driver -> first case in which a non-exempt argument changed


def params_of(d):
    fdef = ast.parse(d["src"]).body[0]
    arr = [a.arg for a in fdef.args.args if a.annotation is None]
    fix = [(a.arg, ast.unparse(a.annotation)) for a in fdef.args.args if a.annotation is not None]
    return arr, fix


# ----------------------------------------------------------------------------------------------
# argument generation
# ----------------------------------------------------------------------------------------------
REC_FIELDS = [("x", "f8", None), ("id", "i4", None), ("v", "f4", (2,)), ("s", "S3", None), ("b", "i8", None)]
RECNUM_FIELDS = [("x", "f8", None), ("id", "i4", None), ("v", "f4", (2,)), ("h", "i2", None)]
# tables for the record-file writers: the options the C writer reads (padnull, ignorenull, bracket_arrays, delim) only matter for
# string fields with short / empty / full-width values and embedded NULs, and for sub-array fields (numeric, 2-d numeric, string)
RECIO_FIELDS = [("x", "f8", None), ("id", "i4", None), ("v", "f4", (2,)), ("s", "S5", None), ("t", "S3", (2,)), ("m", "i2", (2, 2)),
                ("e", "S1", None), ("b", "i8", None)]
S_VALUES = [b"", b"a", b"ab\0cd", b"abcde", b"abc", b"\0\0z", b"q\0"]
REC2_FIELDS = [("y", "f8", None), ("k", "i2", None), ("m", "f4", (3,))]


# ERROR-PATH inputs: a column of a type that some callees (correctly) refuse AFTER they have started working -- the text record
# writer raises "Unsupported type" for complex, bool, float16 and unicode columns.  The frame property holds whether or not the
# call raised: the snapshots are compared after the exception as well.  (mode "badcolK": column BADCOLS[K] appended to the table)
BADCOLS = [("zc", "c8", None), ("zb", "b1", None), ("zh", "f2", None), ("zu", "U2", None)]
EXTRA_FIELDS = []       # set by build_args for the duration of one case


def rec_dtype(fields, order):
    import numpy as np
    descr = []
    for i, (n, t, sh) in enumerate(fields):
        if t[0] == "S":
            ts = t
        else:
            o = {"native": "<" if np.little_endian else ">", "swapped": ">" if np.little_endian else "<"}.get(order)
            if o is None:       # mixed: alternate
                o = "<>"[i % 2]
            ts = o + t
        descr.append((n, ts) if sh is None else (n, ts, sh))
    return np.dtype(descr)


def fill_rec(a, rs):
    import numpy as np
    names = a.dtype.names
    flat = a.reshape(-1)
    for n in names:
        f = flat[n]
        k = f.dtype.kind
        if k == "S" and "e" in names:       # recio: short, empty, full-width values and embedded NULs (truncated to the field width)
            vals = np.array([S_VALUES[(i + len(n) - 1) % len(S_VALUES)][:f.dtype.itemsize] for i in range(f.size)], dtype=f.dtype)
            f[...] = vals.reshape(f.shape)
        elif k == "S":
            f[...] = [b"ab%d" % (i % 7) for i in range(flat.size)]
        elif k == "f":
            f[...] = rs.uniform(-50, 50, size=f.shape)
        elif k == "c":
            f[...] = rs.uniform(-50, 50, size=f.shape) + 1j * rs.uniform(-50, 50, size=f.shape)
        elif k == "b":
            f[...] = rs.randint(0, 2, size=f.shape).astype(bool)
        elif k == "U":
            f[...] = np.array(["%d" % (i % 97) for i in range(f.size)]).reshape(f.shape)
        else:
            f[...] = rs.randint(0, 100, size=f.shape)


def values(kind, shape, rs):
    import numpy as np
    n = int(np.prod(shape)) if shape else 1
    u = rs.uniform(size=shape)
    if kind == "x":
        return rs.uniform(-40, 40, size=shape)
    if kind == "ra":
        return rs.uniform(1, 359, size=shape)
    if kind == "dec":
        return rs.uniform(-85, 85, size=shape)
    if kind == "eta":
        return rs.uniform(-170, 170, size=shape)
    if kind == "bigang":
        return rs.uniform(-700, 700, size=shape)
    if kind == "unit":
        return rs.uniform(-0.9, 0.9, size=shape)
    if kind == "z":
        return rs.uniform(0.05, 1.0, size=shape)
    if kind == "zhi":
        return rs.uniform(1.5, 3.0, size=shape)
    if kind in ("w", "diag"):
        return rs.uniform(0.5, 4.0, size=shape)
    if kind == "small":
        return rs.uniform(0.5, 2.5, size=shape)
    if kind == "pix":
        return rs.uniform(5, 2000, size=shape)
    if kind == "wlon":
        return 150.0 + rs.uniform(-0.06, 0.06, size=shape)
    if kind == "wlat":
        return 2.2 + rs.uniform(-0.06, 0.06, size=shape)
    if kind == "cra":
        return 200.0 + rs.uniform(-2, 2, size=shape)
    if kind == "cdec":
        return 10.0 + rs.uniform(-2, 2, size=shape)
    if kind == "int":
        return np.floor(u * 12)
    if kind == "flag":
        return np.floor(u * 4)
    if kind in ("uniq", "uniq_sorted"):
        v = rs.permutation(3 * max(n, 1))[:max(n, 1)].astype("f8")
        if kind == "uniq_sorted":
            v = np.sort(v)
        return v.reshape(shape)
    if kind == "sx":
        return np.sort(rs.uniform(-45, 45, size=n)).reshape(shape) + np.arange(n).reshape(shape)
    if kind == "vals":
        return rs.uniform(-9, 9, size=shape)
    if kind == "pofx":
        return np.exp(-0.5 * np.linspace(-2, 2, n) ** 2).reshape(shape) + 0.01
    if kind == "grid":
        return np.linspace(-2, 2, n).reshape(shape)
    if kind in ("mean3", "pos3"):
        return rs.uniform(-1, 1, size=shape)
    if kind == "strs":
        return np.array(["ab%d" % (i % 3) for i in range(n)]).reshape(shape)
    raise KeyError(kind)


def make_array(kind, dt, order, layout, nd, rs, nelem=6):
    """returns an ndarray (a view into a larger base buffer when layout == 'strided')"""
    import numpy as np
    if nd == 0:
        shape = ()
    elif nd == 1:
        shape = (nelem,)
    else:
        shape = (4, 3)
    special = {"cov": (3, 3), "cor": (3, 3), "coef": (3, 3), "mean3": (3,), "pos3": (nelem, 3)}
    if kind in special:
        shape = special[kind]
    if kind == "diag":
        shape = (3,)
    # ---- dtype
    if kind in ("rec", "rec_like"):
        dtype = rec_dtype(REC_FIELDS + EXTRA_FIELDS, order)
    elif kind == "recio":
        dtype = rec_dtype(RECIO_FIELDS + EXTRA_FIELDS, order)
    elif kind == "recnum":
        dtype = rec_dtype(RECNUM_FIELDS + EXTRA_FIELDS, order)
    elif kind == "rec2":
        dtype = rec_dtype(REC2_FIELDS + EXTRA_FIELDS, order)
    elif kind == "wcsrec":
        hdr = ns_const("TAN_HDR")
        f = [(k, "U12" if isinstance(v, str) else ("f8" if isinstance(v, float) else "i4"), None) for k, v in hdr.items()]
        dtype = rec_dtype(f, order)
    else:
        t = dt if dt != "rec" else "f8"
        if kind in ("vals",):
            t = "f8"
        bo = {"native": "=", "swapped": ">" if np.little_endian else "<", "mixed": ">" if np.little_endian else "<"}[order]
        dtype = np.dtype(bo + t)
    # ---- base buffer and view
    if layout == "contig" or (layout == "reversed" and shape == ()):
        base = np.zeros(shape, dtype=dtype)
        a = base
    elif layout == "reversed":            # negative strides: a view that runs backwards through its base
        base = np.zeros(shape, dtype=dtype)
        a = base[::-1] if len(shape) == 1 else base[::-1, ::-1]
    elif layout == "slice":               # a CONTIGUOUS view that does not own its data: rows 2..2+n of a longer parent the caller holds
        n0 = shape[0] if shape else 1
        base = np.zeros((n0 + 5,) + tuple(shape[1:]), dtype=dtype)
        a = base[2:2 + n0] if shape else base[2:3].reshape(())
    elif layout == "reshaped":            # a reshaped (1-d parent seen as n-d / 2-d parent seen flat) or transposed view of the parent
        if len(shape) == 2:
            base = np.zeros((shape[1], shape[0]), dtype=dtype)
            a = base.T
        elif len(shape) == 1:
            base = np.zeros((shape[0], 1), dtype=dtype)
            a = base.reshape(-1)
        else:
            base = np.zeros((1, 1), dtype=dtype)
            a = base.reshape(())
    elif layout == "recview" and dtype.names is not None:      # the table seen through np.recarray (numpy collapses the .base chain)
        base = np.zeros((shape[0] + 3,) + tuple(shape[1:]) if shape else (3,), dtype=dtype)
        a = (base[1:1 + shape[0]] if shape else base[1:2].reshape(())).view(np.recarray)
    elif layout in ("fieldview", "recview") and dtype.names is None:
        # the array is one FIELD of a structured parent (strided by the parent's row size)
        pdt = np.dtype([("pad0", "i2"), ("val", dtype), ("pad1", "S3")])
        base = np.zeros(shape if shape else (1,), dtype=pdt)
        a = base["val"] if shape else base["val"].reshape(())
    elif layout == "fieldview":           # a structured argument that is a multi-field view of a wider parent table
        names = list(dtype.names)
        pdt = np.dtype([("pad0", "i2")] + [(n, dtype[n]) for n in names] + [("pad1", "S3")])
        base = np.zeros(shape if shape else (1,), dtype=pdt)
        a = base[names] if shape else base[names].reshape(())
        dtype = a.dtype
    else:
        if shape == ():
            base = np.zeros(3, dtype=dtype)
            a = base[1:2].reshape(())
        elif len(shape) == 1:
            base = np.zeros(2 * shape[0] + 1, dtype=dtype)
            a = base[1::2]
        else:
            base = np.zeros((shape[1] * 2, shape[0] * 2), dtype=dtype)
            a = base[::2, 1::2].T          # transposed + strided
    assert a.shape == shape, (a.shape, shape)
    # ---- values
    if dtype.names is not None:
        if layout in ("strided", "slice", "recview") :
            fill_rec(base, rs)
        if kind == "wcsrec":
            hdr = ns_const("TAN_HDR")
            for k, v in hdr.items():
                a[k] = v
        else:
            tmp = np.zeros(shape, dtype=dtype)
            fill_rec(tmp, rs)
            a[...] = tmp
    else:
        if layout in ("strided", "slice"):
            base[...] = rs.uniform(1, 2, size=base.shape).astype(dtype)
        if kind == "cov":
            m = rs.uniform(-1, 1, size=(3, 3))
            v = m @ m.T + 3 * np.eye(3)
        elif kind == "cor":
            v = np.array([[1.0, 0.2, -0.1], [0.2, 1.0, 0.3], [-0.1, 0.3, 1.0]])
        elif kind == "coef":
            v = rs.uniform(-1e-3, 1e-3, size=(3, 3))
        else:
            v = values(kind, shape, rs)
        if dtype.kind in "iu":
            v = np.round(v)
        if dtype.kind == "u":
            v = np.abs(v)
        a[...] = v
    return a


_NS = {}


def namespace():
    if not _NS:
        exec(compile(sk.DRIVER_PRELUDE + drv.PRELUDE, "<c15 prelude>", "exec"), _NS)
    return _NS


def ns_const(name):
    return namespace()[name]


def root_base(a):
    import numpy as np
    b = a
    while isinstance(b.base, np.ndarray):
        b = b.base
    return b


def snapshot(a):
    """(hex of the bytes of the whole underlying buffer, canonical text of dtype/shape/strides/flags)"""
    import numpy as np
    b = root_base(a)
    raw = np.ascontiguousarray(b).view(np.uint8).tobytes() if b.dtype.hasobject is False and b.size else b.tobytes()
    if b is not a:
        # the argument is a view of a parent the caller holds: the PARENT's whole buffer (above) and the view's own elements
        raw = raw + b"|view|" + a.tobytes()
    meta = "dtype=%s;descr=%s;shape=%s;strides=%s;writeable=%s;base_dtype=%s;base_shape=%s;base_strides=%s" % (
        a.dtype.str, a.dtype.descr, a.shape, a.strides, a.flags.writeable, b.dtype.descr, b.shape, b.strides)
    return raw.hex(), meta


def chunks63(b):
    """bytes -> Coq term (n, [c0; c1; ...]) : 7 bytes per primitive 63-bit integer, big-endian, last chunk zero-padded
    (decoded by Exec.bytes63; string literals are ~100 times slower to parse in coqc)"""
    n = len(b)
    pad = b + b"\0" * ((-n) % 7)
    cs = ["0x%x" % int.from_bytes(pad[i:i + 7], "big") for i in range(0, len(pad), 7)]
    return "%d%%Z, [%s]%%uint63" % (n, "; ".join(cs))


def snap63(hexdata, meta):
    return "(%s, %s)" % (chunks63(bytes.fromhex(hexdata)), chunks63(meta.encode("utf-8")))


def arrays_in(obj, depth=0):
    """the ndarrays reachable from a returned value (tuples, lists, dicts, one level of object attributes)"""
    import numpy as np
    if isinstance(obj, np.ndarray):
        return [obj]
    if depth > 3:
        return []
    out = []
    if isinstance(obj, (tuple, list)):
        for x in obj:
            out += arrays_in(x, depth + 1)
    elif isinstance(obj, dict):
        for x in obj.values():
            out += arrays_in(x, depth + 1)
    elif hasattr(obj, "__dict__") and not isinstance(obj, type) and depth < 2:
        for x in vars(obj).values():
            out += arrays_in(x, depth + 1)
    return out


def shares(res, a):
    """does the returned value share memory with argument a (same underlying buffer, overlapping bytes)?"""
    import numpy as np
    for r in arrays_in(res):
        if r.dtype.hasobject or a.dtype.hasobject:
            continue
        try:
            if np.shares_memory(r, a, max_work=100000):
                return True
        except Exception:
            if np.may_share_memory(r, a):
                return True
    return False


CASE_TIMEOUT = 30.0


class CaseTimeout(Exception):
    pass


def _on_alarm(signum, frame):
    raise CaseTimeout("call did not return within %.0f s" % CASE_TIMEOUT)


NO_SPECIAL = {"cov", "cor", "coef", "diag", "sx", "uniq", "uniq_sorted", "int", "flag", "pofx", "grid", "mean3", "wcsrec", "strs"}
SPECIALS = [-0.0, float("nan"), 5e-324, -5e-324]        # no infinities: atbound-style `while lon > max` loops never end on them


def put_special(a):
    """-0.0, NaN, the smallest denormals in the first elements of every float (sub)field: "bit-for-bit unchanged" includes them"""
    import numpy as np
    if a.dtype.names is not None:
        for n in a.dtype.names:
            if a.dtype[n].base.kind == "f":
                put_special(a[n])
        return
    if a.dtype.kind != "f" or a.size == 0:
        return
    flat = a.reshape(-1) if a.ndim else a.reshape(1)        # a view for the layouts used here (writes go into a's buffer)
    if not np.shares_memory(flat, a):
        return
    with np.errstate(all="ignore"):
        for i in range(min(flat.size, len(SPECIALS))):
            flat[i] = SPECIALS[i]


TRACE_BAD = {}          # driver -> alias facts observed in the real execution that the extracted skeleton does not allow
TRACE_STATS = [0, 0]    # traced calls, alias facts observed
SKEL_ALIAS = {}         # driver -> {local name: set of parameter names it may ever alias according to the skeleton (flow-insensitive)}


class AliasTracer:
    """sys.settrace hook: at every line / return event of a frame that runs esutil code, every LOCAL that is an ndarray is tested
    for shared memory with every (non-exempt) argument of the driver call; the facts (local name, argument name) are collected.
    They are what the may-alias part of the extracted skeleton must over-approximate (check_alias_trace)."""
    def __init__(self, params):
        self.params = params
        self.seen = set()
        self.root = os.path.join(os.environ.get("VERIF_IMPL", ""), "esutil") if os.environ.get("VERIF_IMPL") else None

    def glob(self, frame, event, arg):
        fn = frame.f_code.co_filename
        if fn.endswith(("/recfile/records.py", "/htm/htmc.py")):
            return None               # SWIG shadow classes: their frames belong to the C entry points (summarised by the C table)
        if fn.startswith("<c15 driver") or "/esutil/" in fn and "/tests/" not in fn:
            return self.local
        return None

    def local(self, frame, event, arg):
        import numpy as np
        if event in ("line", "return"):
            for name, val in list(frame.f_locals.items()):
                if isinstance(val, np.ndarray) and not val.dtype.hasobject:
                    for p, a in self.params.items():
                        if (name, p) not in self.seen:
                            try:
                                if np.may_share_memory(val, a) and np.shares_memory(val, a, max_work=10000):
                                    self.seen.add((name, p))
                            except Exception:
                                if np.may_share_memory(val, a):
                                    self.seen.add((name, p))
        return self.local


def skeleton_alias_ids(r):
    """flow-insensitive closure of the bind edges, on variable ids: {id: set of parameter ids}.  NOT trusted: it is passed to Coq as the
    certificate E of FlowIns.fi_ok (C15_flow_insensitive_alias_sound) in the same evaluation as the frame obligation."""
    edges = []

    def walk(ir):
        for st in ir:
            if st[0] == "bind" and st[2]:
                edges.append((st[1], list(st[2])))
            elif st[0] == "if":
                walk(st[1]); walk(st[2])
            elif st[0] == "loop":
                walk(st[1])
    walk(r["ir"])
    E = {pid: {pid} for pid in r["params"]}
    changed = True
    while changed:
        changed = False
        for x, ys in edges:
            acc = E.setdefault(x, set())
            for y in ys:
                new = E.get(y, set()) - acc
                if new:
                    acc |= new
                    changed = True
    return E


def coq_amap(E):
    return "[%s]" % "; ".join("(%d, [%s])" % (x, "; ".join(str(p) for p in sorted(ps))) for x, ps in sorted(E.items()) if ps)


def skeleton_alias_names(r):
    """flow-insensitive closure of the bind edges of an extracted skeleton: for every LOCAL NAME (frame numbers dropped) the set of
    parameter names a variable of that name may alias at some point"""
    names = r["names"]
    edges = []

    def walk(ir):
        for st in ir:
            if st[0] == "bind" and st[2]:
                edges.append((st[1], list(st[2])))
            elif st[0] == "if":
                walk(st[1]); walk(st[2])
            elif st[0] == "loop":
                walk(st[1])
    walk(r["ir"])
    pname = {}
    for pid in r["params"]:
        pname[pid] = names[pid].split(":", 1)[1]
    E = {pid: {pid} for pid in r["params"]}
    changed = True
    while changed:
        changed = False
        for x, ys in edges:
            acc = E.setdefault(x, set())
            for y in ys:
                new = E.get(y, set()) - acc
                if new:
                    acc |= new
                    changed = True
    out = {}
    for v, ps in E.items():
        base = names.get(v, "?").split(":", 1)[-1]
        out.setdefault(base, set()).update(pname[p] for p in ps)
    return out


SKEL_NOTES = {}          # driver -> notes of the extractor (UNKNOWN ... / ASSUMED ...)
TRACE_NOT_INLINED = {}   # driver -> observed facts about local names that do not occur in the skeleton at all


def check_alias_trace(driver, seen):
    """facts outside the skeleton.  Two kinds: the local NAME occurs in the skeleton but with a smaller alias set (the extractor saw
    the code and mis-modelled it: returned, a violation); the name does not occur at all (the code that owns it was NOT INLINED: an
    unknown receiver or callee that the extractor summarised; recorded in TRACE_NOT_INLINED and reported as a note)."""
    allowed = SKEL_ALIAS.get(driver)
    if allowed is None:
        return []
    bad = []
    for (v, p) in sorted(seen):
        if p in allowed.get(v, ()):
            continue
        if v in allowed and not SKEL_NOTES.get(driver):
            bad.append("%s<-%s" % (v, p))
        else:   # the name is unknown to the skeleton, or the extractor itself reported (notes) that it lost track of a receiver / callee
            TRACE_NOT_INLINED.setdefault(driver, []).append("%s<-%s" % (v, p))
    return bad


def build_args(d, arr, c, rs, nelem):
    """the array arguments of one call.  Gen kinds `htmid:RA,DEC,DEPTH` and `htmrev:ID` are PRECOMPUTED arguments derived from the
    other arguments with esutil itself (the ids lookup_id returns for (RA, DEC); the reverse indices of histogram(ids - ids.min())),
    then stored in an array of the case's dtype / byte order / layout: what a user who precomputes them passes."""
    import numpy as np
    args, later = {}, []
    mode = c.get("mode", "plain")
    checked = [p for p in arr if p not in d["exempt"]]
    del EXTRA_FIELDS[:]
    if mode.startswith("badcol"):
        EXTRA_FIELDS.append(BADCOLS[int(mode[6:]) % len(BADCOLS)])
    try:
        for p in arr:
            k = d["gen"][p]
            if k.startswith(("htmid:", "htmrev:")):
                later.append(p)
            else:
                # mode "mismatch": the LAST array argument is one element longer than the others (a call that is rejected midway)
                n_ = nelem + 1 if (mode == "mismatch" and checked and p == checked[-1]) else nelem
                args[p] = make_array(k, c["dt"], c["order"], c["layout"], c["nd"], rs, nelem=n_)
    finally:
        del EXTRA_FIELDS[:]
    for p in sorted(later, key=lambda q: d["gen"][q].startswith("htmrev:")):
        k = d["gen"][p]
        ns = namespace()
        if k.startswith("htmid:"):
            ra, dec, depth = k[6:].split(",")
            vals = ns["htm"].HTM(int(depth)).lookup_id(np.array(args[ra], dtype="f8").ravel(), np.array(args[dec], dtype="f8").ravel())
            dt = c["dt"] if c["dt"] in ("i8", "u8") else "i8"          # ids do not fit narrower integers
        else:
            ids = np.array(args[k[7:]], dtype="i8").ravel()
            vals = ns["stat"].histogram(ids - ids.min(), rev=True)[1]
            # (until fix e470bc2 htmrev2 was handed to the C++ code without conversion and anything but native contiguous int64
            # crashed; now it is converted like the ids, so the reverse indices go through the full dtype / order / layout matrix.
            # They must still be CONSISTENT with the positions: the aliasing forms and the in-place overwrite of the sequence
            # form stay disabled for precomputed arguments.)
            dt = c["dt"] if c["dt"] in ("i8", "u8", "i4") else "i8"
        a = make_array("int", dt, c["order"], c["layout"], 1, rs, nelem=int(vals.size))
        a[...] = vals
        args[p] = a
    return args


NELEM = {"len1": 1, "long": 4099}        # 4099 = 2**12 + 3: beyond any plausible internal block size of the python / C layers


def n_checked(d):
    """number of array parameters that can be replaced by one another (aliasing forms); 0 for drivers with precomputed REVERSE
    INDICES (they must stay consistent with the positions); precomputed ids alone are only histogrammed, so aliasing the positions
    of such a driver is safe (the ids themselves are never replaced: see impl_)"""
    arr, _ = params_of(d)
    if any(str(k).startswith("htmrev:") for k in d["gen"].values()):
        return 0          # reverse indices that do not belong to the positions make cbincount index out of range (also after e470bc2)
    return len([p for p in arr if p not in d["exempt"]])


def forms(d, full):
    """further INPUT FORMS of one driver, as (dtype, order, layout, ndim, mode):
         ro      the arrays are READ-ONLY (writeable=False on the view and on its base): code that would silently write into
                 the caller's array now raises "... read-only"; such an exception is reported as a failing input
         alias0 / alias1   the SAME array object is passed for every (non-exempt) array parameter (the first / the last one's)
         reversed layout   a view with negative strides
         slice / recview / fieldview / reshaped layouts: the argument is a contiguous row slice, a recarray view, a field view or a
                 reshaped / transposed view of a PARENT array the caller holds;  roview: only the view is read-only, its parent is writeable
         seq     a call SEQUENCE in one process (see impl_seq): caches keyed by identity / shape, references stored by an earlier call
         special -0.0, NaN and the smallest denormals in the first elements of every float array / float field
         len1    length-1 arrays;  long  4099 elements (thorough only)
         unsigned / bool dtypes where the driver takes plain numeric arrays"""
    dt0, nd0 = d["dt"][0], d["nd"][0]
    nd1 = 1 if 1 in d["nd"] else nd0
    orders = ["native", "swapped"] + (["mixed"] if d["dt"] == drv.REC else [])
    out = [(dt0, "native", "contig", nd0, "ro")]
    if full:
        out.append((dt0, "swapped", "strided", nd1, "ro"))
    if n_checked(d) >= 2:
        out += [(dt0, "native", "contig", nd1, "alias0")] + ([(dt0, "native", "contig", nd1, "alias1")] if full else [])
    if nd1 >= 1 and (full or d["dt"] != drv.REC):
        out.append((dt0, "native", "reversed", nd1, "plain"))
    # arguments that are views whose BASE is another array the caller holds (the snapshot covers the parent's whole buffer and the view)
    out += [(dt0, "swapped", "slice", nd1, "plain"), (dt0, "swapped", "recview", nd1, "plain")]
    if full:
        out += [(dt0, "native", "slice", nd1, "roview"), (dt0, "native", "reshaped", nd1 if nd1 else nd0, "plain")]
    if d["dt"] == drv.REC:
        out.append((dt0, "swapped", "fieldview", nd1, "plain"))
    # error paths: calls that are (correctly) REJECTED midway
    if d["dt"] == drv.REC:
        k0 = zlib.crc32(d["name"].encode()) % 4
        out += [(dt0, "swapped", "contig", nd1, "badcol%d" % k0), (dt0, "native", "contig", nd1, "badcol%d" % ((k0 + 1) % 4))]
        if full:
            out += [(dt0, o, lay, nd1, "badcol%d" % k) for k in range(4) for o in orders for lay in ("contig", "strided", "slice")]
    elif n_checked(d) >= 2 and nd1 >= 1:
        out.append((dt0, "native", "contig", nd1, "mismatch"))
        if full:
            out += [(dt0, "swapped", "strided", nd1, "mismatch"), (d["dt"][-1], "native", "contig", nd1, "mismatch")]
    out.append((dt0, "native", "contig", nd1, "seq"))
    out.append((dt0, "native", "contig", nd1, "special"))
    if "f4" in d["dt"] and full:
        out.append(("f4", "native", "contig", nd1, "special"))
    if 1 in d["nd"] and not d["slow"] and (full or d["dt"] != drv.REC or d["fam"] != "recfile"):
        out.append((dt0, "native", "contig", 1, "len1"))
    if d["dt"] == drv.NUM:
        out.append(("u2", "native", "contig", nd1, "plain"))
    if full:
        out += [(dt, o, lay, nd, "ro") for dt in d["dt"][:2] for o in orders for lay in ("contig", "strided", "reversed") for nd in d["nd"]]
        out += [(dt, o, "reversed", nd, "plain") for dt in d["dt"] for o in orders for nd in d["nd"]]
        out += [(dt0, o, lay, nd, "plain") for o in orders for lay in ("slice", "recview", "fieldview", "reshaped") for nd in d["nd"]]
        out += [(dt0, "swapped", lay, nd1, m) for lay in ("slice", "recview", "fieldview", "reshaped") for m in ("ro", "roview")]
        out += [(dt, "swapped", "slice", nd1, "plain") for dt in d["dt"]]
        out += [(dt0, o, lay, nd1, "seq") for o in orders for lay in ("contig", "slice")]
        if n_checked(d) >= 2:
            out += [(dt0, o, lay, nd, m) for o in orders for lay in ("contig", "strided") for nd in d["nd"] for m in ("alias0", "alias1")]
            out += [(dt0, "native", "contig", nd1, "alias0+ro")]
        if d["dt"] == drv.NUM:
            out += [(t, o, lay, nd1, "plain") for t in ("u2", "u8", "b1", "i2") for o in ("native", "swapped") for lay in ("contig", "strided")]
        if 1 in d["nd"] and not d["slow"]:
            out += [(dt0, "native", "contig", 1, "long"), (dt0, "swapped", "strided", 1, "len1")]
        out += [(dt0, o, lay, nd1, "special") for o in orders for lay in ("contig", "strided")]
    return list(dict.fromkeys(out))


def variants(d, ctx, full):
    """the argument matrix of one driver: (dtype, order, layout, ndim, mode)"""
    orders = ["native", "swapped"] + (["mixed"] if d["dt"] == drv.REC else [])
    allv = [(dt, o, lay, nd, "plain") for dt in d["dt"] for o in orders for lay in ("contig", "strided") for nd in d["nd"]]
    if full:
        return allv + forms(d, full)
    if len(allv) <= d["n"]:
        return quick_trim(d, allv + forms(d, False))
    # quick tier: per ndim ALWAYS the corner in which NO conversion is needed (first dtype, native, contiguous: the only place
    # where a forgotten copy -- np.asarray / copy=None / astype(copy=False) -- hands the caller's own buffer to later in-place
    # code) and the most demanding corner (swapped + strided); then one corner per other dtype; then a seeded sample
    r = ctx.rng
    must = []
    for nd in d["nd"]:
        must.append((d["dt"][0], "native", "contig", nd, "plain"))
    must.append((d["dt"][0], "swapped", "strided", d["nd"][0], "plain"))
    must.append((d["dt"][0], "native", "strided", d["nd"][0], "plain"))
    if len(d["dt"]) > 1:
        must.append((d["dt"][1], "swapped", "contig", d["nd"][0], "plain"))
        # the no-conversion corner exists once per dtype: a function called with dtype='f4' converts everything but native float32
        # (quick: float32 -- the only other dtype= value the anchored functions are called with; thorough has the full matrix)
        for dt in [t for t in d["dt"][1:] if t == "f4"]:
            must.append((dt, "native", "contig", 1 if 1 in d["nd"] else d["nd"][0], "plain"))
    must = list(dict.fromkeys(must))
    rest = [v for v in allv if v not in must]
    r.shuffle(rest)
    return quick_trim(d, (must + rest)[:max(d["n"], len(must))] + forms(d, False))


def quick_trim(d, out):
    if d["fam"] == "recfile":
        # quick: the generated writer option matrix has > 100 drivers; each keeps the corners that have caught something so far
        # (native contiguous, swapped strided, read-only, swapped row slice of a parent, call sequence, -0.0 / NaN values)
        keep = lambda v: (v[4] == "plain" and (v[1], v[2]) in (("native", "contig"), ("swapped", "strided"), ("swapped", "slice"))) \
            or v[4] in ("ro", "seq", "special") or v[4].startswith("badcol")
        out = [v for v in out if keep(v)]
    return out


class Dyn(Entry):
    search_rounds = 2

    def __init__(self, fam):
        self.name = fam
        self.fam = fam
        self.compiled = {}

    def drivers(self):
        return [d for d in drv.DRIVERS if d["fam"] == self.fam and d["name"] not in SKIP]

    def cases(self, ctx, round=0):
        cs = []
        full = (not ctx.quick()) or round > 0
        for d in self.drivers():
            if round > 0 and STATIC_OK.get(d["name"], True):
                continue            # the search concentrates on drivers whose obligation failed
            if d["slow"] and ctx.quick() and round == 0:
                vs = variants(d, ctx, False)
                vs = vs[:2] + [v for v in vs if v[4] == "ro"][:1]
            else:
                vs = variants(d, ctx, full)
            # value seeds: 0 always (so that corpus cases and replays have twins), plus one derived from the run's seed (VERIF_SEED)
            vs0 = 100 + getattr(ctx, "seed", 0) % 9973
            seeds = [0] if (ctx.quick() and round == 0) else ([0, 1] if round == 0 else [2 + round, 12 + round])
            if round == 0:
                seeds = seeds + [vs0]
            if d["slow"]:
                seeds = seeds[:1]
            for (dt, o, lay, nd, mode) in vs:
                first_plain = mode == "plain" and lay == "contig" and o == "native" and dt == d["dt"][0] and nd == d["nd"][0]
                for vs_ in (seeds if mode == "plain" and lay in ("contig", "strided") and (not ctx.quick() or first_plain) else seeds[:1]):
                    c = {"driver": d["name"], "dt": dt, "order": o, "layout": lay, "nd": nd, "vseed": vs_,
                         "family": "%s/%s" % (self.fam, d["func"])}
                    if mode != "plain":
                        c["mode"] = mode
                    elif first_plain and vs_ == 0 and not d["slow"]:
                        c["trace"] = True      # ALIAS TRACE: record which locals of esutil frames share memory with which argument
                    cs.append(c)
        return cs

    def fn(self, d):
        if d["name"] not in self.compiled:
            ns = dict(namespace())
            exec(compile(d["src"], "<c15 driver %s>" % d["name"], "exec"), ns)
            self.compiled[d["name"]] = ns["f"]
        return self.compiled[d["name"]]

    def impl(self, c):
        t0 = time.time()
        try:
            return self.impl_(c)
        finally:
            TIMES["impl:" + self.fam] = TIMES.get("impl:" + self.fam, 0.0) + time.time() - t0

    def impl_(self, c):
        import numpy as np
        d = BY_NAME[c["driver"]]
        arr, fix = params_of(d)
        seed = zlib.crc32(("%s/%s/%s/%s/%s/%s" % (c["driver"], c["dt"], c["order"], c["layout"], c["nd"], c["vseed"])).encode())
        # (the mode is deliberately not part of the value seed: a read-only / aliased case uses the values of its plain twin)
        rs = np.random.RandomState(seed)
        args = {}
        mode = c.get("mode", "plain")
        nelem = NELEM.get(mode, 6)
        if mode == "long" and d["dt"] == drv.REC:
            nelem = 515           # 2**9 + 3 rows of a table (a 4099-row table is a 0.6 MB literal: coqc's parser overflows its stack)
        args.update(build_args(d, arr, c, rs, nelem))
        checked = [p for p in arr if p not in d["exempt"]]
        if mode == "special":                                   # bit patterns that a "harmless" normalisation would rewrite
            for p in arr:
                if d["gen"][p] not in NO_SPECIAL:
                    put_special(args[p])
        if mode.startswith("alias") and len(checked) >= 2:      # the SAME array object for every non-exempt array parameter
            plain_ps = [p for p in checked if not d["gen"][p].startswith(("htmid:", "htmrev:"))]     # precomputed arguments stay consistent
            src = args[plain_ps[0] if mode.startswith("alias0") else plain_ps[-1]]
            for p in plain_ps:
                args[p] = src
        if mode.endswith("ro"):                                 # read-only: the view and the buffer it looks into
            for p in checked:
                b = root_base(args[p])
                b.flags.writeable = False
                args[p].flags.writeable = False
        if mode == "roview":                                    # only the view refuses writes; its parent stays writeable
            for p in checked:
                args[p].flags.writeable = False
        work = os.path.join(os.environ.get("C15_WORK") or core.SCRATCH_ROOT, "c15-files-%d" % os.getpid())
        os.makedirs(work, exist_ok=True)
        for p, ann in fix:
            if ann == "str":
                path = os.path.join(work, "c15_file.rec")
                if os.path.exists(path):
                    os.remove(path)
                args[p] = path
        if mode == "seq":
            return self.impl_seq(c, d, arr, checked, args, rs, nelem)
        before = {p: snapshot(args[p]) for p in arr}
        err = None
        res = None
        sink = io.StringIO()
        old_handler = signal.signal(signal.SIGALRM, _on_alarm)
        signal.setitimer(signal.ITIMER_REAL, CASE_TIMEOUT)        # a python-level endless loop on odd inputs must not hang the check
        tracer = AliasTracer({p: args[p] for p in checked}) if c.get("trace") else None
        try:
            with contextlib.redirect_stdout(sink), contextlib.redirect_stderr(sink), np.errstate(all="ignore"):
                if tracer is not None:
                    sys.settrace(tracer.glob)
                try:
                    res = self.fn(d)(**args)      # noqa: F841  (kept alive until the snapshots are taken)
                finally:
                    if tracer is not None:
                        sys.settrace(None)
        except Exception as e:  # an exception is not a mutation; it is recorded
            err = "%s: %s" % (type(e).__name__, str(e)[:200])
        finally:
            signal.setitimer(signal.ITIMER_REAL, 0)
            signal.signal(signal.SIGALRM, old_handler)
        after = {p: snapshot(args[p]) for p in arr}
        out = {"error": err, "args": {}, "exempt_changed": []}
        # a refused write into a read-only argument: without the flag the call would have modified the caller's array
        out["ro_write_attempt"] = bool((mode.endswith("ro") or mode == "roview") and err is not None and RO_MSG.search(err))
        if out["ro_write_attempt"]:
            RO_HITS[c["driver"]] = RO_HITS.get(c["driver"], 0) + 1
            DYN_CHANGED.setdefault(c["driver"], dict(c))
        if tracer is not None:
            out["alias_trace"] = sorted("%s<-%s" % (v, p) for (v, p) in tracer.seen)
            bad = check_alias_trace(c["driver"], tracer.seen)
            if bad:
                out["alias_trace_outside_skeleton"] = bad
                TRACE_BAD.setdefault(c["driver"], bad)
            TRACE_STATS[0] += 1
            TRACE_STATS[1] += len(tracer.seen)
        out["ret_shares"] = sorted(p for p in arr if p not in d["exempt"] and err is None and shares(res, args[p]))
        if out["ret_shares"]:
            SHARE_HITS[c["driver"]] = SHARE_HITS.get(c["driver"], 0) + 1
        for p in arr:
            if p in d["exempt"]:
                if before[p] != after[p]:
                    out["exempt_changed"].append(p)
                    EXEMPT_HITS[c["driver"] + "." + p] = EXEMPT_HITS.get(c["driver"] + "." + p, 0) + 1
            else:
                out["args"][p] = [before[p][0], before[p][1], after[p][0], after[p][1]]
        if err is not None:
            ERRORS[c["driver"]] = ERRORS.get(c["driver"], 0) + 1
        out["changed"] = sorted(p for p, v in out["args"].items() if v[0] != v[2] or v[1] != v[3])
        if out["changed"]:
            DYN_CHANGED.setdefault(c["driver"], dict(c))
        return out

    def call(self, d, args):
        import numpy as np
        err, res, sink = None, None, io.StringIO()
        old_handler = signal.signal(signal.SIGALRM, _on_alarm)
        signal.setitimer(signal.ITIMER_REAL, CASE_TIMEOUT)
        try:
            with contextlib.redirect_stdout(sink), contextlib.redirect_stderr(sink), np.errstate(all="ignore"):
                res = self.fn(d)(**args)
        except Exception as e:
            err = "%s: %s" % (type(e).__name__, str(e)[:200])
        finally:
            signal.setitimer(signal.ITIMER_REAL, 0)
            signal.signal(signal.SIGALRM, old_handler)
        return res, err

    def impl_seq(self, c, d, arr, checked, A, rs, nelem):
        """a call SEQUENCE in one process, arranged so that state carried across calls (a cache keyed by object identity, by shape /
        dtype / length, a reference to an argument stored by an earlier call) would collide:
          1  f(A)      1r  f(A) again after the caller zeroed the arrays RETURNED by call 1 (those not sharing memory with A)
          2  f(B): other objects, same shapes / dtypes / lengths, other values
          (the caller overwrites A in place with B's values: same OBJECT, changed contents)
          3  f(A) again                 4  f(C): C = copies of A (other objects, EQUAL contents)
        Around EVERY call every array of every earlier set is snapshotted too: a later call that writes through a reference an
        earlier call kept is seen on the earlier set.  File fixtures keep their path (the same file is rewritten)."""
        import numpy as np
        fixed = {p: A[p] for p in A if p not in arr}
        B = dict(fixed)
        B.update(build_args(d, arr, c, rs, nelem))
        out = {"error": None, "args": {}, "exempt_changed": [], "ro_write_attempt": False, "ret_shares": [], "steps": []}
        keep = []

        def step(label, callargs, live):
            pre = {(s, p): snapshot(X[p]) for s, X in live.items() for p in checked}
            res, err = self.call(d, callargs)
            keep.append(res)
            post = {(s, p): snapshot(X[p]) for s, X in live.items() for p in checked}
            for (s_, p) in pre:
                out["args"]["%s@%s.%s" % (label, s_, p)] = [pre[(s_, p)][0], pre[(s_, p)][1], post[(s_, p)][0], post[(s_, p)][1]]
            out["steps"].append([label, err])
            if err is not None and out["error"] is None:
                out["error"] = "step %s: %s" % (label, err)
            return res

        r1 = step("1", A, {"A": A})
        out["ret_shares"] = sorted(p for p in checked if out["error"] is None and shares(r1, A[p]))
        # the caller overwrites the RETURNED arrays (those that do not share memory with an argument -- a shared one is a documented
        # view and writing it would legitimately change the argument) and calls again: a result that is an internal buffer or a
        # cached object of the library must not make the next call write into the arguments
        if not d["slow"]:
            for r in arrays_in(r1):
                try:
                    if r.flags.writeable and not r.dtype.hasobject and not any(shares(r, A[p]) for p in arr):
                        r[...] = np.zeros((), dtype=r.dtype)
                except Exception:
                    pass
            step("1r", A, {"A": A})
        step("2", B, {"A": A, "B": B})
        derived = any(d["gen"][p].startswith(("htmid:", "htmrev:")) for p in arr)
        for p in ([] if derived else checked):   # the caller's own, legitimate, in-place change of A between two calls
            # (not for precomputed arguments: ids / reverse indices must stay consistent with the positions, cbincount trusts them)
            try:
                A[p][...] = B[p]
            except Exception:
                pass
        step("3", A, {"A": A, "B": B})
        C = dict(fixed)
        for p in arr:
            C[p] = A[p].copy()
        step("4", C, {"A": A, "B": B, "C": C})
        if out["error"] is not None:
            ERRORS[c["driver"]] = ERRORS.get(c["driver"], 0) + 1
        out["changed"] = sorted(k for k, v in out["args"].items() if v[0] != v[2] or v[1] != v[3])
        if out["changed"]:
            DYN_CHANGED.setdefault(c["driver"], dict(c))
        return out

    def term(self, c, out):
        pairs = []
        for p in sorted(out["args"]):
            b0, m0, b1, m1 = out["args"][p]
            if b0 == b1 and m0 == m1:
                pairs.append("dup63 %s" % snap63(b0, m0))        # the same literal twice: printed (and parsed by coqc) once
            else:
                pairs.append("(%s, %s)" % (snap63(b0, m0), snap63(b1, m1)))
        ok = STATIC_OK.get(c["driver"], False)
        if c.get("mode") == "seq":
            ok = ok and STATIC_OK.get(c["driver"] + "#seq", ok)
        pid = PARAM_ID.get(c["driver"], {})
        obs = [pid[p] for p in out.get("ret_shares", []) if p in pid]
        return "v_case %s %s [%s] [%s] [%s]" % (cbool(bool(out.get("ro_write_attempt"))), cbool(ok), "; ".join("%d" % k for k in RET_STATIC.get(c["driver"], [])),
                                                    "; ".join("%d" % k for k in obs), "; ".join(pairs))

    def nontrivial(self, c, out):
        # DESIGN 2.3: the argument needs an internal conversion (non-native, strided or non-f8)
        return c["order"] != "native" or c["layout"] != "contig" or c["dt"] not in ("f8",)

    def show(self, c):
        return None


ENTRIES = [Dyn(f) for f in FAMILIES]

LIMITATIONS = [
    "extractor (trusted, python ast): item assignment `x[k] = v` into a value not known to be a list/dict (a literal, dict(), **kwargs or a "
    "dict subclass) is an array WRITE through x (values are copied); object-dtype arrays and list/dict PARAMETERS whose stored elements are "
    "later written through are outside the abstraction",
    "extractor: arithmetic / comparison / reduction results are new memory; `a + b` on python lists is recognised only when an operand is "
    "known to be a container; indexing with an index array (value of np.where / nonzero / argsort / arange / searchsorted / a comparison, or "
    "a list literal) copies, every other subscript may alias its base",
    "extractor: numpy / builtin / external callables and ndarray methods are classified by hand tables (alias-returning, fresh, writers, "
    "ufuncs with positional out, out=); anything not in a table is treated as writing and aliasing all operands and is reported as a note",
    "extractor: closures of nested functions are not modelled (nested defs are inlined at their calls); generators, async, class bodies "
    "with metaclasses, decorators other than @property, __getattr__ and operator overloading of esutil classes are not interpreted",
    "extractor: recursion deeper than 2 activations of the same function or 14 frames is summarised as a write through every argument",
    "extractor: a call that evaluates its arguments left to right is assumed not to rebind an object field read by an earlier argument, "
    "unless the later argument contains a call (then the earlier values are snapshotted)",
    "extractor: a file-name fixture (`fname: str`) is the constant local path '.../c15_file.rec' (no hdfs:// prefix, extension .rec); "
    "the dynamic run uses a path with the same basename",
    "C / C++ extension code is NOT modelled in Coq: the C-entry-point table says which arguments each entry point writes; the table is compared on "
    "every run with a SYNTACTIC scan of chist_pywrap.c, cosmolib_pywrap.c and htmc.cc (c15_translate.c_scan: stores through pointers obtained "
    "from PyArray_DATA / PyArray_GETPTRn of an argument, memcpy-like callees, pointer escapes; no preprocessor, no aliasing through structs) "
    "and validated dynamically; records.cpp (the record-file writer): its WRITE path (call-graph closure of Records::Write) is scanned the same way "
    "for stores through mData / pointers derived from the caller's data buffer (c15_translate.records_write_scan, fail closed) and every writer "
    "option the C code reads (delim, padnull, ignorenull, bracket_arrays, open mode) is driven through every python entry point on tables whose "
    "string fields make the option matter; the read path of records.cpp is outside C15",
    "skeleton semantics: one abstract buffer per array object; views into the SAME buffer are the same abstract buffer, so a write to a "
    "disjoint part of a shared buffer counts as a write (sound, may be imprecise); memory reachable only through object-dtype elements is not modelled",
]


def c_table_text():
    return "; ".join("%s writes args %s" % (k, list(v) if v else "none") for k, v in sorted(sk.C_TABLE.items()))


def exemptions():
    out = []
    for d in drv.DRIVERS:
        for p, why in d["exempt"].items():
            out.append("%s [%s] argument %s: %s" % (d["func"], d["valuation"] or "-", p, why))
    return out


def twice_source(src, arr):
    """the driver body TWICE in one function, the second time on a second set of array parameters (p -> p__2): the skeleton of
    a call sequence.  State that the first call leaves behind (module globals, caches, object fields of objects built outside)
    is visible to the second call inside the extractor, so a reference to a first-call argument that a second call writes
    through fails the obligation for the parameters of the FIRST set."""
    tree = ast.parse(src)
    fdef = tree.body[0]
    names = set(arr)

    class Ren(ast.NodeTransformer):
        def visit_Name(self, n):
            if n.id in names:
                return ast.copy_location(ast.Name(id=n.id + "__2", ctx=n.ctx), n)
            return n

    class NoRet(ast.NodeTransformer):
        def visit_Return(self, n):
            return ast.copy_location(ast.Assign(targets=[ast.Name(id="__r1", ctx=ast.Store())], value=n.value or ast.Constant(None)), n)

    import copy
    first = [NoRet().visit(copy.deepcopy(st)) for st in fdef.body]
    second = [Ren().visit(copy.deepcopy(st)) for st in fdef.body]
    extra = [ast.arg(arg=a.arg + "__2", annotation=None) for a in fdef.args.args if a.arg in names]
    fdef.args.args = fdef.args.args + extra
    fdef.body = first + second
    ast.fix_missing_locations(tree)
    return ast.unparse(tree) + "\n"


SEQ = {}            # "<driver>#seq" -> derived driver dict


def D(n):
    return BY_NAME[n] if n in BY_NAME else SEQ[n]


SEQ_QUICK_MAX = 100      # quick tier: sequence obligations only for drivers whose single-call skeleton has at most this many statements


def extract_one(ctx, d):
    arr, _ = params_of(d)
    ps = [p for p in arr if p not in d["exempt"]]
    try:
        st = os.environ.get("C15_SELFTEST", "")
        if st.startswith("crash-extract:") and d["name"].startswith(st.split(":", 1)[1]):
            raise RuntimeError("SELFTEST: translator made to fail closed for this driver")
        r = sk.extract(ctx.impl, d["src"], "f", ps, prelude=sk.DRIVER_PRELUDE + drv.PRELUDE)
        r["checked"] = ps
    except Exception as e:  # fail closed: an extractor crash is an undischarged obligation
        r = {"error": "%s: %s" % (type(e).__name__, e), "checked": ps, "notes": [], "centries": [], "size": 0}
    return r


def extract_all(ctx):
    res = {}
    SEQ.clear()
    for d in drv.DRIVERS:
        if d["name"] in SKIP:
            continue
        res[d["name"]] = extract_one(ctx, d)
    nseq = 0
    seen_func = set()
    for d in drv.DRIVERS:
        r = res.get(d["name"])
        if r is None or not r["checked"] or d.get("static_skip") or "error" in r:
            continue
        if ctx.quick():
            # quick: ONE sequence obligation per public function (its first small driver) and every reuse_* driver; thorough: all
            if (r.get("size", 0) > SEQ_QUICK_MAX or d["slow"] or d["func"] in seen_func) and not d["name"].startswith("reuse_"):
                continue
            seen_func.add(d["func"])
        arr0, _ = params_of(d)
        try:
            d2 = dict(d, name=d["name"] + "#seq", src=twice_source(d["src"], arr0), valuation=(d["valuation"] or "default options") + " | called twice",
                      exempt=dict(d["exempt"], **{k + "__2": v for k, v in d["exempt"].items()}))
        except Exception as e:
            ctx.notes.append("twice_source failed for %s: %s" % (d["name"], e))
            continue
        SEQ[d2["name"]] = d2
        res[d2["name"]] = extract_one(ctx, d2)
        nseq += 1
    ctx.count("static:sequence_obligations", nseq)
    return res


def static_step(ctx, only=None):
    """one kernel evaluation `frame_ret sk ps ret` per (function, valuation): head 0 <-> frame_ok sk ps = true"""
    t0 = time.time()
    ex = extract_all(ctx)
    TIMES["static:extract"] = round(time.time() - t0, 1)
    t0 = time.time()
    names = []
    for d in list(drv.DRIVERS) + list(SEQ.values()):
        if (only and d["name"].split("#")[0] not in only) or d["name"] in SKIP:
            continue
        r = ex[d["name"]]
        if d.get("static_skip"):
            STATIC_OK[d["name"]] = False          # no prediction: a changed argument is still a failing input (verdict 2)
            ctx.notes.append("NO static obligation for %s (dynamic only): %s" % (d["name"], d["static_skip"]))
            ctx.count("static:skipped_known_imprecision")
            continue
        if not r["checked"]:
            STATIC_OK[d["name"]] = True      # every array argument is exempt: nothing to prove
            continue
        names.append(d["name"])
    # ONE evaluation per driver (Exec.frame_ret, ExecProofs.frame_ret_ok): the frame obligation, the reason when it fails, and the
    # alias part of the model (which parameters may the RETURN VALUE share memory with)
    evn, terms = [], []
    for n in names:
        r = ex[n]
        if "error" in r:
            continue                      # fail closed below
        rid = [k for k, v in r["names"].items() if v == "0:<ret>"]
        inv_names = {v: k for k, v in r["names"].items()}
        PARAM_ID[n] = {p: inv_names["0:" + p] for p in r["checked"] if "0:" + p in inv_names}
        if "#" not in n:
            try:
                SKEL_ALIAS[n] = skeleton_alias_names(r)
                SKEL_NOTES[n] = list(r.get("notes", []))
            except Exception as e:
                ctx.notes.append("skeleton_alias_names failed for %s: %s" % (n, e))
        evn.append(n)
        terms.append("frame_ret_cert %s [%s] %d %s" % (r["coq"], "; ".join(map(str, r["params"])), rid[0] if rid else 1,
                                                       coq_amap(skeleton_alias_ids(r))))
    vals_by = {}
    uniq = list(dict.fromkeys(terms))        # drivers that differ only in a value the skeleton does not see (a delimiter) share one term
    ctx.count("static:distinct_terms", len(uniq))
    try:
        uvals = dict(zip(uniq, core.coq_eval(os.path.join(ctx.work, "static"), PRE_STATIC + "Open Scope positive_scope.\n", uniq, ty="list Z",
                                             shard=6, tag="frame")))
        for n, t in zip(evn, terms):
            vals_by[n] = [int(x.replace("%Z", "").strip("() ")) for x in uvals[t].strip("[]").split(";") if x.strip()]
    except core.CoqEvalError as e:
        ctx.notes.append("generated static obligations do not evaluate: " + str(e)[-600:])
    ctx.checker_cmds.append("coqc <generated: frame_ret_cert skeleton params ret E, one per (function, valuation), vm_compute; head 0 = frame_ok holds>")
    TIMES["static:coq_eval"] = round(time.time() - t0, 1)
    failed, why = [], {}
    cert_bad = []
    for n in names:
        d = D(n)
        nums = vals_by.get(n)
        if nums:
            if nums[-1] != 100:
                cert_bad.append(n)
            nums = nums[:-1]
        ok = bool(nums) and nums[0] == 0
        STATIC_OK[n] = ok
        has_ret = any(v == "0:<ret>" for v in ex[n].get("names", {}).values())
        RET_STATIC[n] = nums[1:] if (ok and has_ret) else []     # a driver without a return slot returns None
        ctx.obligation("frame_ok %s  {%s | %s | unchanged: %s}" % (n, d["func"], d["valuation"] or "default options", ",".join(ex[n]["checked"])), ok)
        ctx.count("static:%s" % ("discharged" if ok else "FAILED"))
        if not ok:
            failed.append(n)
            nm = ex[n].get("names", {})
            if "error" in ex[n]:
                why[n] = "extractor crashed: " + ex[n]["error"]
            elif not nums:
                why[n] = "the obligation did not evaluate"
            elif nums[0] == 1:
                why[n] = "write through %s, which may alias parameter(s) %s" % (nm.get(nums[1]), [nm.get(i) for i in nums[2:]])
            elif nums[0] == 2:
                why[n] = "loop analysis did not stabilise within the fuel"
            else:
                why[n] = "frame_ret = %s" % nums
    ctx.obligation("flow-insensitive alias certificates: FlowIns.fi_ok holds for the closure of every extracted skeleton (%d)" % len(vals_by),
                   not cert_bad and len(vals_by) == len(evn), ", ".join(cert_bad[:8]))
    if cert_bad:
        ctx.violation("the alias closure computed by the harness is not a valid certificate (FlowIns.fi_ok false) for: " + ", ".join(cert_bad[:5]),
                      {"kind": "alias-certificate", "drivers": cert_bad, "no_longer_checks": "premise of C15_flow_insensitive_alias_sound"},
                      found_input=False)
    ctx.count("ret_alias:drivers_whose_result_may_alias_an_argument", sum(1 for n in names if RET_STATIC.get(n)))
    st = os.environ.get("C15_SELFTEST", "")
    if st.startswith("drop-ret:"):          # self-test of the alias correspondence: forget the prediction for one driver
        RET_STATIC[st.split(":", 1)[1]] = []
        ctx.notes.append("SELFTEST: predicted return aliases of %s dropped" % st.split(":", 1)[1])
    # notes of the extractor, C entry points used
    allnotes, cent = {}, set()
    for n, r in ex.items():
        for x in r.get("notes", []):
            allnotes.setdefault(x, []).append(n)
        cent.update(r.get("centries", []))
    for x, ds in sorted(allnotes.items()):
        ctx.notes.append("extractor note (%d driver(s), e.g. %s): %s" % (len(ds), ds[0], x))
    ctx.count("extractor:notes", len(allnotes))
    ctx.count("extractor:statements_total", sum(r.get("size", 0) for r in ex.values()))
    ctx.count("extractor:drivers", len(ex))
    ctx.notes.append("C entry points reached by the skeletons: " + ", ".join(sorted(cent)))
    return ex, failed, why


def inventory_step(ctx):
    """the driver list against the sources of the scratch build (c15_translate, fail closed)"""
    inv = tr.inventory(ctx.impl)
    for d in drv.DRIVERS:
        if d.get("needs") and d["needs"] not in inv:
            SKIP.add(d["name"])
            ctx.notes.append("driver %s skipped: %s does not exist in this tree" % (d["name"], d["needs"]))
    problems, stats = tr.check(ctx.impl, drv.DRIVERS)
    for k, v in stats.items():
        ctx.count("inventory:" + k, v)
    ctx.obligation("inventory: every public callable of the anchored python modules is driven or listed out of scope, "
                   "and no driven callable changed its parameter list", not problems, "; ".join(problems[:6]))
    if problems:
        ctx.violation("the driver list of C15 no longer matches the sources: " + problems[0],
                      {"kind": "inventory", "problems": problems,
                       "no_longer_checks": "coverage of the property's quantifier (every public array-taking function, every option combination)"},
                      found_input=False)
    cprob = tr.ctable_problems(ctx.impl, sk.C_TABLE)
    wprob, found = tr.ctable_write_problems(ctx.impl, sk.C_TABLE)
    ctx.count("c_scan:entry_points", len(found))
    ctx.count("c_scan:entry_points_writing_an_argument", sum(1 for v in found.values() if v))
    ctx.obligation("C source scan (chist_pywrap.c, cosmolib_pywrap.c, htmc.cc): no entry point stores through an array argument "
                   "that the C entry-point table declares read-only, no unreviewed pointer escape", not wprob, "; ".join(wprob[:6]))
    closure, rprob = tr.records_write_scan(ctx.impl)
    ctx.count("records_scan:functions_in_write_path", len(closure))
    ctx.obligation("records.cpp write path (call-graph closure of Records::Write: %s): no store through mData / a pointer derived from "
                   "the caller's data buffer, no unreviewed escape of it" % ", ".join(closure), not rprob, "; ".join(rprob[:6]))
    cprob = cprob + wprob + rprob
    ctx.obligation("C entry-point table names every public method of the wrapped C++ classes", not cprob, "; ".join(cprob[:6]))
    if cprob:
        ctx.violation("the C entry-point table of the C15 extractor no longer matches the wrapped sources: " + cprob[0],
                      {"kind": "c-table", "problems": cprob, "no_longer_checks": "summaries of C entry points used by the skeletons"},
                      found_input=False)


def differential_all(ctx):
    """the differential loop of harness/runner.py for ALL entries at once: the real code is run case by case (in this process, in
    the main thread), then EVERY case of EVERY entry is evaluated by coqc in one parallel batch (the runner evaluates one entry
    after the other, one or two coqc processes at a time).  Triage and reporting are the runner's: verdict >= 2 is a failing input
    (one report per entry: the smallest case), verdict 1 without a failing input is a broken correspondence."""
    import json
    from ..runner import corpus_cases
    per, terms = [], []
    for ent in ENTRIES:
        t0 = time.time()
        cases = corpus_cases(ctx.pid, ent.name) + list(ent.cases(ctx, 0))
        for c in cases:
            c.setdefault("entry", ent.name)
        outs = [ent.impl(c) for c in cases]
        per.append((ent, cases, outs))
        terms += [ent.term(c, o) for c, o in zip(cases, outs)]
        ctx.count("wall_s:" + ent.name, round(time.time() - t0, 1))
    t0 = time.time()
    try:
        vals = core.coq_eval(os.path.join(ctx.work, "d_all"), PRE, terms, shard=150, tag="d_all")
    except core.CoqEvalError as e:
        ctx.violation("case files do not evaluate in Coq", {"kind": "case-file", "error": str(e)[-3000:]}, found_input=False)
        return
    TIMES["dynamic:coq_eval"] = time.time() - t0
    k = 0
    for ent, cases, outs in per:
        res = []
        for c, o in zip(cases, outs):
            res.append((c, o, int(vals[k].replace("%Z", "").strip("() "))))
            k += 1
        failing = [(c, o, v) for c, o, v in res if v >= 2]
        disagree = [(c, o, v) for c, o, v in res if v == 1]
        for c, o, v in res:
            ctx.case([ent.name, c], ent.nontrivial(c, o), ent.family(c), sample={"entry": ent.name, "input": c, "impl_output": o})
            ctx.count("verdict:%s:%d" % (ent.name, v))
        if failing:
            c, o, v = min(failing, key=lambda t: len(json.dumps(t[0], default=str)))
            ctx.violation("%s: %s" % (ent.name, core.VERDICT_TXT.get(v, "verdict %d" % v)),
                          {"kind": "failing-input", "entry": ent.name, "case": c, "impl_output": o, "verdict": v, "model_output": None,
                           "class": ent.classify(c, o, v), "failing_cases_in_this_entry": len(failing)}, found_input=True)
        elif disagree:
            c, o, v = min(disagree, key=lambda t: len(json.dumps(t[0], default=str)))
            ctx.violation("%s: correspondence model<->implementation broken on %d case(s); the property checker accepted every "
                          "implementation output explored" % (ent.name, len(disagree)),
                          {"kind": "correspondence", "entry": ent.name, "case": c, "impl_output": o, "verdict": v, "class": None,
                           "no_longer_checks": "correspondence %s.%s (model = implementation)" % (ctx.pid, ent.name)}, found_input=False)


def search_failed(ctx, names):
    for ent in ENTRIES:
        ds = [n for n in names if BY_NAME[n]["fam"] == ent.fam]
        if not ds:
            continue
        t0 = time.time()
        cases = []
        for n in ds:
            d = BY_NAME[n]
            for (dt, o, lay, nd, mode) in variants(d, ctx, True):
                for vs_ in ((5,) if d["slow"] or mode != "plain" else (5, 6)):
                    c = {"driver": n, "dt": dt, "order": o, "layout": lay, "nd": nd, "vseed": vs_,
                         "family": "%s/%s" % (ent.fam, d["func"]), "entry": ent.name}
                    if mode != "plain":
                        c["mode"] = mode
                    cases.append(c)
        res = run_entry(ctx, PRE, ent, cases, "search_" + ent.name)
        ctx.count("search_cases:" + ent.name, len(res))
        seen = set()
        for c, o, v in sorted(res, key=lambda t: len(str(t[0]))):
            ctx.case([ent.name, c], ent.nontrivial(c, o), ent.family(c))
            if v >= 2 and c["driver"] not in seen:
                seen.add(c["driver"])
                ctx.violation("%s: %s" % (ent.name, core.VERDICT_TXT[v]),
                              {"kind": "failing-input", "entry": ent.name, "case": c, "impl_output": o, "verdict": v, "model_output": None,
                               "class": None, "found_by": "search after failed static obligation frame_ok %s" % c["driver"]}, found_input=True)
        TIMES["search:" + ent.name] = time.time() - t0


TRUSTED = [
    "Coq 8.16.1 kernel (coqc, vm_compute; no native_compute); all C15 theorems are closed under the global context (no axioms)",
    "skeleton extractor harness/translate/c15_skeleton.py (python ast -> IR, hand tables for numpy/builtins/methods): trusted to "
    "over-approximate aliasing and writes of the Python sources; regenerated from the scratch build on every run; validated by the dynamic run "
    "(a mutation observed under a discharged obligation is reported as an extractor defect)",
    "C entry-point table (hand review of chist_pywrap.c, cosmolib_pywrap.c, htmc.cc, records.cpp; re-derived for the first three by the syntactic "
    "scanner c15_translate.c_scan on every run, fail closed; otherwise covered dynamically): " + c_table_text(),
    "driver list = the quantifier: harness/props/c15_drivers.py (one driver per public function and option valuation) and the OUT_OF_SCOPE list "
    "of c15_translate.py (public callables without array arguments / outside the listed families, each with its reason) are reviewed by hand; "
    "c15_translate.check compares both with the `ast` of the 8 anchored python modules on every run (new public callable, changed parameter "
    "list, vanished callable => undischarged obligation)",
    "literal transport: byte strings of the snapshots are printed as 7-byte primitive-integer chunks and decoded by Exec.bytes63 (not verified; "
    "Example transport_agree compares it with the hex-string decoder; wf63 rejects a length mismatch)",
    "modelled, not verified: numpy's view/copy semantics as encoded in the tables (which calls return views, which write), Python's "
    "evaluation order and exception semantics (every statement may raise: XHalt)",
    "dynamic run: differential testing bounded by the argument matrix; snapshots are taken by numpy (tobytes of the base buffer, dtype.descr, "
    "shape, strides, flags) and compared inside Coq by unchanged_check (proved sound and complete)",
    "python harness (harness/props/C15.py, c15_drivers.py), literal printers, coqc evaluating Exec.v terms",
]


def run(ctx, replay=None):
    ctx.rule = ("INVENTORY: every public callable of the anchored python modules is driven or listed out of scope; parameter lists unchanged; C table vs "
                "C sources.  STATIC: one obligation `frame_ok skeleton params = true` per (public function, option valuation) driver, skeleton regenerated "
                "from the scratch build's sources (frame_ok is sound AND exact for the skeleton semantics: C15_frame_ok_decides).  DYNAMIC: every driver run on the matrix {native, swapped(, mixed)} x {contiguous, strided} x "
                "{0-d,1-d,2-d} x {f8,f4,i8,i4 | structured}, snapshots of every non-exempt array argument before/after compared in Coq.  "
                "quick: per driver always the no-conversion corner (native, contiguous, first dtype) per ndim, the swapped+strided and native+strided corners, one corner per further dtype, plus a seeded sample; "
                "thorough: the full matrix x 2 value seeds.  A failed obligation without a dynamic witness triggers a full-matrix search for that driver.  "
                "non-trivial: the argument needs an internal conversion (non-native, strided or not f8).  distinct by canonical JSON of the case.")
    ctx.trusted = TRUSTED + ["EXEMPT (documented in-place, no obligation): " + x for x in exemptions()] + ["LIMITATION: " + x for x in LIMITATIONS]
    os.environ["C15_WORK"] = ctx.work
    core.proof_step(ctx, "C15", core.ALLOW_DISCRETE)
    inventory_step(ctx)
    if replay is not None and replay.get("kind") == "static-obligation":
        ex, failed, why = static_step(ctx, only={replay["driver"]})
        for n in failed:
            ctx.violation("static obligation frame_ok %s fails: %s" % (n, why.get(n)), {"kind": "static-obligation", "driver": n, "why": why.get(n)},
                          found_input=False)
        return
    if replay is not None and replay.get("kind") == "failing-input" and replay.get("case", {}).get("driver") in BY_NAME:
        # replay of one dynamic case: only the obligation of its driver is regenerated; the case decides
        ex, failed, why = static_step(ctx, only={replay["case"]["driver"]})
        differential(ctx, PRE, ENTRIES, replay)
        for n in failed:
            ctx.notes.append("static obligation %s FAILED (%s)" % (n, why.get(n)))
        return
    ex, failed, why = static_step(ctx)
    differential_all(ctx)
    for k, v in sorted(EXEMPT_HITS.items()):
        ctx.count("exempt_argument_changed:" + k, v)
    for k, v in sorted(ERRORS.items()):
        ctx.count("calls_raised:" + k, v)
    ctx.count("ret_alias:calls_whose_result_shared_memory_with_an_argument", sum(SHARE_HITS.values()))
    ctx.count("ret_alias:drivers_observed_sharing", len(SHARE_HITS))
    for k, v in sorted(RO_HITS.items()):
        ctx.count("read_only_write_attempt:" + k, v)
    ctx.count("alias_trace:traced_calls", TRACE_STATS[0])
    ctx.count("alias_trace:drivers_with_facts_in_code_the_extractor_did_not_inline", len(TRACE_NOT_INLINED))
    if TRACE_NOT_INLINED:
        ctx.notes.insert(0, "ALIAS TRACE: locals of code the extractor did not inline (or inlined with a reported UNKNOWN / ASSUMED step) share memory with an argument (covered dynamically only): "
                         + "; ".join("%s: %s" % (k, ",".join(sorted(set(v)))) for k, v in sorted(TRACE_NOT_INLINED.items())[:12]))
    ctx.count("alias_trace:alias_facts_observed", TRACE_STATS[1])
    ctx.obligation("alias trace: every (local name, argument) sharing observed with sys.settrace in %d real calls is allowed by the "
                   "may-alias closure of the extracted skeleton" % TRACE_STATS[0], not TRACE_BAD,
                   "; ".join("%s: %s" % kv for kv in list(TRACE_BAD.items())[:5]))
    if TRACE_BAD:
        ctx.violation("the extracted skeletons do not over-approximate the aliasing of the real execution: %s"
                      % "; ".join("%s: %s" % kv for kv in list(TRACE_BAD.items())[:3]),
                      {"kind": "alias-trace", "drivers": TRACE_BAD,
                       "no_longer_checks": "assumption of C15_refinement_sound (the real call's effect skeleton refines the extracted one)"},
                      found_input=False)
    # cross-check static <-> dynamic.  The runner reports ONE failing input per entry and class; every driver in
    # which the dynamic run saw a non-exempt argument change (DYN_CHANGED, recorded by impl) has a failing input
    dyn_fail = set(DYN_CHANGED)
    if dyn_fail:
        ctx.notes.append("drivers with a dynamically observed mutation of a non-exempt argument: " + ", ".join(sorted(dyn_fail)))
    # the search of DESIGN section 5 for obligations that failed without a dynamic witness so far: the full argument matrix
    # with further value seeds (the runner's own search is triggered by model/implementation disagreement, which a failed
    # obligation does not produce: the model then predicts nothing)
    if replay is None:
        search_failed(ctx, list(dict.fromkeys(n.split("#")[0] for n in failed if n.split("#")[0] not in dyn_fail)))
        dyn_fail = set(DYN_CHANGED)
    for n in failed:
        d = D(n)
        if "#" in n and n.split("#")[0] in failed:
            continue                  # the single call already fails: the sequence obligation adds nothing
        if n.split("#")[0] in dyn_fail:
            ctx.notes.append("static obligation %s FAILED (%s) and the dynamic run found a failing input for it" % (n, why.get(n)))
        else:
            ctx.violation("static obligation frame_ok %s {%s | %s} is not discharged (%s); the dynamic search found no mutating input"
                          % (n, d["func"], d["valuation"], why.get(n)),
                          {"kind": "static-obligation", "driver": n, "func": d["func"], "valuation": d["valuation"], "why": why.get(n),
                           "driver_source": d["src"], "no_longer_checks": "generated lemma frame_ok <skeleton of %s> = true" % n},
                          found_input=False)
    for k, v in sorted(TIMES.items()):
        ctx.count("wall_s:" + k, round(v, 1))
    for n in dyn_fail:
        if STATIC_OK.get(n) and STATIC_OK.get(n + "#seq", True):
            ctx.notes.append("EXTRACTOR DEFECT: %s mutates an argument although its skeleton obligation was discharged" % n)
            ctx.count("extractor:unsound_cases")

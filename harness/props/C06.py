"""C06 — array matching is sound and complete; de-duplication keeps one per value
(DESIGN.md section 7, C06).  esutil.numpy_util.match / match_multi / unique / rem_dup.

Element encodings (JSON case  ->  numpy  ->  Coq):
  integer kinds   python int          np.array(dtype=kind)      Z
  float kinds     float.hex() text    np.array(dtype=kind)      Z through the order embedding `fkey`
                                                                 (monotone, -0.0 and 0.0 coincide, no NaN)
  'S' / 'U'       list of code points bytes / str                list Z, lexicographic order
                  (never 0: numpy strips trailing NUL padding)
"""
import struct

import os
import re

from .. import core
from ..core import cz, cnat, clist, cbool
from ..runner import Entry, differential
from . import c06_translate

PRE = "From EsVerif.Common Require Import Base.\nFrom EsVerif.C06 Require Import Model Spec Forms Exec.\n"
PRE_GEN = PRE + "From EsVerif.C06 Require Import Skel Gen.\n"

# inputs on which the skeleton at the regenerated parameters (Skel.v at Gen.v) violates the property inside Coq
# (found by the small-scope search when the tie is broken); run first by the entries below
EXTRA = {"match": [], "unique": [], "rem_dup": []}

INT_KINDS = {"i1": (-2**7, 2**7 - 1), "i2": (-2**15, 2**15 - 1), "i4": (-2**31, 2**31 - 1), "i8": (-2**63, 2**63 - 1),
             "u1": (0, 2**8 - 1), "u2": (0, 2**16 - 1), "u4": (0, 2**32 - 1), "u8": (0, 2**64 - 1)}
FLOAT_KINDS = ("f8", "f4")
STR_KINDS = ("S", "U")


# ----------------------------------------------------------------------------
# encodings
# ----------------------------------------------------------------------------

def fkey(x):
    """order embedding of a non-NaN binary64 into Z: x < y <-> fkey(x) < fkey(y), x == y <-> equal keys"""
    (b,) = struct.unpack(">q", struct.pack(">d", float(x)))
    return b if b >= 0 else -(b & 0x7FFFFFFFFFFFFFFF)


def is_str(kind):
    return kind in STR_KINDS


def key(kind, v):
    """the value as the Coq model sees it (also python's sort/equality key)"""
    if kind in INT_KINDS:
        return int(v)
    if kind in FLOAT_KINDS:
        return fkey(float.fromhex(v))
    return tuple(v)


def to_np(kind, vals):
    import numpy as np
    if kind in INT_KINDS:
        return np.array([int(v) for v in vals], dtype=kind)
    if kind in FLOAT_KINDS:
        return np.array([float.fromhex(v) for v in vals], dtype=kind)
    if kind == "S":
        return np.array([bytes(v) for v in vals], dtype="S")
    return np.array(["".join(chr(c) for c in v) for v in vals], dtype="U")


def to_scalar(kind, v, native):
    """a scalar argument: python native scalar when the kind has one, numpy scalar otherwise"""
    import numpy as np
    if kind in INT_KINDS:
        return int(v) if (native and kind == "i8") else np.dtype(kind).type(int(v))
    if kind in FLOAT_KINDS:
        return float.fromhex(v) if (native and kind == "f8") else np.dtype(kind).type(float.fromhex(v))
    if kind == "S":
        return bytes(v) if native else np.bytes_(bytes(v))
    s = "".join(chr(c) for c in v)
    return s if native else np.str_(s)


def from_np(kind, arr):
    """numpy values back into the case encoding"""
    out = []
    for x in arr.tolist():
        if kind in INT_KINDS:
            out.append(int(x))
        elif kind in FLOAT_KINDS:
            out.append(float(x).hex())
        elif kind == "S":
            out.append(list(x))
        else:
            out.append([ord(c) for c in x])
    return out


def cval(kind, v):
    k = key(kind, v)
    if is_str(kind):
        return clist(k, cz)
    return cz(k)


def cvals(kind, vals):
    return "[" + "; ".join(cval(kind, v) for v in vals) + "]"


def cnats(l):
    return "[" + "; ".join(cnat(x) for x in l) + "]"


def cres(out, f):
    return "(Ok %s)" % f(out[1]) if out[0] == "ok" else "(Err %s)" % out[1]


def pfx(kind):
    return "vs" if is_str(kind) else "vz"


def flag_key(f):
    """flags are ints or float.hex() strings"""
    return fkey(float.fromhex(f)) if isinstance(f, str) else int(f)


def flags_np(flags):
    import numpy as np
    if any(isinstance(f, str) for f in flags):
        return np.array([float.fromhex(f) if isinstance(f, str) else float(f) for f in flags], dtype="f8")
    return np.array([int(f) for f in flags], dtype="i8")


def flag_keys(flags):
    if any(isinstance(f, str) for f in flags):
        return [fkey(float.fromhex(f) if isinstance(f, str) else float(f)) for f in flags]
    return [int(f) for f in flags]


# ----------------------------------------------------------------------------
# generators
# ----------------------------------------------------------------------------

F8_SPECIAL = [0.0, -0.0, 1.5, -1.5, 1e300, -1e300, 5e-324, -5e-324, float("inf"), -float("inf"), 0.1, 0.2, 0.30000000000000004,
              0.3, 1.0, 1.0000000000000002, -1.0, 2.0**53, 2.0**53 + 2, -2.0**53, 1e-300, 3.141592653589793]
F4_SPECIAL = [0.0, -0.0, 1.5, -1.5, 0.10000000149011612, 0.30000001192092896, 3.4028234663852886e+38, -3.4028234663852886e+38,
              1.401298464324817e-45, -1.401298464324817e-45, float("inf"), -float("inf"), 1.0, 1.0000001192092896, 16777216.0]
S_ALPHABET = [32, 48, 65, 97, 98, 122, 126, 127, 128, 200, 255, 1]
U_ALPHABET = [32, 65, 97, 98, 122, 233, 0x3b1, 0x4e2d, 0xFFFD, 0x1F600, 0x10FFFF, 1]


def gen_value(r, kind, rng):
    """one random value of the kind; rng in {'small','large','full'}"""
    if kind in INT_KINDS:
        lo, hi = INT_KINDS[kind]
        if rng == "small":
            return r.randrange(max(lo, -6), min(hi, 12) + 1)
        if rng == "large":
            edge = r.choice([lo, hi, (lo + hi) // 2, 2**53 if hi > 2**53 else hi // 3, -(2**53) if lo < -(2**53) else lo // 3])
            return min(hi, max(lo, edge + r.randrange(-4, 5)))
        return r.randrange(lo, hi + 1)
    if kind == "f8":
        if rng == "small":
            return float(r.randrange(-8, 9) / 2.0).hex()
        if rng == "large":
            return float(r.choice(F8_SPECIAL)).hex()
        return float(r.choice([r.uniform(-10, 10), r.gauss(0, 1e6), r.uniform(-1, 1) * 10.0 ** r.randrange(-300, 300)])).hex()
    if kind == "f4":
        import numpy as np
        if rng == "small":
            return float(r.randrange(-8, 9) / 2.0).hex()
        if rng == "large":
            return float(np.float32(r.choice(F4_SPECIAL))).hex()
        return float(np.float32(r.choice([r.uniform(-10, 10), r.gauss(0, 1e6), r.uniform(-1, 1) * 10.0 ** r.randrange(-30, 30)]))).hex()
    alpha = S_ALPHABET if kind == "S" else U_ALPHABET
    if rng == "small":
        return [r.choice(alpha[:5]) for _ in range(r.randrange(0, 3))]
    return [r.choice(alpha) for _ in range(r.randrange(0, 6 if rng == "large" else 4))]


def gen_pool(r, kind, rng, want):
    """`want` values of the kind, pairwise distinct as the implementation sees them, ascending"""
    pool, tries = {}, 0
    while len(pool) < want and tries < 40 * want:
        tries += 1
        v = gen_value(r, kind, rng)
        pool.setdefault(key(kind, v), v)
    return [pool[k] for k in sorted(pool)]


ALL_KINDS = ["i8", "i8", "u8", "i4", "u4", "i2", "u2", "i1", "u1", "f8", "f8", "f4", "S", "S", "U", "U"]


def gen_match_case(r, nmax, force=None):
    kind = r.choice(ALL_KINDS)
    rng = r.choice(["small", "large", "full"])
    n1 = r.choice([1, 2, 3, r.randrange(1, nmax + 1), r.randrange(1, nmax + 1)])
    n2 = r.choice([1, 2, r.randrange(1, nmax + 1), r.randrange(1, nmax + 1)])
    pool = gen_pool(r, kind, rng, n1 + 6)
    if len(pool) < 3:
        pool = gen_pool(r, kind, "full" if kind in INT_KINDS and INT_KINDS[kind][1] > 20 else "large", 6)
    n1 = max(1, min(n1, len(pool) - 2)) if len(pool) > 2 else 1
    # keep some pool values outside arr1's range on both sides
    lo_out = r.randrange(0, 3)
    hi_out = r.randrange(0, 3)
    inner = pool[lo_out:len(pool) - hi_out] if len(pool) - hi_out - lo_out >= n1 else pool
    a1 = r.sample(inner, min(n1, len(inner)))
    keys1 = set(key(kind, v) for v in a1)
    others = [v for v in pool if key(kind, v) not in keys1]
    mode = force or r.choice(["none", "some", "some", "some", "all", "dups1"])
    presorted = r.random() < 0.3
    if mode == "all" or not others:
        a2 = [r.choice(a1) for _ in range(n2)]
        mode = "all" if mode != "dups1" else mode
    elif mode == "none":
        a2 = [r.choice(others) for _ in range(n2)]
    else:
        a2 = [r.choice(a1) if r.random() < 0.5 else r.choice(others) for _ in range(n2)]
    if mode == "dups1":
        a1 = a1 + [r.choice(a1) for _ in range(r.randrange(1, 3))]
        r.shuffle(a1)
    if presorted:
        a1 = sorted(a1, key=lambda v: key(kind, v))
    elif r.random() < 0.15:
        a1 = sorted(a1, key=lambda v: key(kind, v), reverse=True)
    c = {"kind": kind, "a1": a1, "a2": a2, "presorted": presorted, "scalar1": False, "scalar2": False, "native": True,
         "range": rng,
         "family": "%s/%s%s" % ("int" if kind in INT_KINDS else ("float" if kind in FLOAT_KINDS else "string"),
                                mode, "/presorted" if presorted else "")}
    return c


def gen_boundary_case(r):
    """probes exactly at, just below and just above the smallest and the largest element of the first array (and of the
    dtype): the clamp and the searchsorted ends"""
    import math
    kind = r.choice(["i8", "u8", "i4", "u1", "i1", "f8", "f4", "S", "U"])
    pool = gen_pool(r, kind, r.choice(["small", "large"]), 8)
    if len(pool) < 2:
        kind = "i8"
        pool = gen_pool(r, kind, "small", 8)
    a1 = r.sample(pool, r.randrange(1, len(pool) + 1))
    ks = sorted(a1, key=lambda v: key(kind, v))
    lo, hi = ks[0], ks[-1]
    probes = [lo, hi, lo, hi]
    if kind in INT_KINDS:
        dlo, dhi = INT_KINDS[kind]
        probes += [max(dlo, lo - 1), min(dhi, hi + 1), dlo, dhi]
    elif kind in FLOAT_KINDS:
        import numpy as np
        ft = np.float32 if kind == "f4" else np.float64
        flo, fhi = ft(float.fromhex(lo)), ft(float.fromhex(hi))
        with np.errstate(all="ignore"):
          probes += [float(np.nextafter(flo, ft(-math.inf))).hex(), float(np.nextafter(fhi, ft(math.inf))).hex(),
                   float(-math.inf).hex(), float(math.inf).hex(), float(np.nextafter(flo, ft(math.inf))).hex()]
    else:
        probes += [lo[:-1] if lo else lo, hi + [1], hi + [hi[-1]] if hi else [1], []]
    r.shuffle(probes)
    presorted = r.random() < 0.4
    if presorted:
        a1 = ks
    else:
        r.shuffle(a1)
    return {"kind": kind, "a1": a1, "a2": probes[:r.randrange(3, len(probes) + 1)], "presorted": presorted, "scalar1": False,
            "scalar2": False, "native": True, "range": "boundary",
            "family": "boundary/%s%s" % ("int" if kind in INT_KINDS else ("float" if kind in FLOAT_KINDS else "string"),
                                         "/presorted" if presorted else "")}


def gen_scalar_case(r):
    c = gen_match_case(r, 6, force=r.choice(["none", "some", "all"]))
    which = r.choice(["first", "second", "both"])
    if which in ("first", "both"):
        c["a1"] = c["a1"][:1]
        c["scalar1"] = True
    if which in ("second", "both"):
        c["a2"] = [r.choice(c["a1"] + c["a2"])]
        c["scalar2"] = True
    c["native"] = r.random() < 0.6
    c["family"] = "scalar-" + which + "/" + ("string" if is_str(c["kind"]) else "number")
    return c


def fixed_match_cases():
    h = lambda x: float(x).hex()  # noqa
    cs = [
        {"kind": "i8", "a1": [3, 1, 2], "a2": [2, 2, 7, -1, 3], "presorted": False, "family": "hand"},
        {"kind": "i8", "a1": [1, 2, 3], "a2": [2, 2, 7, -1, 3], "presorted": True, "family": "hand"},
        {"kind": "i8", "a1": [3, 1, 3], "a2": [2, 2, 7, -1, 3], "presorted": False, "family": "hand-dups1"},
        {"kind": "i8", "a1": [1, 3, 3], "a2": [3], "presorted": True, "family": "hand-dups1"},
        {"kind": "i8", "a1": [5], "a2": [5, 5, 4, 6, 5], "presorted": False, "family": "hand"},
        {"kind": "i8", "a1": [-2**63, 2**63 - 1, 0], "a2": [2**63 - 1, -2**63, 1, -1, 0, 2**63 - 2], "presorted": False, "family": "hand-extreme"},
        {"kind": "u8", "a1": [2**63, 5, 2**64 - 1], "a2": [2**64 - 1, 0, 5, 2**63 - 1, 2**63], "presorted": False, "family": "hand-extreme"},
        {"kind": "u8", "a1": [2**53, 2**53 + 1, 2**53 + 2], "a2": [2**53 + 1, 2**53 + 3, 2**53 - 1, 2**53], "presorted": True, "family": "hand-extreme"},
        {"kind": "f8", "a1": [h(1.5), h(-2.0), h(3.25)], "a2": [h(9.0), h(-2.0), h(-5.0), h(3.25), h(3.2500000000000004)], "presorted": False, "family": "hand-float"},
        {"kind": "f8", "a1": [h(0.0), h(1.0), h(-1.0)], "a2": [h(-0.0), h(0.0), h(5e-324), h(-5e-324), h(float("inf")), h(-float("inf"))], "presorted": False, "family": "hand-float"},
        {"kind": "f8", "a1": [h(0.0), h(-0.0)], "a2": [h(0.0)], "presorted": False, "family": "hand-dups1"},
        {"kind": "f8", "a1": [h(-float("inf")), h(0.1), h(float("inf"))], "a2": [h(0.1), h(0.30000000000000004), h(float("inf")), h(-float("inf"))], "presorted": True, "family": "hand-float"},
        {"kind": "S", "a1": [[98], [97, 98, 99], [97]], "a2": [[97, 98, 99, 100], [97], [122, 122], [], [98], [98]], "presorted": False, "family": "hand-string"},
        {"kind": "U", "a1": [[98], [97, 98, 99], [97]], "a2": [[97, 98, 99, 100], [97], [122, 122], [], [98], [98]], "presorted": False, "family": "hand-string"},
        {"kind": "S", "a1": [[], [255], [97, 32]], "a2": [[97], [97, 32], [255, 255], [], [255]], "presorted": False, "family": "hand-string"},
        {"kind": "U", "a1": [[0x1F600], [0x10FFFF, 97], [233]], "a2": [[0x10FFFF], [233], [0x1F600], [0x10FFFF, 97], [0x10FFFF, 97, 97]], "presorted": False, "family": "hand-string"},
        {"kind": "S", "a1": [[97], [97, 97], [97, 97, 97]], "a2": [[97, 97, 97, 97], [97, 97], [], [97]], "presorted": True, "family": "hand-string"},
    ]
    for c in cs:
        c.setdefault("scalar1", False)
        c.setdefault("scalar2", False)
        c.setdefault("native", True)
    return cs


def gen_dedup_array(r, nmax):
    kind = r.choice(ALL_KINDS)
    rng = r.choice(["small", "small", "large", "full"])
    n = r.choice([1, 2, 3, r.randrange(1, nmax + 1), r.randrange(1, nmax + 1), r.randrange(1, nmax + 1)])
    ndist = r.choice([1, 2, 3, max(1, n // 2), n])
    pool = gen_pool(r, kind, rng, ndist)
    a = [r.choice(pool) for _ in range(n)]
    shape = r.choice(["any", "any", "first-not-min", "first-is-min", "sorted", "reversed"])
    ks = lambda v: key(kind, v)  # noqa
    if shape == "first-not-min" and len(set(map(ks, a))) > 1:
        a.sort(key=ks)
        i = r.randrange(1, n)
        while ks(a[i]) == ks(a[0]):
            i = r.randrange(1, n)
        a[0], a[i] = a[i], a[0]
        rest = a[1:]
        r.shuffle(rest)
        a = a[:1] + rest
    elif shape == "first-is-min":
        m = min(a, key=ks)
        a.remove(m)
        a = [m] + a
    elif shape == "sorted":
        a.sort(key=ks)
    elif shape == "reversed":
        a.sort(key=ks, reverse=True)
    fam = "%s/%s" % ("int" if kind in INT_KINDS else ("float" if kind in FLOAT_KINDS else "string"), shape)
    return kind, a, fam


def gen_flags(r, n):
    style = r.choice(["int-ties", "int-wide", "float", "constant", "increasing", "decreasing"])
    if style == "int-ties":
        return [r.randrange(-2, 3) for _ in range(n)]
    if style == "int-wide":
        return [r.randrange(-2**62, 2**62) for _ in range(n)]
    if style == "float":
        return [float(r.choice([r.uniform(-3, 3), r.randrange(-2, 3) / 2.0, -0.0, 0.0, 1e300, -1e300])).hex() for _ in range(n)]
    if style == "constant":
        return [7] * n
    if style == "increasing":
        return list(range(n))
    return list(range(n, 0, -1))


def _repeated_not_first(kind, a):
    """a value occurring >= 2 times whose first occurrence is not index 0"""
    ks = [key(kind, v) for v in a]
    return any(ks.count(k) >= 2 and ks.index(k) > 0 for k in set(ks))


# ----------------------------------------------------------------------------
# entries
# ----------------------------------------------------------------------------

class Match(Entry):
    name = "match"
    multi = False

    def cases(self, ctx, round=0):
        r = ctx.rng
        cs = []
        nmax = ctx.n(12, 40)
        if round == 0:
            cs += [dict(c) for c in EXTRA["match"]]
            cs += [dict(c) for c in fixed_match_cases()]
            for _ in range(ctx.n(60, 400)):
                cs.append(gen_scalar_case(r))
            for _ in range(ctx.n(60, 400)):
                cs.append(gen_boundary_case(r))
        for _ in range(ctx.n(500, 6000) if round == 0 else ctx.n(300, 1500)):
            cs.append(gen_match_case(r, nmax))
        if self.multi:
            # match_multi ignores presorted: also try presorted=True on unsorted first arrays
            for c in cs:
                if c.get("family") == "gen-counterexample":
                    continue
                if r.random() < 0.5:
                    c["presorted"] = True
                    if not c["scalar1"] and r.random() < 0.7:
                        r.shuffle(c["a1"])
                    c["family"] = c["family"].replace("/presorted", "") + "/presorted-flag-ignored"
        return cs

    def _args(self, c):
        k = c["kind"]
        x1 = to_scalar(k, c["a1"][0], c["native"]) if c["scalar1"] else to_np(k, c["a1"])
        x2 = to_scalar(k, c["a2"][0], c["native"]) if c["scalar2"] else to_np(k, c["a2"])
        return x1, x2

    def impl(self, c):
        import esutil.numpy_util as nu
        fn = nu.match_multi if self.multi else nu.match

        def f():
            x1, x2 = self._args(c)
            m1, m2 = fn(x1, x2, presorted=c["presorted"])
            return [[int(i) for i in m1], [int(i) for i in m2]]
        return core.guarded(f)

    def term(self, c, out):
        k = c["kind"]
        return "%s_matchx %s %s %s %s %s" % (pfx(k), cbool(c["presorted"]), cbool(self.multi), cvals(k, c["a1"]), cvals(k, c["a2"]),
                                            cres(out, lambda o: "(%s, %s)" % (cnats(o[0]), cnats(o[1]))))

    def nontrivial(self, c, out):
        k = c["kind"]
        k1 = [key(k, v) for v in c["a1"]]
        hits = [key(k, v) in set(k1) for v in c["a2"]]
        return any(hits) and not all(hits) and k1 != sorted(k1)

    def show(self, c):
        k = c["kind"]
        o = "lex_ltb lex_eqb true" if is_str(k) else "zltb zeqb false"
        return "show_match %s %s %s %s %s" % (o, cbool(c["presorted"]), cbool(self.multi), cvals(k, c["a1"]), cvals(k, c["a2"]))


class MatchMulti(Match):
    name = "match_multi"
    multi = True


class Unique(Entry):
    name = "unique"
    values = False
    coq = "unique"

    def cases(self, ctx, round=0):
        r = ctx.rng
        cs = []
        if round == 0:
            cs += [dict(c) for c in EXTRA["unique"]]
            for a in ([5, 1, 5], [3, 1, 2], [5, 1], [1], [1, 1, 1], [1, 2, 3], [2, 2, 1, 1, 3, 3], []):
                cs.append({"kind": "i8", "a": a, "family": "hand"})
            cs.append({"kind": "S", "a": [[98], [97], [98]], "family": "hand"})
            cs.append({"kind": "f8", "a": [float(x).hex() for x in (0.0, -1.5, -0.0, 2.5, -1.5)], "family": "hand"})
        for _ in range(ctx.n(350, 4000) if round == 0 else ctx.n(200, 1000)):
            kind, a, fam = gen_dedup_array(r, ctx.n(12, 40))
            cs.append({"kind": kind, "a": a, "family": fam})
        return cs

    def _oracle(self, c):
        """numpy's argsort of the very array the implementation is given (same dtype, same algorithm)"""
        arr = to_np(c["kind"], c["a"])
        return arr, [int(i) for i in arr.argsort()]

    def impl(self, c):
        import esutil.numpy_util as nu
        arr, s = self._oracle(c)

        def f():
            res = nu.unique(arr, values=self.values)
            return from_np(c["kind"], res) if self.values else [int(i) for i in res]
        return {"argsort": s, "result": core.guarded(f)}

    def term(self, c, out):
        k = c["kind"]
        pr = (lambda o: cvals(k, o)) if self.values else cnats
        return "%s_%s %s %s %s" % (pfx(k), self.coq, cnats(out["argsort"]), cvals(k, c["a"]), cres(out["result"], pr))

    def nontrivial(self, c, out):
        return _repeated_not_first(c["kind"], c["a"])

    def show(self, c):
        k = c["kind"]
        o = "lex_ltb lex_eqb" if is_str(k) else "zltb zeqb"
        _, s = self._oracle(c)
        return "show_dedup %s %s %s %s" % (o, cnats(s), cvals(k, c["a"]), clist(flag_keys(c.get("flag", [0] * len(c["a"]))), cz))


class UniqueValues(Unique):
    name = "unique_values"
    values = True
    coq = "unique_values"


class RemDup(Unique):
    name = "rem_dup"
    values = False
    coq = "rem_dup"

    def cases(self, ctx, round=0):
        r = ctx.rng
        cs = []
        if round == 0:
            cs += [dict(c) for c in EXTRA["rem_dup"]]
            cs += [{"kind": "i8", "a": [5, 1, 5], "flag": [1, 2, 3], "family": "hand"},
                   {"kind": "i8", "a": [5, 1, 5, 5], "flag": [3, 2, 3, 1], "family": "hand"},
                   {"kind": "i8", "a": [5], "flag": [1], "family": "hand"},
                   {"kind": "i8", "a": [], "flag": [], "family": "hand"},
                   {"kind": "i8", "a": [2, 2, 2, 2], "flag": [0, 5, 5, 1], "family": "hand"},
                   {"kind": "U", "a": [[98], [97], [98], [97]], "flag": [float(x).hex() for x in (0.5, -1.0, 0.25, -0.0)], "family": "hand"}]
        for _ in range(ctx.n(350, 4000) if round == 0 else ctx.n(200, 1000)):
            kind, a, fam = gen_dedup_array(r, ctx.n(12, 40))
            cs.append({"kind": kind, "a": a, "flag": gen_flags(r, len(a)), "family": fam})
        return cs

    def impl(self, c):
        import numpy as np
        import esutil.numpy_util as nu
        arr, s = self._oracle(c)
        fl = flags_np(c["flag"])

        def f():
            if self.values:
                ind, vals = nu.rem_dup(arr, fl, values=True)
                return [[int(i) for i in np.atleast_1d(ind)], from_np(c["kind"], np.atleast_1d(vals))]
            return [int(i) for i in np.atleast_1d(nu.rem_dup(arr, fl))]
        return {"argsort": s, "result": core.guarded(f)}

    def term(self, c, out):
        k = c["kind"]
        pr = (lambda o: "(%s, %s)" % (cnats(o[0]), cvals(k, o[1]))) if self.values else cnats
        return "%s_%s %s %s %s %s" % (pfx(k), self.coq, cnats(out["argsort"]), cvals(k, c["a"]), clist(flag_keys(c["flag"]), cz),
                                      cres(out["result"], pr))


class RemDupValues(RemDup):
    name = "rem_dup_values"
    values = True
    coq = "rem_dup_values"



# ----------------------------------------------------------------------------
# round 2: argument forms, mixed kinds, empty arrays, complete return values, omitted keywords
# ----------------------------------------------------------------------------

NATIVE_KINDS = ("i8", "f8", "S", "U")          # kinds a python list / python scalar turns into
NUM_MIXES = [("i8", "f8"), ("f8", "i8"), ("u8", "f8"), ("f8", "u8"), ("i4", "i8"), ("i8", "i4"), ("u1", "i8"), ("i8", "u1"), ("u8", "i8"), ("i8", "u8"),
             ("f4", "f8"), ("f8", "f4"), ("i2", "f4"), ("u4", "i2"), ("i1", "u8"), ("u2", "f8")]
TWO53 = 2 ** 53


def mixed_float(k1, k2):
    return (k1 in FLOAT_KINDS) or (k2 in FLOAT_KINDS)


def mkey(kind, v, as_float):
    """value of a mixed numeric pair as the model sees it: the common embedding of both sides (exact: every integer
    of such a pair is within +-2^53, every f4 value is a binary64)"""
    if kind in INT_KINDS:
        return fkey(float(int(v))) if as_float else int(v)
    return fkey(float.fromhex(v))


def gen_mixed_value(r, kind, big=False):
    """big (int/float pairs only): integers beyond 2^53 in clusters that collide after the promotion to float64, and the
    doubles they round to.  In an int/float pair `equal` can only mean numpy's == of the pair, i.e. equality of the
    promoted binary64 values; the harness embeds every integer of such a pair through float(int) (round to nearest even)"""
    if big and r.random() < 0.7:
        b = r.choice([2**53, 2**54, 2**60, 2**62, 2**63 - 4096])
        v = b + r.randrange(-3, 14)
        if kind in INT_KINDS:
            lo, hi = INT_KINDS[kind]
            return min(hi, max(lo, -v if (lo < 0 and r.random() < 0.2) else v))
        return float(v).hex()
    if kind in INT_KINDS:
        lo, hi = INT_KINDS[kind]
        lo, hi = max(lo, -TWO53), min(hi, TWO53)
        c = r.choice(["small", "small", "edge", "any"])
        if c == "small":
            return r.randrange(max(lo, -5), min(hi, 9) + 1)
        if c == "edge":
            return min(hi, max(lo, r.choice([lo, hi, 0, 255, 256, 2**31, -2**31, 2**32 + 1, 65535, 65536, 127, 128, -128]) + r.randrange(-2, 3)))
        return r.randrange(lo, hi + 1)
    import numpy as np
    x = r.choice([float(r.randrange(-5, 10)), r.randrange(-10, 20) / 2.0, float(r.choice([255, 256, 65536, 2**31, 2**32 + 1, 2.0**53, -2.0**53])),
                  r.uniform(-3, 3), float("inf"), -float("inf"), 0.1, -0.0])
    return float(np.float32(x) if kind == "f4" else x).hex()


def fits(kind, k):
    """does the embedded integer value k exist in `kind`"""
    if kind in INT_KINDS:
        return INT_KINDS[kind][0] <= k <= INT_KINDS[kind][1]
    return True


def gen_mixed_numeric_case(r):
    k1, k2 = r.choice(NUM_MIXES)
    af = mixed_float(k1, k2)
    big = af and ("8" in k1 and "8" in k2) and (k1 in INT_KINDS or k2 in INT_KINDS) and r.random() < 0.45
    n1, n2 = r.randrange(1, 8), r.randrange(1, 9)
    pool1 = {}
    for _ in range(60):
        v = gen_mixed_value(r, k1, big)
        pool1.setdefault(mkey(k1, v, af), v)
        if len(pool1) >= n1:
            break
    a1 = list(pool1.values())
    r.shuffle(a1)
    a2 = []
    for _ in range(n2):
        if r.random() < 0.55:
            v = r.choice(a1)
            # the same VALUE spelled in the other kind, when it exists there
            if k2 in INT_KINDS:
                x = float.fromhex(v) if k1 in FLOAT_KINDS else int(v)
                if x == x and abs(x) != float("inf") and float(x).is_integer() and fits(k2, int(x)):
                    a2.append(int(x))
                    continue
            else:
                import numpy as np
                x = float(int(v)) if k1 in INT_KINDS else float.fromhex(v)
                y = float(np.float32(x)) if k2 == "f4" else x
                if y == x:
                    a2.append(float(y).hex())
                    continue
        a2.append(gen_mixed_value(r, k2, big))
    presorted = r.choice([False, False, True, None])
    if presorted:
        a1.sort(key=lambda v: mkey(k1, v, af))
    return {"kind1": k1, "kind2": k2, "a1": a1, "a2": a2, "presorted": presorted, "form1": "array", "form2": "array",
            "multi": r.random() < 0.3, "family": "mixed-%s%s" % ("int-float" if af and not (k1 in FLOAT_KINDS and k2 in FLOAT_KINDS)
                                                                    else ("float-widths" if af else "int-widths"),
                                                                    "/beyond-2p53" if big else "")}


ASCII = [32, 48, 65, 97, 98, 122, 126]


def gen_bytes_unicode_case(r):
    k1, k2 = r.choice([("U", "S"), ("S", "U")])
    pool = gen_pool(r, "S", "small", 6)
    pool = [[c for c in v if c < 128] for v in pool] + [[r.choice(ASCII) for _ in range(r.randrange(0, 4))] for _ in range(3)]
    uniq = {}
    for v in pool:
        uniq.setdefault(tuple(v), v)
    pool = list(uniq.values())
    n1 = r.randrange(1, max(2, len(pool)))
    a1 = r.sample(pool, min(n1, len(pool)))
    a2 = [r.choice(pool) for _ in range(r.randrange(1, 7))]        # the same SPELLINGS in the other string kind
    presorted = r.choice([False, True, None])
    if presorted:
        a1.sort()
    return {"kind1": k1, "kind2": k2, "a1": a1, "a2": a2, "presorted": presorted, "form1": r.choice(["array", "array", "list"]),
            "form2": r.choice(["array", "list"]), "multi": r.random() < 0.3, "family": "mixed-bytes-unicode"}


def gen_forms_case(r):
    """one kind, every way of spelling the arguments: array, python list, python / numpy scalar, 0-d array; keyword omitted"""
    c = gen_match_case(r, 7, force=r.choice(["none", "some", "some", "all", "dups1"]))
    k = c["kind"]
    forms = ["array", "zerod", "npscalar"] + (["list", "pyscalar"] if k in NATIVE_KINDS else [])
    f1, f2 = r.choice(forms), r.choice(forms)
    a1, a2 = c["a1"], c["a2"]
    if f1 in ("zerod", "npscalar", "pyscalar"):
        a1 = a1[:1]
    if f2 in ("zerod", "npscalar", "pyscalar"):
        a2 = [r.choice(a1 + a2)]
    pres = r.choice([c["presorted"], c["presorted"], None]) if not c["presorted"] else True
    return {"kind1": k, "kind2": k, "a1": a1, "a2": a2, "presorted": pres, "form1": f1, "form2": f2,
            "multi": r.random() < 0.3, "family": "forms/%s+%s%s" % (f1, f2, "/default" if pres is None else "")}


def gen_empty_case(r):
    k = r.choice(["i8", "f8", "S", "U", "u1", "i4"])
    which = r.choice(["second", "second", "first", "both"])
    pool = gen_pool(r, k, "small", 4) or [gen_value(r, k, "large")]
    a1 = [] if which in ("first", "both") else r.sample(pool, r.randrange(1, len(pool) + 1))
    a2 = [] if which in ("second", "both") else [r.choice(pool) for _ in range(r.randrange(1, 4))]
    pres = r.choice([False, True, None])
    if pres:
        a1 = sorted(a1, key=lambda v: key(k, v))
    return {"kind1": k, "kind2": k, "a1": a1, "a2": a2, "presorted": pres, "form1": "array", "form2": "array",
            "multi": r.random() < 0.4, "family": "empty-" + which + ("/string" if is_str(k) else "/number")}


KF_CLASS = "C06.kf_mixed_sign_above_2p53"
SIGNED = ("i1", "i2", "i4", "i8")
BIG = [2**53, 2**54, 2**55 + 2**54, 2**60, 2**62, 2**63 - 2048, 2**63, 2**63 + 2**62, 2**64 - 4096]
MIXED_VALUES = set()          # every integer that went through the promoted model in this run (round53 monitor)


def promoted(k1, k2):
    """numpy has no common integer type: np.searchsorted promotes the pair to float64"""
    return (k1 == "u8" and k2 in SIGNED) or (k2 == "u8" and k1 in SIGNED)


def py_kf(c):
    """Spec.kf_mixed_sign_above_2p53 on a case (python's int -> float is the same round-to-nearest-even; the run
    checks round53 against it on every value used: obligation `round53 agrees ...`)"""
    return promoted(c["kind1"], c["kind2"]) and any(int(float(int(v))) != int(v) for v in c["a1"] + c["a2"])


def gen_sign64_value(r, kind, mode):
    lo, hi = INT_KINDS[kind]
    if mode == "exact-small" or hi < 2**53:
        c = r.choice(["small", "edge"])
        v = r.randrange(-6, 12) if c == "small" else r.choice([2**53, 2**53 - 1, -(2**53), 2**31, 2**32 + 1, 127, -128, 255]) + r.randrange(-1, 1)
    elif mode == "exact-big":           # beyond 2^53 but a multiple of the binary64 spacing there
        b = r.choice(BIG)
        v = b + (1 << (b.bit_length() - 53)) * r.randrange(0, 6)
        if r.random() < 0.3:
            v = -v
    else:                               # clusters around a big base: neighbours that round to the same double
        b = r.choice(BIG)
        v = b + r.randrange(-3, 14) if r.random() < 0.8 else r.randrange(-5, 9)
        if kind == "i8" and r.random() < 0.2:
            v = -v
    return min(hi, max(lo, v))


def gen_mixed_sign64_case(r):
    ks = r.choice(["i8", "i8", "i8", "i8", "i4", "i1"])
    k1, k2 = ("u8", ks) if r.random() < 0.55 else (ks, "u8")
    mode = r.choice(["cluster", "cluster", "cluster", "exact-small", "exact-big"])
    n1, n2 = r.randrange(1, 8), r.randrange(1, 9)
    pool = {}
    for _ in range(80):
        v = gen_sign64_value(r, k1, mode)
        pool.setdefault(v, v)
        if len(pool) >= n1:
            break
    a1 = list(pool)
    r.shuffle(a1)
    a2 = []
    for _ in range(n2):
        c = r.random()
        if c < 0.5:
            v = r.choice(a1)                                   # the same value in the other kind
        elif c < 0.75 and mode == "cluster":
            v = r.choice(a1) + r.choice([-2, -1, 1, 2])        # a neighbour that may round to the same double
        else:
            v = gen_sign64_value(r, k2, mode)
        lo, hi = INT_KINDS[k2]
        a2.append(min(hi, max(lo, v)))
    presorted = r.choice([False, False, True, None])
    if presorted:
        a1.sort()
    elif r.random() < 0.2:
        a1.sort(reverse=r.random() < 0.5)
    c = {"kind1": k1, "kind2": k2, "a1": a1, "a2": a2, "presorted": presorted, "form1": "array", "form2": "array",
         "multi": r.random() < 0.3}
    c["family"] = "mixed-sign-64/%s%s%s" % ("in-class" if py_kf(c) else "outside-class", "/presorted" if presorted else "",
                                            "/multi" if c["multi"] else "")
    return c


def spell(kind, vals, form):
    import numpy as np
    if form == "array":
        return to_np(kind, vals)
    if form == "list":
        return to_np(kind, vals).tolist() if vals else []
    if form == "zerod":
        return np.array(to_np(kind, vals[:1])[0])
    return to_scalar(kind, vals[0], form == "pyscalar")


class MatchForms(Entry):
    """match / match_multi as called: argument forms, mixed kinds, empty arrays, presorted= omitted"""
    name = "match_forms"

    def cases(self, ctx, round=0):
        r = ctx.rng
        h = lambda x: float(x).hex()  # noqa
        cs = []
        if round == 0:
            base = {"presorted": False, "form1": "array", "form2": "array", "multi": False}
            hand = [
                {"kind1": "i8", "kind2": "f8", "a1": [3, 1, 2], "a2": [h(2.0), h(2.5), h(1.0), h(7.0), h(-1.0)], "family": "hand-mixed"},
                {"kind1": "f8", "kind2": "i8", "a1": [h(3.0), h(1.5), h(2.0)], "a2": [2, 3, 1, 7, -1], "family": "hand-mixed"},
                {"kind1": "i4", "kind2": "i8", "a1": [1, 2], "a2": [2**32 + 1, 2, 2**32 + 2], "family": "hand-mixed"},
                {"kind1": "u1", "kind2": "i8", "a1": [1, 255], "a2": [257, 255, -1, 1, 511], "family": "hand-mixed"},
                {"kind1": "i1", "kind2": "u8", "a1": [-1, 5], "a2": [255, 5, 2**53], "family": "hand-mixed"},
                {"kind1": "f4", "kind2": "f8", "a1": [h(0.10000000149011612), h(0.5)], "a2": [h(0.1), h(0.5), h(0.10000000149011612)], "family": "hand-mixed"},
                {"kind1": "U", "kind2": "S", "a1": [[97], [98]], "a2": [[97], [99]], "family": "hand-mixed"},
                {"kind1": "S", "kind2": "U", "a1": [[97], [98]], "a2": [[97], [99], [98]], "presorted": True, "family": "hand-mixed"},
                {"kind1": "i8", "kind2": "i8", "a1": [3, 1, 2], "a2": [], "family": "hand-empty"},
                {"kind1": "U", "kind2": "U", "a1": [[98], [97]], "a2": [], "family": "hand-empty"},
                {"kind1": "S", "kind2": "S", "a1": [[98], [97]], "a2": [], "multi": True, "family": "hand-empty"},
                {"kind1": "i8", "kind2": "i8", "a1": [], "a2": [1], "family": "hand-empty"},
                {"kind1": "i8", "kind2": "i8", "a1": [], "a2": [], "family": "hand-empty"},
                {"kind1": "i8", "kind2": "i8", "a1": [3], "a2": [3, 4, 3], "form1": "zerod", "family": "hand-forms"},
                {"kind1": "U", "kind2": "U", "a1": [[97, 98]], "a2": [[97, 98], [97, 98, 99]], "form1": "pyscalar", "family": "hand-forms"},
                {"kind1": "S", "kind2": "S", "a1": [[97, 98]], "a2": [[97, 98], [97, 98, 99]], "form1": "pyscalar", "form2": "list", "family": "hand-forms"},
                {"kind1": "i8", "kind2": "i8", "a1": [3, 1, 2], "a2": [2, 2, 9], "form1": "list", "form2": "list", "presorted": None, "family": "hand-forms"},
                {"kind1": "i8", "kind2": "i8", "a1": [3, 1, 2], "a2": [2], "form2": "pyscalar", "presorted": None, "multi": True, "family": "hand-forms"},
                {"kind1": "f8", "kind2": "f8", "a1": [h(1.5)], "a2": [h(1.5)], "form1": "zerod", "form2": "zerod", "presorted": True, "family": "hand-forms"},
            ]
            B = 2 ** 53
            hand += [
                # int against float beyond 2^53: numpy's == of the pair is equality of the promoted doubles
                {"kind1": "i8", "kind2": "f8", "a1": [B + 1, 7], "a2": [h(2.0**53), h(7.0), h(2.0**53 + 2)], "family": "hand-mixed/beyond-2p53"},
                {"kind1": "f8", "kind2": "i8", "a1": [h(2.0**53), h(7.0)], "a2": [B + 1, 7, B, B + 2], "family": "hand-mixed/beyond-2p53"},
                {"kind1": "u8", "kind2": "f8", "a1": [2**64 - 1, 2**63 + 1], "a2": [h(2.0**64), h(2.0**63), h(1.0)], "family": "hand-mixed/beyond-2p53"},
            ]
            for c in hand:
                cs.append(dict(base, **c))
        n = ctx.n(90, 900) if round == 0 else ctx.n(60, 300)
        for _ in range(n):
            cs.append(gen_mixed_numeric_case(r))
        for _ in range(n // 2):
            cs.append(gen_bytes_unicode_case(r))
        for _ in range(n):
            cs.append(gen_forms_case(r))
        for _ in range(n // 3):
            cs.append(gen_empty_case(r))
        return cs

    def impl(self, c):
        import esutil.numpy_util as nu
        fn = nu.match_multi if c["multi"] else nu.match

        def f():
            x1 = spell(c["kind1"], c["a1"], c["form1"])
            x2 = spell(c["kind2"], c["a2"], c["form2"])
            m1, m2 = fn(x1, x2) if c["presorted"] is None else fn(x1, x2, presorted=c["presorted"])
            return [[int(i) for i in m1], [int(i) for i in m2]]
        return core.guarded(f)

    def _coq_arrays(self, c):
        k1, k2 = c["kind1"], c["kind2"]
        if is_str(k1) and is_str(k2):
            if k1 == k2:
                return "vs", cvals(k1, c["a1"]), cvals(k2, c["a2"])
            tag = lambda k, v: "(%s, %s)" % (cbool(k == "U"), clist(list(v), cz))   # noqa
            return ("vt", "[" + "; ".join(tag(k1, v) for v in c["a1"]) + "]", "[" + "; ".join(tag(k2, v) for v in c["a2"]) + "]")
        if k1 == k2:
            return "vz", cvals(k1, c["a1"]), cvals(k2, c["a2"])
        if promoted(k1, k2):
            MIXED_VALUES.update(int(v) for v in c["a1"] + c["a2"])
            return "vm", clist([int(v) for v in c["a1"]], cz), clist([int(v) for v in c["a2"]], cz)
        af = mixed_float(k1, k2)
        return ("vz", clist([mkey(k1, v, af) for v in c["a1"]], cz), clist([mkey(k2, v, af) for v in c["a2"]], cz))

    def term(self, c, out):
        px, t1, t2 = self._coq_arrays(c)
        return "%s_matchx %s %s %s %s %s" % (px, cbool(bool(c["presorted"])), cbool(c["multi"]), t1, t2,
                                             cres(out, lambda o: "(%s, %s)" % (cnats(o[0]), cnats(o[1]))))

    def nontrivial(self, c, out):
        # a mixed pair / a non-array form / an omitted keyword in which something matches and something does not
        if not c["a1"] or not c["a2"]:
            return False
        special = c["kind1"] != c["kind2"] or c["form1"] != "array" or c["form2"] != "array" or c["presorted"] is None
        if not special or out[0] != "ok":
            return False
        if is_str(c["kind1"]) and is_str(c["kind2"]) and c["kind1"] != c["kind2"]:
            return len(c["a2"]) >= 2 and any(tuple(v) in set(map(tuple, c["a1"])) for v in c["a2"])   # equal spelling, other kind
        return 0 < len(out[1][1]) < len(c["a2"]) or (len(c["a2"]) == 1 and len(c["a1"]) >= 1)

    def classify(self, c, out, verdict):
        # the known class only when the implementation does exactly what the promoted model says (verdict 2: model =
        # implementation, full-statement checker rejects) on a pair that satisfies the class predicate
        if verdict == 2 and py_kf(c):
            return KF_CLASS
        return None

    def show(self, c):
        px, t1, t2 = self._coq_arrays(c)
        if px == "vm":
            return "show_match_mixed %s %s %s %s" % (cbool(bool(c["presorted"])), cbool(c["multi"]), t1, t2)
        o = {"vs": "lex_ltb lex_eqb true", "vz": "zltb zeqb false", "vt": "tag_ltb tag_eqb true"}[px]
        return "show_match %s %s %s %s %s" % (o, cbool(bool(c["presorted"])), cbool(c["multi"]), t1, t2)


MIXED64_CASES = {}


class MatchMixed64(MatchForms):
    """uint64 against a signed integer kind (numpy promotes the pair to float64 inside searchsorted): the promoted model,
    the FULL statement as checker; failing cases of the known class C06.kf_mixed_sign_above_2p53 are classified.  An entry
    of its own: the runner reports pure disagreements of an entry only when the entry has no failing case."""
    name = "match_mixed64"

    def cases(self, ctx, round=0):
        r = ctx.rng
        cs = []
        if round == 0:
            B = 2 ** 53
            base = {"presorted": False, "form1": "array", "form2": "array", "multi": False}
            hand = [
                {"kind1": "u8", "kind2": "i8", "a1": [B + 2, 5, B], "a2": [B, -1, B + 2, 5, B + 4], "family": "mixed-sign-64/outside-class"},
                {"kind1": "i8", "kind2": "u8", "a1": [-B, 5, B], "a2": [B, 2**63, 5], "presorted": True, "family": "mixed-sign-64/outside-class/presorted"},
                {"kind1": "u8", "kind2": "i8", "a1": [2**64 - 2048, 2**63, 7], "a2": [7, 2**63 - 1024, -2**63], "multi": True, "family": "mixed-sign-64/outside-class/multi"},
                {"kind1": "u8", "kind2": "i1", "a1": [2**64 - 1, 7, 2**63 + 1], "a2": [7, -1, 8], "family": "mixed-sign-64/in-class"},
                {"kind1": "u8", "kind2": "i8", "a1": [B, 3], "a2": [B + 1], "family": "mixed-sign-64/in-class"},
            ]
            cs += [dict(base, **c) for c in hand]
        for _ in range(ctx.n(140, 1400) if round == 0 else ctx.n(80, 400)):
            cs.append(gen_mixed_sign64_case(r))
        MIXED64_CASES[round] = [dict(c) for c in cs]
        return cs


class MatchMixed64Agree(MatchMixed64):
    """the same cases (plus the corpus witnesses), judged ONLY on model = implementation: inside the known class the
    implementation must do exactly what the promoted model predicts (C06_match_mixed_exact), and a deviation there must not be
    masked by the known failing cases of the sibling entry"""
    name = "match_mixed64_agree"

    def cases(self, ctx, round=0):
        from ..runner import corpus_cases
        cs = [dict(c) for c in MIXED64_CASES.get(round) or MatchMixed64.cases(self, ctx, round)]
        if round == 0:
            cs = [dict(c, family="corpus-agree") for c in corpus_cases(ctx.pid, "match_mixed64")] + cs
        for c in cs:
            c["entry"] = self.name
        return cs

    def term(self, c, out):
        return "(Z.land (%s) 1)" % MatchForms.term(self, c, out)

    def classify(self, c, out, verdict):
        return None


FLAG_STYLES = ["int-ties", "int-wide", "float", "constant", "increasing", "decreasing", "bool", "u1", "i1-neg", "plateau", "u8-extreme",
               "i8-extreme"]


def gen_flags2(r, n):
    """flags with their numpy dtype: -> (dtype, values as python ints / float.hex())"""
    st = r.choice(FLAG_STYLES)
    if st == "bool":
        return "?", [r.randrange(0, 2) for _ in range(n)]
    if st == "u1":
        return "u1", [r.choice([0, 1, 254, 255, 128]) for _ in range(n)]
    if st == "i1-neg":
        return "i1", [r.choice([-128, -1, 0, 1, 127]) for _ in range(n)]
    if st == "u8-extreme":       # unsigned flags around 0 / 2^63 / 2^64-1 (negating or casting them wraps)
        return "u8", [r.choice([0, 1, 2**63 - 1, 2**63, 2**63 + 1, 2**64 - 2, 2**64 - 1]) for _ in range(n)]
    if st == "i8-extreme":       # iinfo.min has no negative
        return "i8", [r.choice([-2**63, -2**63 + 1, -1, 0, 1, 2**63 - 2, 2**63 - 1]) for _ in range(n)]
    if st == "plateau":          # several indices share the largest flag: the tie rule decides
        return "i8", [r.choice([3, 3, 3, 1]) for _ in range(n)]
    fl = gen_flags(r, n) if st in ("int-ties", "int-wide", "float", "constant", "increasing", "decreasing") else [0] * n
    return ("f8" if any(isinstance(f, str) for f in fl) else "i8"), fl


def flags_np2(dtype, flags):
    import numpy as np
    if dtype == "f8":
        return np.array([float.fromhex(f) if isinstance(f, str) else float(f) for f in flags], dtype="f8")
    return np.array([int(f) for f in flags], dtype=dtype)


class UniqueCall(Entry):
    """unique(arr, values=) with its complete return value; 0-d arrays; values= omitted"""
    name = "unique_call"

    def cases(self, ctx, round=0):
        r = ctx.rng
        cs = []
        if round == 0:
            for a, v, z in (([5, 1, 5], True, False), ([5, 1, 5], None, False), ([7], False, True), ([7], True, True), ([7], None, False),
                            ([2, 2, 1, 1, 3, 3], True, False), ([], True, False)):
                cs.append({"kind": "i8", "a": a, "values": v, "zero_d": z, "family": "hand"})
            cs.append({"kind": "U", "a": [[98], [97], [98]], "values": True, "zero_d": False, "family": "hand"})
            cs.append({"kind": "S", "a": [[98]], "values": True, "zero_d": True, "family": "hand"})
        for _ in range(ctx.n(200, 2000) if round == 0 else ctx.n(100, 500)):
            kind, a, fam = gen_dedup_array(r, ctx.n(10, 30))
            z = r.random() < 0.08
            cs.append({"kind": kind, "a": a[:1] if z else a, "values": r.choice([True, True, False, None]), "zero_d": z,
                       "family": ("zero-d/" if z else "") + fam})
        return cs

    def _arr(self, c):
        import numpy as np
        arr = to_np(c["kind"], c["a"])
        return np.array(arr[0]) if c["zero_d"] else arr

    def impl(self, c):
        import numpy as np
        import esutil.numpy_util as nu
        arr = self._arr(c)
        s = [int(i) for i in np.atleast_1d(arr.argsort())]

        def f():
            res = nu.unique(arr) if c["values"] is None else nu.unique(arr, values=c["values"])
            res = np.atleast_1d(res)
            if arr.dtype != np.dtype("i8"):
                is_vals = res.dtype == arr.dtype                 # keep[] is always int64
            elif c["values"] is not None:
                is_vals = bool(c["values"])
            else:
                # int64 input, keyword omitted: the result is values iff it is what values=True returns and not what
                # values=False returns (only the tag of the answer is decided this way, never its content)
                rt, rf = np.atleast_1d(nu.unique(arr, values=True)), np.atleast_1d(nu.unique(arr, values=False))
                is_vals = np.array_equal(res, rt) and not np.array_equal(res, rf)
            if not is_vals and any(int(i) < 0 for i in res):
                is_vals = True                                   # an index is never negative
            return {"vals": from_np(c["kind"], res)} if is_vals else {"idx": [int(i) for i in res]}
        return {"argsort": s, "result": core.guarded(f)}

    def term(self, c, out):
        k = c["kind"]
        pr = lambda o: ("(UVals %s)" % cvals(k, o["vals"])) if "vals" in o else ("(UIdx %s)" % cnats(o["idx"]))   # noqa
        return "%s_unique_call %s %s %s %s %s" % (pfx(k), cbool(c["zero_d"]), cnats(out["argsort"]), cvals(k, c["a"]),
                                                  cbool(bool(c["values"])), cres(out["result"], pr))

    def nontrivial(self, c, out):
        return (not c["zero_d"]) and _repeated_not_first(c["kind"], c["a"])

    def show(self, c):
        import numpy as np
        k = c["kind"]
        o = "lex_ltb lex_eqb" if is_str(k) else "zltb zeqb"
        s = [int(i) for i in np.atleast_1d(self._arr(c).argsort())]
        return "show_calls %s %s %s %s %s %s" % (o, cbool(c.get("zero_d", False)), cnats(s), cvals(k, c["a"]),
                                                clist(flag_keys2(c), cz), cbool(bool(c["values"])))


def flag_keys2(c):
    if "flag" not in c:
        return [0] * len(c["a"])
    return [fkey(float.fromhex(f)) if isinstance(f, str) else (fkey(float(f)) if c.get("fdtype") == "f8" else int(f)) for f in c["flag"]]


class RemDupCall(UniqueCall):
    """rem_dup(arr, flag, values=) with its complete return value: python scalar for n == 1 (also 0-d), values; flag dtypes"""
    name = "rem_dup_call"

    def cases(self, ctx, round=0):
        r = ctx.rng
        cs = []
        if round == 0:
            hand = [([5], [1], "i8", True, False), ([5], [1], "i8", None, False), ([5], [1], "i8", False, True), ([5], [1], "i8", True, True),
                    ([5, 1, 5, 5], [3, 2, 3, 1], "i8", True, False), ([5, 1, 5, 5], [1, 0, 1, 1], "?", False, False),
                    ([2, 2, 2, 2], [0, 5, 5, 1], "i8", None, False), ([1, 1, 2], [1, 2, 3, 4], "i8", False, False),
                    ([1, 1, 2], [1, 2], "i8", False, False), ([], [], "i8", True, False), ([4, 4], [255, 254], "u1", True, False)]
            for a, fl, dt, v, z in hand:
                cs.append({"kind": "i8", "a": a, "flag": fl, "fdtype": dt, "values": v, "zero_d": z, "family": "hand"})
        for _ in range(ctx.n(200, 2000) if round == 0 else ctx.n(100, 500)):
            kind, a, fam = gen_dedup_array(r, ctx.n(10, 30))
            z = r.random() < 0.06
            if z:
                a = a[:1]
            dt, fl = gen_flags2(r, len(a))
            if not z and r.random() < 0.04:
                fl = fl + fl[:1] + [fl[0]]                      # a flag array longer than needed is read by position only
                fam += "/long-flag"
            cs.append({"kind": kind, "a": a, "flag": fl, "fdtype": dt, "values": r.choice([True, False, False, None]), "zero_d": z,
                       "family": ("zero-d/" if z else "") + fam})
        return cs

    def impl(self, c):
        import numpy as np
        import esutil.numpy_util as nu
        arr = self._arr(c)
        fl = flags_np2(c["fdtype"], c["flag"])
        if c["zero_d"]:
            fl = np.array(fl[0])
        s = [int(i) for i in np.atleast_1d(arr.argsort())]

        def f():
            res = nu.rem_dup(arr, fl) if c["values"] is None else nu.rem_dup(arr, fl, values=c["values"])
            vals = None
            if isinstance(res, tuple):
                res, vals = res
                vals = from_np(c["kind"], np.atleast_1d(vals))
            scalar = not isinstance(res, np.ndarray)
            return {"scalar": scalar, "idx": [int(i) for i in np.atleast_1d(res)], "vals": vals}
        return {"argsort": s, "result": core.guarded(f)}

    def term(self, c, out):
        k = c["kind"]
        pr = lambda o: "(%s, %s, %s)" % (cbool(o["scalar"]), cnats(o["idx"]),   # noqa
                                         "None" if o["vals"] is None else "(Some %s)" % cvals(k, o["vals"]))
        return "%s_rem_dup_call %s %s %s %s %s" % (pfx(k), cnats(out["argsort"]), cvals(k, c["a"]), clist(flag_keys2(c), cz),
                                                   cbool(bool(c["values"])), cres(out["result"], pr))

    def nontrivial(self, c, out):
        # a value repeated >= 3 times not starting at index 0 (the running maximum matters)
        ks = [key(c["kind"], v) for v in c["a"]]
        return any(ks.count(k) >= 3 and ks.index(k) > 0 for k in set(ks))


# ----------------------------------------------------------------------------
# round 3: HISTORY - several calls in ONE process on the same array OBJECTS, contents changed in place between calls
# (a result remembered from an earlier call - keyed by object identity, by id() of a dead temporary, by length / first /
# last element / sum - must not leak into a later call).  Every call of a sequence is judged as usual (model =
# implementation?  verified checker) on the contents the arrays have AT THAT CALL, and against the same call repeated
# at the end of the sequence on fresh copies of those contents.
# ----------------------------------------------------------------------------

MUT_OPS = ("perm", "replace", "sort", "reverse", "negate", "swap-inner", "rebind-equal", "rebind-new", "rotate")


def gen_history_case(r, quick=True):
    kind = r.choice(ALL_KINDS)
    rng = r.choice(["small", "small", "large"])
    pool = gen_pool(r, kind, rng, 12)
    if len(pool) < 5:
        kind, rng = "i8", "small"
        pool = gen_pool(r, kind, rng, 12)
    n = r.randrange(2, min(7, len(pool) - 1) + 1)
    A = r.sample(pool, n)
    pick = lambda m: [r.choice(pool) for _ in range(m)]   # noqa
    B = pick(r.randrange(1, 7))
    D = pick(r.randrange(2, 9))
    dt, F = gen_flags2(r, len(D))
    steps = []
    focus = r.choice(["match", "match", "match", "dedup", "both"])
    numeric_signed = kind in FLOAT_KINDS or (kind in INT_KINDS and INT_KINDS[kind][0] < 0)

    def mutate(ref, length):
        ops = ["perm", "replace", "sort", "reverse", "swap-inner", "rebind-equal", "rebind-new", "rotate"] + (["negate"] if numeric_signed else [])
        if ref == "A":
            ops += ["dup", "dup"]          # a repeated value written into the (so far distinct) first array: must be rejected now
        op = r.choice(ops)
        st = {"op": op, "ref": ref}
        if op in ("replace", "rebind-new"):
            st["vals"] = r.sample(pool, length) if (ref == "A" and r.random() < 0.9 and length <= len(pool)) else pick(length)
        if op in ("perm", "dup"):
            st["seed"] = r.randrange(10**6)
        return st

    def mcall(presorted_ok):
        fn = r.choice(["match", "match", "match_multi"])
        pres = r.choice([False, False, None, True]) if (presorted_ok or fn == "match_multi") else r.choice([False, False, None])
        return {"op": fn, "a1": "A", "a2": "B", "presorted": pres}

    if focus in ("match", "both"):
        steps.append(mcall(False))
        for _ in range(r.randrange(2, 5)):
            c = r.random()
            if c < 0.7:
                st = mutate("A", n)
                steps.append(st)
                steps.append(mcall(st["op"] == "sort"))
            elif c < 0.85:
                steps.append(mutate("B", len(B)))
                steps.append(mcall(False))
            else:
                # two calls on temporaries of equal length created inline and dropped (id() of a dead object is reused)
                steps.append({"op": "temp-match", "a1": r.sample(pool, n), "a2": pick(len(B)), "multi": r.random() < 0.3})
                steps.append({"op": "temp-match", "a1": r.sample(pool, n), "a2": pick(len(B)), "multi": r.random() < 0.3})
        if r.random() < 0.3:
            steps.append(mcall(False))                      # the same call twice in a row, nothing changed
    if focus in ("dedup", "both"):
        for _ in range(r.randrange(2, 4)):
            steps.append({"op": r.choice(["unique", "rem_dup"]), "arr": "D", "flag": "F", "values": r.choice([False, True, None])})
            if r.random() < 0.75:
                steps.append(mutate("D", len(D)))
            else:
                st = {"op": r.choice(["replace", "reverse", "sort", "perm"]), "ref": "F"}
                if st["op"] == "replace":
                    if dt == "f8":
                        st["flags"] = [float(r.choice([r.uniform(-3, 3), r.randrange(-2, 3) / 2.0, 0.0, -0.0])).hex() for _ in D]
                    elif dt in ("?", "u1", "i1", "u8"):
                        st["flags"] = [r.randrange(0, 2) for _ in D]
                    else:
                        st["flags"] = [r.choice([r.randrange(-2, 3), 3, 3]) for _ in D]
                if st["op"] == "perm":
                    st["seed"] = r.randrange(10**6)
                steps.append(st)
        steps.append({"op": r.choice(["unique", "rem_dup"]), "arr": "D", "flag": "F", "values": r.choice([False, True])})
    if r.random() < 0.5:                                    # aliasing / ownership: the caller scribbles over RETURNED arrays
        out_steps = []
        for st in steps:
            out_steps.append(st)
            if st["op"] in ("match", "match_multi", "unique", "rem_dup") and r.random() < 0.5:
                out_steps.append({"op": "scribble", "how": r.choice(["zero", "reverse"])})
            elif st["op"] in ("match", "match_multi") and kind == "i8" and r.random() < 0.4:
                out_steps.append({"op": "match-ret"})
        steps = out_steps
        focus += "+alias"
    return {"kind": kind, "A": A, "B": B, "D": D, "F": F, "fdtype": dt, "steps": steps, "family": "history/%s/%s" % (
        focus, "int" if kind in INT_KINDS else ("float" if kind in FLOAT_KINDS else "string"))}


class History(Entry):
    name = "history"

    def cases(self, ctx, round=0):
        r = ctx.rng
        cs = []
        if round == 0:
            # the catalogue pattern: one first-array object, matched, changed in place, matched again
            for kind, A, A2, B in (("i8", [3, 1, 2], [2, 3, 1], [2, 2, 7, 1]), ("U", [[98], [97], [99]], [[99], [98], [97]], [[97], [99]]),
                                   ("f8", [float(x).hex() for x in (1.5, -2.0, 3.25)], [float(x).hex() for x in (3.25, 1.5, -2.0)],
                                    [float(x).hex() for x in (-2.0, 9.0, 3.25)])):
                cs.append({"kind": kind, "A": A, "B": B, "D": A + A[:1], "F": [1, 2, 3, 0], "fdtype": "i8", "family": "history/hand",
                           "steps": [{"op": "match", "a1": "A", "a2": "B", "presorted": False},
                                     {"op": "replace", "ref": "A", "vals": A2},
                                     {"op": "match", "a1": "A", "a2": "B", "presorted": False},
                                     {"op": "sort", "ref": "A"},
                                     {"op": "match", "a1": "A", "a2": "B", "presorted": None},
                                     {"op": "match_multi", "a1": "A", "a2": "B", "presorted": True},
                                     {"op": "reverse", "ref": "A"},
                                     {"op": "match_multi", "a1": "A", "a2": "B", "presorted": True},
                                     {"op": "unique", "arr": "D", "flag": "F", "values": False},
                                     {"op": "rem_dup", "arr": "D", "flag": "F", "values": True},
                                     {"op": "reverse", "ref": "D"},
                                     {"op": "unique", "arr": "D", "flag": "F", "values": True},
                                     {"op": "rem_dup", "arr": "D", "flag": "F", "values": False},
                                     {"op": "reverse", "ref": "F"},
                                     {"op": "rem_dup", "arr": "D", "flag": "F", "values": None}]})
            cs.append({"kind": "i8", "A": [4, 9, 6], "B": [9, 4, 5], "D": [1, 1], "F": [0, 1], "fdtype": "i8", "family": "history/hand",
                       "steps": [{"op": "match", "a1": "A", "a2": "B", "presorted": False}, {"op": "dup", "ref": "A", "seed": 1},
                                 {"op": "match", "a1": "A", "a2": "B", "presorted": False}, {"op": "match_multi", "a1": "A", "a2": "B", "presorted": None},
                                 {"op": "replace", "ref": "A", "vals": [6, 4, 9]}, {"op": "match", "a1": "A", "a2": "B", "presorted": None}]})
        for _ in range(ctx.n(160, 1500) if round == 0 else ctx.n(80, 400)):
            cs.append(gen_history_case(r))
        return cs

    # ---- the real code, one process, the same objects
    def impl(self, c):
        import random as _random
        import numpy as np
        import esutil.numpy_util as nu
        k = c["kind"]
        slot = {"A": to_np(k, c["A"]), "B": to_np(k, c["B"]), "D": to_np(k, c["D"]), "F": flags_np2(c["fdtype"], c["F"])}
        if is_str(k):          # room for every value of the case, so that in-place assignment does not truncate
            w = max([len(v) for key_ in ("A", "B", "D") for v in c[key_]] +
                    [len(v) for st in c["steps"] for v in (st.get("vals") or []) + (st.get("a1") if st["op"] == "temp-match" else [])
                     + (st.get("a2") if st["op"] == "temp-match" else [])] + [1])
            for key_ in ("A", "B", "D"):
                slot[key_] = slot[key_].astype("%s%d" % (k, w))
        calls, later = [], []

        def fl_vals(arr):
            return [float(x).hex() for x in arr.tolist()] if arr.dtype.kind == "f" else [int(x) for x in arr.tolist()]

        last_ret = []                                       # numpy arrays RETURNED by the most recent call

        def do_match(fn, x1, x2, pres):
            m1, m2 = fn(x1, x2) if pres is None else fn(x1, x2, presorted=pres)
            out = [[int(i) for i in m1], [int(i) for i in m2]]
            last_ret[:] = [m1, m2]
            return out

        def do_unique(arr, values):
            res0 = nu.unique(arr) if values is None else nu.unique(arr, values=values)
            res = np.atleast_1d(res0)
            last_ret[:] = [res0] if isinstance(res0, np.ndarray) else []
            if arr.dtype != np.dtype("i8"):
                is_vals = res.dtype == arr.dtype
            else:
                is_vals = bool(values)
            if not is_vals and any(int(i) < 0 for i in res):
                is_vals = True
            return {"vals": from_np(k, res)} if is_vals else {"idx": [int(i) for i in res]}

        def do_rem_dup(arr, fl, values):
            res = nu.rem_dup(arr, fl) if values is None else nu.rem_dup(arr, fl, values=values)
            vals = None
            last_ret[:] = []
            if isinstance(res, tuple):
                res, vals = res
                vals = from_np(k, np.atleast_1d(vals))
            out = {"scalar": not isinstance(res, np.ndarray), "idx": [int(i) for i in np.atleast_1d(res)], "vals": vals}
            if isinstance(res, np.ndarray):
                last_ret[:] = [res]
            return out

        for i, st in enumerate(c["steps"]):
            op = st["op"]
            if op in ("match", "match_multi"):
                fn = nu.match_multi if op == "match_multi" else nu.match
                x1, x2 = slot[st["a1"]], slot[st["a2"]]
                rec = {"step": i, "fn": op, "a1": from_np(k, x1), "a2": from_np(k, x2), "presorted": st["presorted"]}
                c1, c2 = x1.copy(), x2.copy()
                rec["out"] = core.guarded(do_match, fn, x1, x2, st["presorted"])
                later.append((rec, lambda fn=fn, c1=c1, c2=c2, p=st["presorted"]: core.guarded(do_match, fn, c1, c2, p)))
                calls.append(rec)
            elif op == "temp-match":
                fn = nu.match_multi if st["multi"] else nu.match
                rec = {"step": i, "fn": "match_multi" if st["multi"] else "match", "a1": st["a1"], "a2": st["a2"], "presorted": False}
                rec["out"] = core.guarded(lambda: do_match(fn, to_np(k, st["a1"]), to_np(k, st["a2"]), False))
                calls.append(rec)
            elif op == "unique":
                arr = slot[st["arr"]]
                rec = {"step": i, "fn": "unique", "a": from_np(k, arr), "values": st["values"],
                       "argsort": [int(j) for j in arr.copy().argsort()]}
                ca = arr.copy()
                rec["out"] = core.guarded(do_unique, arr, st["values"])
                later.append((rec, lambda ca=ca, v=st["values"]: core.guarded(do_unique, ca, v)))
                calls.append(rec)
            elif op == "rem_dup":
                arr, fl = slot[st["arr"]], slot[st["flag"]]
                rec = {"step": i, "fn": "rem_dup", "a": from_np(k, arr), "flag": fl_vals(fl), "values": st["values"],
                       "argsort": [int(j) for j in arr.copy().argsort()]}
                ca, cf = arr.copy(), fl.copy()
                rec["out"] = core.guarded(do_rem_dup, arr, fl, st["values"])
                later.append((rec, lambda ca=ca, cf=cf, v=st["values"]: core.guarded(do_rem_dup, ca, cf, v)))
                calls.append(rec)
            elif op == "scribble":
                # the caller owns what was returned: overwrite the returned arrays in place (a result that is a view of an
                # argument or of something the module keeps would corrupt the next call)
                for arr_ in last_ret:
                    if isinstance(arr_, np.ndarray) and arr_.flags.writeable and arr_.size and not any(arr_ is v for v in slot.values()):
                        if arr_.dtype.kind in "iuf":
                            arr_[...] = arr_[::-1].copy() if st.get("how") == "reverse" else 0
                        else:
                            arr_[...] = arr_[::-1].copy()
            elif op == "match-ret":
                # a RETURNED index array used as the second argument of the next call (int64 kinds only)
                if k == "i8" and last_ret and isinstance(last_ret[0], np.ndarray) and last_ret[0].dtype == np.dtype("i8") and last_ret[0].size:
                    x1, x2 = slot["A"], last_ret[0]
                    rec = {"step": i, "fn": "match", "a1": from_np(k, x1), "a2": from_np(k, x2), "presorted": False}
                    c1, c2 = x1.copy(), x2.copy()
                    rec["out"] = core.guarded(do_match, nu.match, x1, x2, False)
                    later.append((rec, lambda c1=c1, c2=c2: core.guarded(do_match, nu.match, c1, c2, False)))
                    calls.append(rec)
            else:                                           # a change of an argument object between calls
                ref = st["ref"]
                x = slot[ref]
                if op == "perm":
                    p = list(range(x.size))
                    _random.Random(st["seed"]).shuffle(p)
                    x[:] = x[p]
                elif op == "replace":
                    x[:] = flags_np2(c["fdtype"], st["flags"]) if ref == "F" else to_np(k, st["vals"])
                elif op == "sort":
                    x.sort()
                elif op == "reverse":
                    x[:] = x[::-1].copy()
                elif op == "rotate":
                    x[:] = np.roll(x, 1)
                elif op == "negate":
                    np.negative(x, out=x)
                elif op == "dup":
                    if x.size >= 2:
                        i_, j_ = _random.Random(st["seed"]).sample(range(x.size), 2)
                        x[j_] = x[i_]
                elif op == "swap-inner":
                    if x.size >= 4:
                        x[[1, x.size - 2]] = x[[x.size - 2, 1]]
                    elif x.size >= 2:
                        x[[0, 1]] = x[[1, 0]]
                elif op == "rebind-equal":
                    slot[ref] = x.copy()                    # a different object with equal contents
                elif op == "rebind-new":
                    slot[ref] = to_np(k, st["vals"]).astype(x.dtype)
        # the same calls once more, alone: fresh copies of the contents each call saw (independence of history)
        for rec, again in later:
            rec["fresh"] = again()
        return {"calls": calls}

    def _call_term(self, k, rec):
        px = pfx(k)
        out = rec["out"]
        if rec["fn"] in ("match", "match_multi"):
            return "%s_matchx %s %s %s %s %s" % (px, cbool(bool(rec["presorted"])), cbool(rec["fn"] == "match_multi"), cvals(k, rec["a1"]),
                                                 cvals(k, rec["a2"]), cres(out, lambda o: "(%s, %s)" % (cnats(o[0]), cnats(o[1]))))
        if rec["fn"] == "unique":
            pr = lambda o: ("(UVals %s)" % cvals(k, o["vals"])) if "vals" in o else ("(UIdx %s)" % cnats(o["idx"]))   # noqa
            return "%s_unique_call false %s %s %s %s" % (px, cnats(rec["argsort"]), cvals(k, rec["a"]), cbool(bool(rec["values"])), cres(out, pr))
        pr = lambda o: "(%s, %s, %s)" % (cbool(o["scalar"]), cnats(o["idx"]),   # noqa
                                         "None" if o["vals"] is None else "(Some %s)" % cvals(k, o["vals"]))
        fk = [fkey(float.fromhex(f)) if isinstance(f, str) else int(f) for f in rec["flag"]]
        return "%s_rem_dup_call %s %s %s %s %s" % (px, cnats(rec["argsort"]), cvals(k, rec["a"]), clist(fk, cz), cbool(bool(rec["values"])),
                                                  cres(out, pr))

    def term(self, c, out):
        k = c["kind"]
        ts = []
        for rec in out["calls"]:
            ts.append(self._call_term(k, rec))
            if "fresh" in rec and list(rec["fresh"])[:2] != list(rec["out"])[:2]:
                ts.append("1%Z")                            # differs from the same call made alone on fresh copies
        return "(fold_right Z.lor 0%%Z [%s])" % "; ".join(ts)

    def nontrivial(self, c, out):
        # some object was passed again after its contents were changed in place, and some match call matched partly
        seen, changed_then_reused = set(), False
        dirty = set()
        for st in c["steps"]:
            if st["op"] in ("match", "match_multi"):
                if st["a1"] in dirty or st["a2"] in dirty:
                    changed_then_reused = True
                seen.update([st["a1"], st["a2"]])
            elif st["op"] in ("unique", "rem_dup"):
                if st["arr"] in dirty or st["flag"] in dirty:
                    changed_then_reused = True
                seen.update([st["arr"], st["flag"]])
            elif st["op"] in ("perm", "replace", "sort", "reverse", "rotate", "negate", "swap-inner", "dup") and st.get("ref") in seen:
                dirty.add(st["ref"])
        return changed_then_reused and len(out["calls"]) >= 2

    def show(self, c):
        return None


class Scale(Entry):
    """scale thresholds that are still legal: a second array of more than 2^16 elements (blocked processing with a remainder).
    Judging 65 573 probes at once in Coq is quadratic in the checker, so the big call is compared (in python) with the
    concatenation of the same call on consecutive blocks of 64 probes (position offsets added), and every BLOCK is judged in
    Coq as usual (model = implementation, verified checker); first arrays of 1..9 elements and one of 300."""
    name = "scale"
    BLOCK = 64

    def cases(self, ctx, round=0):
        r = ctx.rng
        cs = []
        if round > 0:
            return cs
        for j in range(ctx.n(1, 3)):
            kind = ["i8", "U", "f8", "u2", "S", "i4"][j % 6]
            pool = gen_pool(r, kind, "small" if j % 2 == 0 else "large", 14)
            if len(pool) < 4:
                kind = "i8"
                pool = gen_pool(r, kind, "small", 14)
            a1 = r.sample(pool, r.randrange(1, min(9, len(pool) - 1) + 1))
            total = 2 ** 16 + r.randrange(1, 300)
            cs.append({"kind": kind, "a1": a1, "pool": pool, "n2": total, "seed": r.randrange(10**6), "presorted": j % 3 == 2,
                       "multi": j % 4 == 3, "family": "scale/second-array>2^16/%s" % ("string" if is_str(kind) else "number")})
        return cs

    def _a2(self, c):
        import random as _random
        rr = _random.Random(c["seed"])
        return [rr.choice(c["pool"]) for _ in range(c["n2"])]

    def impl(self, c):
        import esutil.numpy_util as nu
        k = c["kind"]
        a1 = sorted(c["a1"], key=lambda v: key(k, v)) if c["presorted"] else c["a1"]
        a2 = self._a2(c)
        fn = nu.match_multi if c["multi"] else nu.match
        x1 = to_np(k, a1)
        w2 = to_np(k, a2)

        def call(x2):
            m1, m2 = fn(x1, x2, presorted=c["presorted"])
            return [[int(i) for i in m1], [int(i) for i in m2]]
        big = core.guarded(call, w2)
        blocks = []
        for off in range(0, len(a2), self.BLOCK):
            blocks.append(core.guarded(call, w2[off:off + self.BLOCK].copy()))
        same = big[0] == "ok" and all(b[0] == "ok" for b in blocks)
        if same:
            cat1, cat2 = [], []
            for bi, b in enumerate(blocks):
                cat1 += b[1][0]
                cat2 += [j + bi * self.BLOCK for j in b[1][1]]
            same = (cat1 == big[1][0] and cat2 == big[1][1])
        return {"a1": a1, "blocks": blocks, "big_equals_blocks": bool(same), "n_matched": len(big[1][1]) if big[0] == "ok" else -1}

    def term(self, c, out):
        k = c["kind"]
        a2 = self._a2(c)
        ts = []
        for bi, b in enumerate(out["blocks"]):
            blk = a2[bi * self.BLOCK:(bi + 1) * self.BLOCK]
            ts.append("%s_matchx %s %s %s %s %s" % (pfx(k), cbool(c["presorted"]), cbool(c["multi"]), cvals(k, out["a1"]), cvals(k, blk),
                                                   cres(b, lambda o: "(%s, %s)" % (cnats(o[0]), cnats(o[1])))))
        if not out["big_equals_blocks"]:
            ts.append("3%Z")          # the call on > 2^16 probes is not the concatenation of its blocks: some block-correct pair is missing/extra
        return "(fold_right Z.lor 0%%Z [%s])" % "; ".join(ts)

    def nontrivial(self, c, out):
        return 0 < out["n_matched"] < c["n2"]


ENTRIES = [Match(), MatchMulti(), MatchForms(), MatchMixed64(), MatchMixed64Agree(), Unique(), UniqueValues(), UniqueCall(), RemDup(), RemDupValues(), RemDupCall(), History(), Scale()]

TRUSTED = [
    "Coq 8.16.1 kernel (coqc, vm_compute; no native_compute); all C06 theorems are closed under the global context (no axioms)",
    "hand-written model C06/Model.v + Forms.v of numpy_util.match/match_multi/unique/rem_dup, generic over a decidable total order; tied to "
    "the tree under check (a) by C06/Gen.v, regenerated from esutil/numpy_util.py on every run, and the theorems C06_tie_* / C06_source_* "
    "(skeleton at the regenerated parameters = model), (b) by the correspondence run (differential testing, bounded by the generators)",
    "translator harness/props/c06_translate.py (python ast, line-by-line template match of the four function bodies, fail-closed): trusted "
    "to print into Gen.v the operators, constants, polarities, defaults, exception classes it read; Skel.v is a hand-written reading of what "
    "each of them means (the statements whose shape is fixed by the template are modelled by Model.v, not regenerated)",
    "modelled, not verified: numpy fancy indexing, np.where, ==, max, np.unique(a).size (number of distinct values), np.searchsorted(side=left) "
    "as the number of strictly smaller elements of a SORTED array (presorted=True is therefore only modelled for a sorted first array), "
    "np.atleast_1d (every argument form becomes the 1-d array of its elements), numpy's promotion of mixed numeric kinds (exact: mixed pairs "
    "are generated with integers within +-2^53), U == S elementwise False and the ASCII cast of bytes in searchsorted (mixed string pairs "
    "are generated with ASCII bytes only)",
    "assumed with run-time contract monitor: numpy argsort returns a sorting permutation (checked on every unique/rem_dup case by the verified "
    "sorting_perm_check; the harness obtains it by calling arr.argsort() on the same array); for match the model computes its own argsort "
    "(unique on distinct values)",
    "element encodings of the harness: floats enter Coq through a monotone embedding into Z (IEEE bit pattern, -0.0 = 0.0, no NaN), "
    "strings as code-point lists without NUL (numpy's comparison of padded strings is lexicographic on code points), bytes-vs-unicode pairs "
    "as (kind, code points)",
    "python harness (harness/props/C06.py), literal printers, coqc evaluating Exec.v verdict terms",
]

_Z = re.compile(r"-?\d+")


def _zlist(txt):
    return [int(x) for x in _Z.findall(txt.replace("%Z", ""))]


GEN_FUNS = {
    "match": "(fun a1 a2 => match_g zltb zeqb gen_match ClsNum (mp_presorted_default gen_match) (argsort zltb a1) a1 a2)",
    "match_str": "(fun a1 a2 => match_g zltb zeqb gen_match ClsStr false (argsort zltb a1) a1 a2)",
    "match_pre": "(when_sorted (fun a1 a2 => match_g zltb zeqb gen_match ClsNum true (argsort zltb a1) a1 a2))",
    "match_multi": "(fun a1 a2 => match_multi_g zltb zeqb gen_match_multi gen_match ClsNum true (argsort zltb a1) a1 a2)",
    "unique": "(fun s a => match unique_call_g zltb zeqb gen_unique false s a (up_values_default gen_unique) with "
              "Ok (UIdx k) => Ok k | Ok (UVals _) => Err EOther | Err e => Err e end)",
    "unique_values": "(fun s a => match unique_call_g zltb zeqb gen_unique false s a true with "
                     "Ok (UVals v) => Ok v | Ok (UIdx _) => Err EOther | Err e => Err e end)",
    "rem_dup": "(fun s a fl => match rem_dup_call_g zltb zeqb gen_rem_dup s a fl (rp_values_default gen_rem_dup) with "
               "Ok (_, k, _) => Ok k | Err e => Err e end)",
}


def gen_sweeps(ctx, big):
    """The regenerated definitions against the specification INSIDE Coq over a small scope (DESIGN 5.2): every array over a
    3-letter alphabet (5 for match: the first array needs distinct values) up to length 4 (quick) / 5 (thorough).  A failing
    input of the skeleton at Gen.v becomes a case of the real implementation (EXTRA)."""
    km, nm, nd = (5, 5, 5) if big else (4, 4, 4)
    terms = [("match", "match_cex_f %s %d %d %d" % (GEN_FUNS["match"], km, nm, 4 if big else 3)),
             ("match", "match_cex_f %s 3 %d %d" % (GEN_FUNS["match"], nm, nm)),
             ("match", "match_cex_f %s 3 %d %d" % (GEN_FUNS["match_str"], nm, nm)),
             ("match", "match_cex_f %s 3 %d %d" % (GEN_FUNS["match_pre"], nm, nm)),
             ("match", "match_cex_f %s 3 %d %d" % (GEN_FUNS["match_multi"], nm, nm)),
             ("unique", "unique_cex_f %s 3 %d" % (GEN_FUNS["unique"], nd + 1)),
             ("unique", "if unique_values_sweep_f %s 3 %d then [] else [0]" % (GEN_FUNS["unique_values"], nd)),
             ("rem_dup", "rem_dup_cex_f %s 3 3 %d" % (GEN_FUNS["rem_dup"], nd))]
    try:
        vals = core.coq_eval(ctx.work + "/gensweep", PRE_GEN, [t for _, t in terms], ty="list Z", shard=1, tag="gensweep")
    except core.CoqEvalError as e:
        ctx.obligation("small-scope evaluation of the regenerated definitions (Skel.v at Gen.v)", False, str(e)[-400:])
        ctx.violation("the regenerated definitions (Skel.v at Gen.v) do not evaluate in Coq",
                      {"kind": "gen-sweep", "error": str(e)[-2000:]}, found_input=False)
        return
    names = ["match default keywords, 5 letters", "match 3 letters", "match string class (always clamped)", "match presorted=True (sorted first array)",
             "match_multi presorted=True", "unique", "unique values=True", "rem_dup (flags over 3 values)"]
    for (what, t), v, nm_ in zip(terms, vals, names):
        z = _zlist(v)
        ctx.obligation("regenerated %s meets the specification on every array over a small alphabet up to length %d (vm_compute)"
                       % (nm_, nm if what == "match" else nd), not z, "first failing input (encoded): %s" % z)
        if not z:
            continue
        ctx.notes.append("the skeleton at the regenerated parameters violates the property inside Coq on %s (entry %s); "
                         "the same input is run on the real implementation" % (z, what))
        if what == "match":
            n1 = z[0]
            EXTRA["match"].append({"kind": "i8", "a1": z[1:1 + n1], "a2": z[1 + n1:], "presorted": False, "scalar1": False,
                                   "scalar2": False, "native": True, "family": "gen-counterexample"})
            EXTRA["match"].append({"kind": "U", "a1": [[97 + x] for x in z[1:1 + n1]], "a2": [[97 + x] for x in z[1 + n1:]], "presorted": False,
                                   "scalar1": False, "scalar2": False, "native": True, "family": "gen-counterexample"})
            if z[1:1 + n1] == sorted(z[1:1 + n1]) or "match_multi_g" in t:
                # presorted=True: meaningful for match on a sorted first array, and for match_multi (which must ignore it) always
                EXTRA["match"].append({"kind": "i8", "a1": z[1:1 + n1], "a2": z[1 + n1:], "presorted": True, "scalar1": False,
                                       "scalar2": False, "native": True, "family": "gen-counterexample"})
        elif what == "unique":
            if len(z) > 1 or "unique_cex" in t:
                EXTRA["unique"].append({"kind": "i8", "a": z, "family": "gen-counterexample"})
        else:
            n = z[0]
            EXTRA["rem_dup"].append({"kind": "i8", "a": z[1:1 + n], "flag": z[1 + n:], "family": "gen-counterexample"})


def run(ctx, replay=None):
    ctx.rule = ("corpus + hand-picked + seeded random cases per entry point over int (8 widths, signed/unsigned, small and extreme ranges), float "
                "(f8/f4, negatives, +-0, +-inf, denormals) and byte/unicode string arrays; argument forms (array, list, python/numpy scalar, 0-d), "
                "mixed kinds (int/float, widths, signedness within +-2^53, bytes against unicode), empty arrays, omitted keywords; every case "
                "runs on the real esutil and inside Coq (model = implementation?  verified property checker on the implementation's output).  "
                "non-trivial: match - some but not all probes match and the first array is not already sorted; match_forms - a mixed pair, "
                "a non-array form or an omitted keyword with some but not all probes matching; unique/rem_dup - some repeated value whose "
                "first occurrence is not index 0 (rem_dup_call: repeated >= 3 times).  distinct by canonical JSON.")
    ctx.trusted = TRUSTED
    # 1. decision structure and constants of the four functions from the source of the tree under check
    params = None
    try:
        params, changed = c06_translate.regenerate(ctx.impl, core.COQDIR)
        ctx.obligation("C06/Gen.v regenerated from esutil/numpy_util.py (guards, operators, searchsorted side, clamp, equality filters, "
                       "presorted branches, unique start element, rem_dup tie rule, defaults, exception classes)%s"
                       % (" [changed]" if changed else ""), True)
        diffs = c06_translate.differences(params)
        if diffs:
            ctx.notes.append("regenerated parameters that differ from the modelled ones: " + "; ".join(diffs))
    except c06_translate.TranslateError as e:
        c06_translate.write_reference(core.COQDIR)      # never keep the parameters of a tree checked earlier
        diffs = []
        ctx.obligation("C06/Gen.v regenerated from esutil/numpy_util.py", False, str(e))
        ctx.violation("translation of match/match_multi/unique/rem_dup failed (fail-closed): %s" % e,
                      {"kind": "translation", "error": str(e),
                       "no_longer_checks": "tie of C06/Gen.v (C06_tie_*, C06_source_*) to esutil/numpy_util.py"}, found_input=False)
    # 2. theorems (C06_tie_* / C06_source_* are re-checked against the regenerated Gen.v)
    built = core.proof_step(ctx, "C06", core.ALLOW_DISCRETE)
    if not built:
        # the model, the checkers and the skeletons do not depend on the tie: keep looking for a failing input
        ok, _log = core.coq_make(["theories/C06/Exec.vo", "theories/C06/Gen.vo"])
        if not ok:
            return
    # 3. the regenerated definitions against the specification inside Coq (small scope); failing inputs go to the real code
    if replay is None:
        gen_sweeps(ctx, big=not ctx.quick())
    if not ctx.quick() and replay is None:
        terms = ["if unique_sweep 3 6 then 0 else 1", "if match_sweep 4 4 4 then 0 else 1",
                 "if sweep_match_model 3 5 5 then 0 else 1", "if sweep_match_model 5 5 3 then 0 else 1",
                 "if sweep_dedup_model 3 3 6 then 0 else 1", "if sweep_dedup_model 4 3 5 then 0 else 1"]
        vals = core.coq_eval(ctx.work + "/sweep", PRE, terms, shard=1, tag="sweep")
        ctx.obligation("unique_sweep 3 6 = true (vm_compute: every array over 3 values, length <= 6)", vals[0] == "0")
        ctx.obligation("match_sweep 4 4 4 = true (vm_compute: every pair of arrays over 4 values, lengths <= 4)", vals[1] == "0")
        ctx.obligation("sweep_match_model 3 5 5 = true (match, always-clamp path, presorted=True, match_multi: every pair of arrays over a "
                       "3-letter alphabet, lengths <= 5, checker incl. the grouping reading)", vals[2] == "0")
        ctx.obligation("sweep_match_model 5 5 3 = true (5-letter alphabet: first arrays of up to 5 distinct values, probes up to length 3)",
                       vals[3] == "0")
        ctx.obligation("sweep_dedup_model 3 3 6 = true (unique, unique(values=True), rem_dup with every flag array over 3 values: every "
                       "array over a 3-letter alphabet, length <= 6)", vals[4] == "0")
        ctx.obligation("sweep_dedup_model 4 3 5 = true (4-letter alphabet, length <= 5)", vals[5] == "0")
        ctx.exhaustive = True
    differential(ctx, PRE, ENTRIES, replay)
    # contract monitor of the Gallina rounding: round53 = the platform's integer -> binary64 conversion on every value that
    # went through the promoted model in this run
    if MIXED_VALUES:
        vals = sorted(MIXED_VALUES)
        pairs = "[" + "; ".join("(%s, %s)" % (cz(v), cz(int(float(v)))) for v in vals) + "]"
        try:
            ok = core.coq_eval(ctx.work + "/round53", PRE, ["if round53_agrees %s then 0 else 1" % pairs], tag="round53")[0] == "0"
        except core.CoqEvalError as e:
            ok = False
            ctx.notes.append(str(e)[-300:])
        ctx.obligation("round53 agrees with the platform's int -> binary64 conversion on the %d integers of this run's mixed-signedness "
                       "pairs (contract monitor)" % len(vals), ok)
        if not ok:
            ctx.violation("contract monitor: Model.round53 differs from the platform's integer -> binary64 rounding",
                          {"kind": "contract-monitor", "no_longer_checks": "model of the float64 promotion (C06_match_outside_known, "
                                                                           "C06_match_mixed_refuted are about round53)"}, found_input=False)

"""C06 — array matching is sound and complete; de-duplication keeps one per value
(DESIGN.md section 7, C06).  esutil.numpy_util.match / match_multi / unique / rem_dup.

Element encodings (JSON case  ->  numpy  ->  Coq):
  integer kinds   python int          np.array(dtype=kind)      Z
  float kinds     float.hex() text    np.array(dtype=kind)      Z through the order embedding `fkey`
                                                                 (monotone, -0.0 and 0.0 coincide, no NaN)
  'S' / 'U'       list of code points bytes / str                list Z, lexicographic order
                  (never 0: numpy strips trailing NUL padding)
"""
import struct

import os
import re

from .. import core
from ..core import cz, cnat, clist, cbool
from ..runner import Entry, differential
from . import c06_translate

PRE = "From EsVerif.Common Require Import Base.\nFrom EsVerif.C06 Require Import Model Spec Forms Exec.\n"
PRE_GEN = PRE + "From EsVerif.C06 Require Import Skel Gen.\n"

# inputs on which the skeleton at the regenerated parameters (Skel.v at Gen.v) violates the property inside Coq
# (found by the small-scope search when the tie is broken); run first by the entries below
EXTRA = {"match": [], "unique": [], "rem_dup": []}

INT_KINDS = {"i1": (-2**7, 2**7 - 1), "i2": (-2**15, 2**15 - 1), "i4": (-2**31, 2**31 - 1), "i8": (-2**63, 2**63 - 1),
             "u1": (0, 2**8 - 1), "u2": (0, 2**16 - 1), "u4": (0, 2**32 - 1), "u8": (0, 2**64 - 1)}
FLOAT_KINDS = ("f8", "f4")
STR_KINDS = ("S", "U")


# ----------------------------------------------------------------------------
# encodings
# ----------------------------------------------------------------------------

def fkey(x):
    """order embedding of a non-NaN binary64 into Z: x < y <-> fkey(x) < fkey(y), x == y <-> equal keys"""
    (b,) = struct.unpack(">q", struct.pack(">d", float(x)))
    return b if b >= 0 else -(b & 0x7FFFFFFFFFFFFFFF)


def is_str(kind):
    return kind in STR_KINDS


def key(kind, v):
    """the value as the Coq model sees it (also python's sort/equality key)"""
    if kind in INT_KINDS:
        return int(v)
    if kind in FLOAT_KINDS:
        return fkey(float.fromhex(v))
    return tuple(v)


def to_np(kind, vals):
    import numpy as np
    if kind in INT_KINDS:
        return np.array([int(v) for v in vals], dtype=kind)
    if kind in FLOAT_KINDS:
        return np.array([float.fromhex(v) for v in vals], dtype=kind)
    if kind == "S":
        return np.array([bytes(v) for v in vals], dtype="S")
    return np.array(["".join(chr(c) for c in v) for v in vals], dtype="U")


def to_scalar(kind, v, native):
    """a scalar argument: python native scalar when the kind has one, numpy scalar otherwise"""
    import numpy as np
    if kind in INT_KINDS:
        return int(v) if (native and kind == "i8") else np.dtype(kind).type(int(v))
    if kind in FLOAT_KINDS:
        return float.fromhex(v) if (native and kind == "f8") else np.dtype(kind).type(float.fromhex(v))
    if kind == "S":
        return bytes(v) if native else np.bytes_(bytes(v))
    s = "".join(chr(c) for c in v)
    return s if native else np.str_(s)


def from_np(kind, arr):
    """numpy values back into the case encoding"""
    out = []
    for x in arr.tolist():
        if kind in INT_KINDS:
            out.append(int(x))
        elif kind in FLOAT_KINDS:
            out.append(float(x).hex())
        elif kind == "S":
            out.append(list(x))
        else:
            out.append([ord(c) for c in x])
    return out


def cval(kind, v):
    k = key(kind, v)
    if is_str(kind):
        return clist(k, cz)
    return cz(k)


def cvals(kind, vals):
    return "[" + "; ".join(cval(kind, v) for v in vals) + "]"


def cnats(l):
    return "[" + "; ".join(cnat(x) for x in l) + "]"


def cres(out, f):
    return "(Ok %s)" % f(out[1]) if out[0] == "ok" else "(Err %s)" % out[1]


def pfx(kind):
    return "vs" if is_str(kind) else "vz"


def flag_key(f):
    """flags are ints or float.hex() strings"""
    return fkey(float.fromhex(f)) if isinstance(f, str) else int(f)


def flags_np(flags):
    import numpy as np
    if any(isinstance(f, str) for f in flags):
        return np.array([float.fromhex(f) if isinstance(f, str) else float(f) for f in flags], dtype="f8")
    return np.array([int(f) for f in flags], dtype="i8")


def flag_keys(flags):
    if any(isinstance(f, str) for f in flags):
        return [fkey(float.fromhex(f) if isinstance(f, str) else float(f)) for f in flags]
    return [int(f) for f in flags]


# ----------------------------------------------------------------------------
# generators
# ----------------------------------------------------------------------------

F8_SPECIAL = [0.0, -0.0, 1.5, -1.5, 1e300, -1e300, 5e-324, -5e-324, float("inf"), -float("inf"), 0.1, 0.2, 0.30000000000000004,
              0.3, 1.0, 1.0000000000000002, -1.0, 2.0**53, 2.0**53 + 2, -2.0**53, 1e-300, 3.141592653589793]
F4_SPECIAL = [0.0, -0.0, 1.5, -1.5, 0.10000000149011612, 0.30000001192092896, 3.4028234663852886e+38, -3.4028234663852886e+38,
              1.401298464324817e-45, -1.401298464324817e-45, float("inf"), -float("inf"), 1.0, 1.0000001192092896, 16777216.0]
S_ALPHABET = [32, 48, 65, 97, 98, 122, 126, 127, 128, 200, 255, 1]
U_ALPHABET = [32, 65, 97, 98, 122, 233, 0x3b1, 0x4e2d, 0xFFFD, 0x1F600, 0x10FFFF, 1]


def gen_value(r, kind, rng):
    """one random value of the kind; rng in {'small','large','full'}"""
    if kind in INT_KINDS:
        lo, hi = INT_KINDS[kind]
        if rng == "small":
            return r.randrange(max(lo, -6), min(hi, 12) + 1)
        if rng == "large":
            edge = r.choice([lo, hi, (lo + hi) // 2, 2**53 if hi > 2**53 else hi // 3, -(2**53) if lo < -(2**53) else lo // 3])
            return min(hi, max(lo, edge + r.randrange(-4, 5)))
        return r.randrange(lo, hi + 1)
    if kind == "f8":
        if rng == "small":
            return float(r.randrange(-8, 9) / 2.0).hex()
        if rng == "large":
            return float(r.choice(F8_SPECIAL)).hex()
        return float(r.choice([r.uniform(-10, 10), r.gauss(0, 1e6), r.uniform(-1, 1) * 10.0 ** r.randrange(-300, 300)])).hex()
    if kind == "f4":
        import numpy as np
        if rng == "small":
            return float(r.randrange(-8, 9) / 2.0).hex()
        if rng == "large":
            return float(np.float32(r.choice(F4_SPECIAL))).hex()
        return float(np.float32(r.choice([r.uniform(-10, 10), r.gauss(0, 1e6), r.uniform(-1, 1) * 10.0 ** r.randrange(-30, 30)]))).hex()
    alpha = S_ALPHABET if kind == "S" else U_ALPHABET
    if rng == "small":
        return [r.choice(alpha[:5]) for _ in range(r.randrange(0, 3))]
    return [r.choice(alpha) for _ in range(r.randrange(0, 6 if rng == "large" else 4))]


def gen_pool(r, kind, rng, want):
    """`want` values of the kind, pairwise distinct as the implementation sees them, ascending"""
    pool, tries = {}, 0
    while len(pool) < want and tries < 40 * want:
        tries += 1
        v = gen_value(r, kind, rng)
        pool.setdefault(key(kind, v), v)
    return [pool[k] for k in sorted(pool)]


ALL_KINDS = ["i8", "i8", "u8", "i4", "u4", "i2", "u2", "i1", "u1", "f8", "f8", "f4", "S", "S", "U", "U"]


def gen_match_case(r, nmax, force=None):
    kind = r.choice(ALL_KINDS)
    rng = r.choice(["small", "large", "full"])
    n1 = r.choice([1, 2, 3, r.randrange(1, nmax + 1), r.randrange(1, nmax + 1)])
    n2 = r.choice([1, 2, r.randrange(1, nmax + 1), r.randrange(1, nmax + 1)])
    pool = gen_pool(r, kind, rng, n1 + 6)
    if len(pool) < 3:
        pool = gen_pool(r, kind, "full" if kind in INT_KINDS and INT_KINDS[kind][1] > 20 else "large", 6)
    n1 = max(1, min(n1, len(pool) - 2)) if len(pool) > 2 else 1
    # keep some pool values outside arr1's range on both sides
    lo_out = r.randrange(0, 3)
    hi_out = r.randrange(0, 3)
    inner = pool[lo_out:len(pool) - hi_out] if len(pool) - hi_out - lo_out >= n1 else pool
    a1 = r.sample(inner, min(n1, len(inner)))
    keys1 = set(key(kind, v) for v in a1)
    others = [v for v in pool if key(kind, v) not in keys1]
    mode = force or r.choice(["none", "some", "some", "some", "all", "dups1"])
    presorted = r.random() < 0.3
    if mode == "all" or not others:
        a2 = [r.choice(a1) for _ in range(n2)]
        mode = "all" if mode != "dups1" else mode
    elif mode == "none":
        a2 = [r.choice(others) for _ in range(n2)]
    else:
        a2 = [r.choice(a1) if r.random() < 0.5 else r.choice(others) for _ in range(n2)]
    if mode == "dups1":
        a1 = a1 + [r.choice(a1) for _ in range(r.randrange(1, 3))]
        r.shuffle(a1)
    if presorted:
        a1 = sorted(a1, key=lambda v: key(kind, v))
    elif r.random() < 0.15:
        a1 = sorted(a1, key=lambda v: key(kind, v), reverse=True)
    c = {"kind": kind, "a1": a1, "a2": a2, "presorted": presorted, "scalar1": False, "scalar2": False, "native": True,
         "range": rng,
         "family": "%s/%s%s" % ("int" if kind in INT_KINDS else ("float" if kind in FLOAT_KINDS else "string"),
                                mode, "/presorted" if presorted else "")}
    return c


def gen_scalar_case(r):
    c = gen_match_case(r, 6, force=r.choice(["none", "some", "all"]))
    which = r.choice(["first", "second", "both"])
    if which in ("first", "both"):
        c["a1"] = c["a1"][:1]
        c["scalar1"] = True
    if which in ("second", "both"):
        c["a2"] = [r.choice(c["a1"] + c["a2"])]
        c["scalar2"] = True
    c["native"] = r.random() < 0.6
    c["family"] = "scalar-" + which + "/" + ("string" if is_str(c["kind"]) else "number")
    return c


def fixed_match_cases():
    h = lambda x: float(x).hex()  # noqa
    cs = [
        {"kind": "i8", "a1": [3, 1, 2], "a2": [2, 2, 7, -1, 3], "presorted": False, "family": "hand"},
        {"kind": "i8", "a1": [1, 2, 3], "a2": [2, 2, 7, -1, 3], "presorted": True, "family": "hand"},
        {"kind": "i8", "a1": [3, 1, 3], "a2": [2, 2, 7, -1, 3], "presorted": False, "family": "hand-dups1"},
        {"kind": "i8", "a1": [1, 3, 3], "a2": [3], "presorted": True, "family": "hand-dups1"},
        {"kind": "i8", "a1": [5], "a2": [5, 5, 4, 6, 5], "presorted": False, "family": "hand"},
        {"kind": "i8", "a1": [-2**63, 2**63 - 1, 0], "a2": [2**63 - 1, -2**63, 1, -1, 0, 2**63 - 2], "presorted": False, "family": "hand-extreme"},
        {"kind": "u8", "a1": [2**63, 5, 2**64 - 1], "a2": [2**64 - 1, 0, 5, 2**63 - 1, 2**63], "presorted": False, "family": "hand-extreme"},
        {"kind": "u8", "a1": [2**53, 2**53 + 1, 2**53 + 2], "a2": [2**53 + 1, 2**53 + 3, 2**53 - 1, 2**53], "presorted": True, "family": "hand-extreme"},
        {"kind": "f8", "a1": [h(1.5), h(-2.0), h(3.25)], "a2": [h(9.0), h(-2.0), h(-5.0), h(3.25), h(3.2500000000000004)], "presorted": False, "family": "hand-float"},
        {"kind": "f8", "a1": [h(0.0), h(1.0), h(-1.0)], "a2": [h(-0.0), h(0.0), h(5e-324), h(-5e-324), h(float("inf")), h(-float("inf"))], "presorted": False, "family": "hand-float"},
        {"kind": "f8", "a1": [h(0.0), h(-0.0)], "a2": [h(0.0)], "presorted": False, "family": "hand-dups1"},
        {"kind": "f8", "a1": [h(-float("inf")), h(0.1), h(float("inf"))], "a2": [h(0.1), h(0.30000000000000004), h(float("inf")), h(-float("inf"))], "presorted": True, "family": "hand-float"},
        {"kind": "S", "a1": [[98], [97, 98, 99], [97]], "a2": [[97, 98, 99, 100], [97], [122, 122], [], [98], [98]], "presorted": False, "family": "hand-string"},
        {"kind": "U", "a1": [[98], [97, 98, 99], [97]], "a2": [[97, 98, 99, 100], [97], [122, 122], [], [98], [98]], "presorted": False, "family": "hand-string"},
        {"kind": "S", "a1": [[], [255], [97, 32]], "a2": [[97], [97, 32], [255, 255], [], [255]], "presorted": False, "family": "hand-string"},
        {"kind": "U", "a1": [[0x1F600], [0x10FFFF, 97], [233]], "a2": [[0x10FFFF], [233], [0x1F600], [0x10FFFF, 97], [0x10FFFF, 97, 97]], "presorted": False, "family": "hand-string"},
        {"kind": "S", "a1": [[97], [97, 97], [97, 97, 97]], "a2": [[97, 97, 97, 97], [97, 97], [], [97]], "presorted": True, "family": "hand-string"},
    ]
    for c in cs:
        c.setdefault("scalar1", False)
        c.setdefault("scalar2", False)
        c.setdefault("native", True)
    return cs


def gen_dedup_array(r, nmax):
    kind = r.choice(ALL_KINDS)
    rng = r.choice(["small", "small", "large", "full"])
    n = r.choice([1, 2, 3, r.randrange(1, nmax + 1), r.randrange(1, nmax + 1), r.randrange(1, nmax + 1)])
    ndist = r.choice([1, 2, 3, max(1, n // 2), n])
    pool = gen_pool(r, kind, rng, ndist)
    a = [r.choice(pool) for _ in range(n)]
    shape = r.choice(["any", "any", "first-not-min", "first-is-min", "sorted", "reversed"])
    ks = lambda v: key(kind, v)  # noqa
    if shape == "first-not-min" and len(set(map(ks, a))) > 1:
        a.sort(key=ks)
        i = r.randrange(1, n)
        while ks(a[i]) == ks(a[0]):
            i = r.randrange(1, n)
        a[0], a[i] = a[i], a[0]
        rest = a[1:]
        r.shuffle(rest)
        a = a[:1] + rest
    elif shape == "first-is-min":
        m = min(a, key=ks)
        a.remove(m)
        a = [m] + a
    elif shape == "sorted":
        a.sort(key=ks)
    elif shape == "reversed":
        a.sort(key=ks, reverse=True)
    fam = "%s/%s" % ("int" if kind in INT_KINDS else ("float" if kind in FLOAT_KINDS else "string"), shape)
    return kind, a, fam


def gen_flags(r, n):
    style = r.choice(["int-ties", "int-wide", "float", "constant", "increasing", "decreasing"])
    if style == "int-ties":
        return [r.randrange(-2, 3) for _ in range(n)]
    if style == "int-wide":
        return [r.randrange(-2**62, 2**62) for _ in range(n)]
    if style == "float":
        return [float(r.choice([r.uniform(-3, 3), r.randrange(-2, 3) / 2.0, -0.0, 0.0, 1e300, -1e300])).hex() for _ in range(n)]
    if style == "constant":
        return [7] * n
    if style == "increasing":
        return list(range(n))
    return list(range(n, 0, -1))


def _repeated_not_first(kind, a):
    """a value occurring >= 2 times whose first occurrence is not index 0"""
    ks = [key(kind, v) for v in a]
    return any(ks.count(k) >= 2 and ks.index(k) > 0 for k in set(ks))


# ----------------------------------------------------------------------------
# entries
# ----------------------------------------------------------------------------

class Match(Entry):
    name = "match"
    multi = False

    def cases(self, ctx, round=0):
        r = ctx.rng
        cs = []
        nmax = ctx.n(12, 40)
        if round == 0:
            cs += [dict(c) for c in EXTRA["match"]]
            cs += [dict(c) for c in fixed_match_cases()]
            for _ in range(ctx.n(60, 400)):
                cs.append(gen_scalar_case(r))
        for _ in range(ctx.n(500, 6000) if round == 0 else ctx.n(300, 1500)):
            cs.append(gen_match_case(r, nmax))
        if self.multi:
            # match_multi ignores presorted: also try presorted=True on unsorted first arrays
            for c in cs:
                if r.random() < 0.5:
                    c["presorted"] = True
                    if not c["scalar1"] and r.random() < 0.7:
                        r.shuffle(c["a1"])
                    c["family"] = c["family"].replace("/presorted", "") + "/presorted-flag-ignored"
        return cs

    def _args(self, c):
        k = c["kind"]
        x1 = to_scalar(k, c["a1"][0], c["native"]) if c["scalar1"] else to_np(k, c["a1"])
        x2 = to_scalar(k, c["a2"][0], c["native"]) if c["scalar2"] else to_np(k, c["a2"])
        return x1, x2

    def impl(self, c):
        import esutil.numpy_util as nu
        fn = nu.match_multi if self.multi else nu.match

        def f():
            x1, x2 = self._args(c)
            m1, m2 = fn(x1, x2, presorted=c["presorted"])
            return [[int(i) for i in m1], [int(i) for i in m2]]
        return core.guarded(f)

    def term(self, c, out):
        k = c["kind"]
        return "%s_matchx %s %s %s %s %s" % (pfx(k), cbool(c["presorted"]), cbool(self.multi), cvals(k, c["a1"]), cvals(k, c["a2"]),
                                            cres(out, lambda o: "(%s, %s)" % (cnats(o[0]), cnats(o[1]))))

    def nontrivial(self, c, out):
        k = c["kind"]
        k1 = [key(k, v) for v in c["a1"]]
        hits = [key(k, v) in set(k1) for v in c["a2"]]
        return any(hits) and not all(hits) and k1 != sorted(k1)

    def show(self, c):
        k = c["kind"]
        o = "lex_ltb lex_eqb true" if is_str(k) else "zltb zeqb false"
        return "show_match %s %s %s %s %s" % (o, cbool(c["presorted"]), cbool(self.multi), cvals(k, c["a1"]), cvals(k, c["a2"]))


class MatchMulti(Match):
    name = "match_multi"
    multi = True


class Unique(Entry):
    name = "unique"
    values = False
    coq = "unique"

    def cases(self, ctx, round=0):
        r = ctx.rng
        cs = []
        if round == 0:
            cs += [dict(c) for c in EXTRA["unique"]]
            for a in ([5, 1, 5], [3, 1, 2], [5, 1], [1], [1, 1, 1], [1, 2, 3], [2, 2, 1, 1, 3, 3], []):
                cs.append({"kind": "i8", "a": a, "family": "hand"})
            cs.append({"kind": "S", "a": [[98], [97], [98]], "family": "hand"})
            cs.append({"kind": "f8", "a": [float(x).hex() for x in (0.0, -1.5, -0.0, 2.5, -1.5)], "family": "hand"})
        for _ in range(ctx.n(350, 4000) if round == 0 else ctx.n(200, 1000)):
            kind, a, fam = gen_dedup_array(r, ctx.n(12, 40))
            cs.append({"kind": kind, "a": a, "family": fam})
        return cs

    def _oracle(self, c):
        """numpy's argsort of the very array the implementation is given (same dtype, same algorithm)"""
        arr = to_np(c["kind"], c["a"])
        return arr, [int(i) for i in arr.argsort()]

    def impl(self, c):
        import esutil.numpy_util as nu
        arr, s = self._oracle(c)

        def f():
            res = nu.unique(arr, values=self.values)
            return from_np(c["kind"], res) if self.values else [int(i) for i in res]
        return {"argsort": s, "result": core.guarded(f)}

    def term(self, c, out):
        k = c["kind"]
        pr = (lambda o: cvals(k, o)) if self.values else cnats
        return "%s_%s %s %s %s" % (pfx(k), self.coq, cnats(out["argsort"]), cvals(k, c["a"]), cres(out["result"], pr))

    def nontrivial(self, c, out):
        return _repeated_not_first(c["kind"], c["a"])

    def show(self, c):
        k = c["kind"]
        o = "lex_ltb lex_eqb" if is_str(k) else "zltb zeqb"
        _, s = self._oracle(c)
        return "show_dedup %s %s %s %s" % (o, cnats(s), cvals(k, c["a"]), clist(flag_keys(c.get("flag", [0] * len(c["a"]))), cz))


class UniqueValues(Unique):
    name = "unique_values"
    values = True
    coq = "unique_values"


class RemDup(Unique):
    name = "rem_dup"
    values = False
    coq = "rem_dup"

    def cases(self, ctx, round=0):
        r = ctx.rng
        cs = []
        if round == 0:
            cs += [dict(c) for c in EXTRA["rem_dup"]]
            cs += [{"kind": "i8", "a": [5, 1, 5], "flag": [1, 2, 3], "family": "hand"},
                   {"kind": "i8", "a": [5, 1, 5, 5], "flag": [3, 2, 3, 1], "family": "hand"},
                   {"kind": "i8", "a": [5], "flag": [1], "family": "hand"},
                   {"kind": "i8", "a": [], "flag": [], "family": "hand"},
                   {"kind": "i8", "a": [2, 2, 2, 2], "flag": [0, 5, 5, 1], "family": "hand"},
                   {"kind": "U", "a": [[98], [97], [98], [97]], "flag": [float(x).hex() for x in (0.5, -1.0, 0.25, -0.0)], "family": "hand"}]
        for _ in range(ctx.n(350, 4000) if round == 0 else ctx.n(200, 1000)):
            kind, a, fam = gen_dedup_array(r, ctx.n(12, 40))
            cs.append({"kind": kind, "a": a, "flag": gen_flags(r, len(a)), "family": fam})
        return cs

    def impl(self, c):
        import numpy as np
        import esutil.numpy_util as nu
        arr, s = self._oracle(c)
        fl = flags_np(c["flag"])

        def f():
            if self.values:
                ind, vals = nu.rem_dup(arr, fl, values=True)
                return [[int(i) for i in np.atleast_1d(ind)], from_np(c["kind"], np.atleast_1d(vals))]
            return [int(i) for i in np.atleast_1d(nu.rem_dup(arr, fl))]
        return {"argsort": s, "result": core.guarded(f)}

    def term(self, c, out):
        k = c["kind"]
        pr = (lambda o: "(%s, %s)" % (cnats(o[0]), cvals(k, o[1]))) if self.values else cnats
        return "%s_%s %s %s %s %s" % (pfx(k), self.coq, cnats(out["argsort"]), cvals(k, c["a"]), clist(flag_keys(c["flag"]), cz),
                                      cres(out["result"], pr))


class RemDupValues(RemDup):
    name = "rem_dup_values"
    values = True
    coq = "rem_dup_values"


ENTRIES = [Match(), MatchMulti(), Unique(), UniqueValues(), RemDup(), RemDupValues()]

TRUSTED = [
    "Coq 8.16.1 kernel (coqc, vm_compute; no native_compute); all C06 theorems are closed under the global context (no axioms)",
    "hand-written model C06/Model.v of numpy_util.match/match_multi/unique/rem_dup, generic over a decidable total order; tied to /repo "
    "by the correspondence run on every check (differential testing, bounded by the generators)",
    "modelled, not verified: numpy fancy indexing, np.where, ==, max, np.unique(a).size (as 'has a repeated value'), np.searchsorted(side=left) "
    "as the number of strictly smaller elements of a SORTED array (presorted=True is therefore only modelled for a sorted first array), "
    "np.atleast_1d on scalars (the harness passes the scalar, the model gets a one-element array)",
    "assumed with run-time contract monitor: numpy argsort returns a sorting permutation (checked on every unique/rem_dup case by the verified "
    "sorting_perm_check; the harness obtains it by calling arr.argsort() on the same array); for match the model computes its own argsort "
    "(unique on distinct values)",
    "element encodings of the harness: floats enter Coq through a monotone embedding into Z (IEEE bit pattern, -0.0 = 0.0, no NaN), "
    "strings as code-point lists without NUL (numpy's comparison of padded strings is lexicographic on code points)",
    "python harness (harness/props/C06.py), literal printers, coqc evaluating Exec.v verdict terms",
]


def run(ctx, replay=None):
    ctx.rule = ("corpus + hand-picked + seeded random cases per entry point over int (8 widths, signed/unsigned, small and extreme ranges), float "
                "(f8/f4, negatives, +-0, +-inf, denormals) and byte/unicode string arrays; every case runs on the real esutil and inside Coq "
                "(model = implementation?  verified property checker on the implementation's output).  non-trivial: match - some but not all "
                "probes match and the first array is not already sorted; unique/rem_dup - some repeated value whose first occurrence is not "
                "index 0.  distinct by canonical JSON.")
    ctx.trusted = TRUSTED
    core.proof_step(ctx, "C06", core.ALLOW_DISCRETE)
    if not ctx.quick() and replay is None:
        vals = core.coq_eval(ctx.work + "/sweep", PRE,
                             ["if unique_sweep 3 6 then 0 else 1", "if match_sweep 4 4 4 then 0 else 1"], tag="sweep")
        ctx.obligation("unique_sweep 3 6 = true (vm_compute: every array over 3 values, length <= 6)", vals[0] == "0")
        ctx.obligation("match_sweep 4 4 4 = true (vm_compute: every pair of arrays over 4 values, lengths <= 4)", vals[1] == "0")
        ctx.exhaustive = True
    differential(ctx, PRE, ENTRIES, replay)

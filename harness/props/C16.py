"""C16 — byte-order conversion preserves values and declares the requested order
(DESIGN.md section 7, C16).

Arrays travel as (dtype spec, shape, hex of the C-order buffer).  A dtype spec keeps the four
spellings of dtype.byteorder ('<' '>' '=' '|') distinct:
    {"plain": [kind, itemsize, order]}  |  {"fields": [[name, kind, itemsize, order, subshape], ...]}
"""
import warnings

from .. import core
from ..core import cbool, clist, cnat, cstr, chex
from ..runner import Entry, differential
from . import c16_translate

PRE = ("From Coq Require Import String.\nFrom EsVerif.Common Require Import Base Bytes.\n"
       "From EsVerif.C16 Require Import Model Spec Ext Deep Exec.\nLocal Open Scope list_scope.\n")

ORD = {"<": "LE", ">": "BE", "|": "NA", "=": "NAT"}
KIND = {"i": "KInt", "u": "KUInt", "f": "KFloat", "c": "KComplex", "b": "KBool", "S": "KBytes", "U": "KUnicode"}
CONV = {"to_native": "ToNative", "to_big_endian": "ToBig", "to_little_endian": "ToLittle", "byteswap": "Swap"}
FNS = list(CONV)

NUMERIC = [("i", 1), ("i", 2), ("i", 4), ("i", 8), ("u", 1), ("u", 2), ("u", 4), ("u", 8),
           ("f", 2), ("f", 4), ("f", 8), ("f", 16), ("c", 8), ("c", 16), ("c", 32), ("b", 1)]
BYTES = [("S", 1), ("S", 3), ("S", 8)]
UNICODE = [("U", 4), ("U", 12)]
SHAPES = [[], [1], [3], [0], [2, 2], [1, 3], [3, 1], [2, 0]]


def has_order(kind, size):
    return not (kind in "Sb" or (kind in "iu" and size == 1))


def unit(kind, size):
    return {"c": size // 2, "S": 1, "U": 4}.get(kind, size)


# ----------------------------------------------------------------------------------------------
# numpy side: build / describe arrays without losing the spelling of the byte order
# ----------------------------------------------------------------------------------------------

def np_scalar(kind, size, order):
    import numpy as np
    body = "%s%d" % (kind, size // 4 if kind == "U" else size)
    if order == "<" and np.little_endian or order == ">" and not np.little_endian:
        d = np.dtype(("<>"[np.little_endian]) + body).newbyteorder()   # the machine's own letter, spelled out
    else:
        d = np.dtype(order + body)
    if d.byteorder != order or d.kind != kind or d.itemsize != size:
        raise HarnessFault("cannot build dtype %s%s: got %r %s" % (order, body, d.byteorder, d.str))
    return d


def np_dtype(spec):
    import numpy as np
    if "plain" in spec:
        return np_scalar(*spec["plain"])
    if any(n.startswith("_pad") for n, _, _, _, _ in spec["fields"]):
        names, formats, offsets, off = [], [], [], 0
        for n, k, s, o, sub in spec["fields"]:
            m = 1
            for x in sub:
                m *= x
            if not n.startswith("_pad"):
                names.append(n)
                formats.append((np_scalar(k, s, o), tuple(sub)) if sub else np_scalar(k, s, o))
                offsets.append(off)
            off += s * m
        d = np.dtype({"names": names, "formats": formats, "offsets": offsets, "itemsize": off})
    else:
        d = np.dtype([(n, np_scalar(k, s, o), tuple(sub)) if sub else (n, np_scalar(k, s, o))
                      for n, k, s, o, sub in spec["fields"]])
    if describe_dtype(d) != spec:
        raise HarnessFault("cannot build dtype %r: got %r" % (spec, describe_dtype(d)))
    return d


def describe_dtype(d):
    if d.names is None:
        if d.kind not in KIND or d.subdtype is not None:
            raise Unrepresentable("dtype %r" % (d,))
        return {"plain": [d.kind, int(d.itemsize), d.base.byteorder]}
    fields, off = [], 0
    for n in d.names:
        fd, fo = d.fields[n][0], d.fields[n][1]
        if fo < off or fd.base.kind not in KIND or fd.base.names is not None or n.startswith("_pad"):
            raise Unrepresentable("dtype %r (overlap, nesting or foreign kind)" % (d,))
        if fo > off:        # padding of an aligned structure: bytes without byte order that nothing may touch
            fields.append(["_pad%d" % off, "S", int(fo - off), "|", []])
        fields.append([n, fd.base.kind, int(fd.base.itemsize), fd.base.byteorder, [int(x) for x in fd.shape]])
        off = fo + fd.itemsize
    if off != d.itemsize:
        fields.append(["_pad%d" % off, "S", int(d.itemsize - off), "|", []])
    return {"fields": fields}


def build(a):
    import numpy as np
    d = np_dtype(a["dtype"])
    buf = bytearray(bytes.fromhex(a["data"]))
    arr = np.ndarray(tuple(a["shape"]), dtype=d, buffer=buf).copy()   # owns its data, C-contiguous
    if describe(arr) != {"dtype": a["dtype"], "shape": a["shape"], "data": a["data"]}:
        raise HarnessFault("array does not round-trip: %r" % (a,))
    return arr


_USER_SUBCLASS = []


def as_klass(arr, klass):
    """the same buffer seen as an ndarray SUBCLASS object (np.recarray / a trivial user subclass): the statement's
    'that same object is returned' and the caller's dtype are about THIS object"""
    import numpy as np
    if not klass or klass == "ndarray":
        return arr
    if klass == "recarray":
        v = arr.view(np.recarray)
    elif klass == "subclass":
        if not _USER_SUBCLASS:
            class PlainSubclass(np.ndarray):
                pass
            _USER_SUBCLASS.append(PlainSubclass)
        v = arr.view(_USER_SUBCLASS[0])
    else:
        raise HarnessFault("unknown array class %r" % klass)
    if describe(v) != describe(arr):
        raise HarnessFault("subclass view does not describe like its base: %r" % klass)
    return v


def describe(arr):
    import numpy as np
    if not isinstance(arr, np.ndarray):
        raise Unrepresentable("result is %s, not ndarray" % type(arr).__name__)
    spec = describe_dtype(arr.dtype)
    return {"dtype": spec, "shape": [int(x) for x in arr.shape], "data": zero_pads(spec, arr.tobytes()).hex()}


def zero_pads(spec, raw):
    """padding bytes of an aligned structure are not values (numpy's own copies zero or keep them as it pleases):
    canonicalised to zero in everything that is compared"""
    if "fields" not in spec or not any(f[0].startswith("_pad") for f in spec["fields"]):
        return raw
    rs, spans, off = 0, [], 0
    for n, k, s_, o, sub in spec["fields"]:
        m = 1
        for x in sub:
            m *= x
        if n.startswith("_pad"):
            spans.append((off, off + s_ * m))
        off += s_ * m
    rs = off
    b = bytearray(raw)
    for row in range(0, len(b), rs):
        for lo, hi in spans:
            b[row + lo:row + hi] = bytes(hi - lo)
    return bytes(b)


class HarnessFault(Exception):
    pass


class Unrepresentable(Exception):
    pass


def observe(f, a, **kw):
    """call f on array a; returns (result, outcome dict).  'shares' is buffer aliasing; an object
    trivially shares with itself (numpy reports False for empty arrays)."""
    import numpy as np
    r = f(a, **kw)
    res = describe(r)
    return r, {"res": res, "same": r is a, "shares": bool(r is a or np.shares_memory(r, a)), "inp": describe(a)}


def guarded_impl(fn):
    try:
        with warnings.catch_warnings():
            warnings.simplefilter("ignore", DeprecationWarning)   # numpy 2.5: "Setting the dtype on a NumPy array"
            return {"ok": fn()}
    except HarnessFault:
        raise
    except Exception as e:  # noqa
        return {"err": core.errclass(e), "msg": "%s: %s" % (type(e).__name__, str(e)[:200])}


# ----------------------------------------------------------------------------------------------
# Coq printers
# ----------------------------------------------------------------------------------------------

def cdtype(spec):
    if "plain" in spec:
        k, n, o = spec["plain"]
        return "(DPlain (mkS %s %s %s))" % (KIND[k], cnat(n), ORD[o])
    return "(DStruct [%s])" % "; ".join(
        "mkF %s %s %s %s %s" % (cstr(n), KIND[k], cnat(s), ORD[o], clist(sub, cnat)) for n, k, s, o, sub in spec["fields"])


def cfields(spec):
    return "[%s]" % "; ".join(
        "mkF %s %s %s %s %s" % (cstr(n), KIND[k], cnat(s), ORD[o], clist(sub, cnat)) for n, k, s, o, sub in spec["fields"])


def chex_big(b):
    """hex literal; buffers above 2000 bytes as a concatenation of short literals (coqc's stack)"""
    if len(b) <= 2000:
        return chex(b)
    return "(%s)" % " ++ ".join(chex(b[i:i + 2000]) for i in range(0, len(b), 2000))


def carr(a):
    return "(mkA %s %s %s)" % (cdtype(a["dtype"]), clist(a["shape"], cnat), chex_big(bytes.fromhex(a["data"])))


def cout(o):
    return "(mkO %s %s %s %s)" % (carr(o["res"]), cbool(o["same"]), cbool(o["shares"]), carr(o["inp"]))


def cdescr(d):
    return "[%s]" % "; ".join("(%s, %s, %s)" % (cstr(n), cstr(t), clist(sh, cnat)) for n, t, sh in d)


def ml():
    import numpy as np
    return cbool(np.little_endian)


# ----------------------------------------------------------------------------------------------
# generators
# ----------------------------------------------------------------------------------------------

def segs(spec):
    if "plain" in spec:
        k, s, o = spec["plain"]
        return [(k, s, o, 1)]
    out = []
    for n, k, s, o, sub in spec["fields"]:
        m = 1
        for x in sub:
            m *= x
        out.append((k, s, o, m))
    return out


def rowsize(spec):
    return sum(s * m for _, s, _, m in segs(spec))


def nelem(shape):
    n = 1
    for x in shape:
        n *= x
    return n


def gen_data(r, spec, shape, style=None):
    style = style or r.choice(["random", "random", "random", "small", "zeros", "ff"])
    out = bytearray()
    for _ in range(nelem(shape)):
        for k, s, o, m in segs(spec):
            n = s * m
            if k == "b":
                out += bytes(r.randrange(2) for _ in range(n))
            elif style == "random":
                out += r.randbytes(n)
            elif style == "small":
                out += bytes(r.randrange(3) for _ in range(n))
            elif style == "zeros":
                out += bytes(n)
            else:
                out += b"\xff" * n
    return out.hex()


def arr_case(r, spec, shape, style=None):
    return {"dtype": spec, "shape": shape, "data": zero_pads(spec, bytes.fromhex(gen_data(r, spec, shape, style))).hex()}


def spell(r, big):
    """a spelling of the requested endianness; on this machine '=' is one of the two"""
    import numpy as np
    native_big = not np.little_endian
    if big == native_big:
        return r.choice(["=", ">" if big else "<"])
    return ">" if big else "<"


NAMES = ["a", "b", "c", "d", "e", "f", "g", "ra", "dec", "flux_r", "ID", "x1", "s", "flag"]


def gen_struct(r, mode, nf=None):
    """mode: 'uniform' (all ordered fields one order), 'with-na' (uniform + at least one '|' field and
    one ordered field), 'all-na', 'mixed' (both orders present: outside the quantifier)"""
    nf = nf or r.randrange(1, 6)
    names = r.sample(NAMES, nf)
    big = r.random() < 0.5
    ordered = [t for t in NUMERIC + UNICODE if has_order(*t)]
    single = [t for t in NUMERIC + BYTES if not has_order(*t)]
    kinds = []
    for i in range(nf):
        if mode == "all-na":
            kinds.append(r.choice(single))
        elif mode == "uniform":
            kinds.append(r.choice(ordered if r.random() < 0.8 else single))
        else:
            kinds.append(r.choice(ordered if r.random() < 0.55 else single))
    if mode == "with-na":
        if nf < 2:
            nf, names = 2, r.sample(NAMES, 2)
            kinds = kinds + [r.choice(single)]
        pos = r.sample(range(nf), 2)
        kinds[pos[0]] = r.choice(single)
        kinds[pos[1]] = r.choice(ordered)
    if mode == "mixed":
        if nf < 2:
            nf, names = 2, r.sample(NAMES, 2)
            kinds = kinds + [r.choice(ordered)]
        pos = r.sample(range(nf), 2)
        kinds[pos[0]] = r.choice(ordered)
        kinds[pos[1]] = r.choice(ordered)
    fields = []
    for i, (k, s) in enumerate(kinds):
        sub = r.choice([[], [], [], [2], [3], [1], [2, 2]])
        if s >= 16 and len(sub) == 2:
            sub = [2]
        o = spell(r, big) if has_order(k, s) else "|"
        fields.append([names[i], k, s, o, sub])
    if mode == "mixed":
        fields[pos[0]][3] = spell(r, True)
        fields[pos[1]][3] = spell(r, False)
    return {"fields": fields}


def aligned_struct(r):
    """an aligned (padded) uniformly ordered structure, described with its padding as '_pad<offset>' byte fields"""
    import numpy as np
    for _ in range(50):
        spec = gen_struct(r, r.choice(["uniform", "with-na", "with-na"]), nf=r.randrange(2, 5))
        d = np.dtype([(n, np_scalar(k, s, o), tuple(sub)) if sub else (n, np_scalar(k, s, o))
                      for n, k, s, o, sub in spec["fields"]], align=True)
        out = describe_dtype(d)
        if len(out["fields"]) > len(spec["fields"]) and rowsize(out) <= 120:
            return out
    return out


def is_padded(spec):
    return "fields" in spec and any(f[0].startswith("_pad") for f in spec["fields"])


def struct_mode(spec):
    os_ = [o for _, _, _, o, _ in spec["fields"]]
    import numpy as np
    bigs = set((o == ">") or (o == "=" and not np.little_endian) for o in os_ if o != "|")
    if len(bigs) > 1:
        return "struct-mixed-order(outside quantifier: model only)"
    if not bigs:
        return "struct-all-|"
    return "struct-uniform-with-|" if "|" in os_ else "struct-uniform"


def array_pool(ctx, round):
    """list of (array case, family)"""
    r = ctx.rng
    pool = []
    if round == 0:
        # every numeric kind and item size in every spelling, byte strings, unicode; 0-d to 2-d
        for k, s in NUMERIC + BYTES + UNICODE:
            for o in (["<", ">", "="] if has_order(k, s) else ["|"]):
                spec = {"plain": [k, s, o]}
                fam = "plain-bytes" if k == "S" else "plain-unicode" if k == "U" else "plain-numeric"
                shapes = SHAPES if not ctx.quick() else [r.choice(SHAPES[:3]), r.choice(SHAPES[3:])]
                for sh in shapes:
                    pool.append((arr_case(r, spec, sh), fam if nelem(sh) else "zero-size"))
        # adversarial: '|' field first / middle / last, around one ordered field, every spelling
        for o in ("<", ">", "="):
            for lay in (["S", "n"], ["n", "S"], ["b", "n", "S"], ["n", "i1", "n"], ["S", "n", "n", "S"]):
                fields = []
                for i, t in enumerate(lay):
                    if t == "n":
                        k, s = r.choice([("i", 4), ("f", 8), ("c", 16), ("u", 2), ("U", 8)])
                        fields.append(["n%d" % i, k, s, o, r.choice([[], [2]])])
                    elif t == "S":
                        fields.append(["s%d" % i, "S", r.choice([1, 3, 5]), "|", r.choice([[], [2]])])
                    elif t == "b":
                        fields.append(["b%d" % i, "b", 1, "|", []])
                    else:
                        fields.append(["t%d" % i, "i", 1, "|", []])
                for sh in ([[], [2]] if ctx.quick() else [[], [2], [2, 2], [0]]):
                    pool.append((arr_case(r, {"fields": fields}, sh), "struct-uniform-with-|" if nelem(sh) else "zero-size"))
        # adversarial: ALL multi-byte fields are sub-arrays (dtype.isnative / dtype.byteorder of such a structure say
        # nothing about them), alone and with byte-string / single-byte fields around them, every spelling
        for o in ("<", ">", "="):
            for lay in (["a"], ["a", "a"], ["S", "a"], ["a", "u"], ["u", "a", "S"], ["a", "S", "a"], ["a2"]):
                fields = []
                for i, t in enumerate(lay):
                    if t in ("a", "a2"):
                        k, s = r.choice([("i", 2), ("i", 4), ("f", 4), ("f", 8), ("c", 8), ("u", 8), ("U", 4)])
                        fields.append(["v%d" % i, k, s, o, [2, 2] if t == "a2" else r.choice([[2], [3], [1]])])
                    elif t == "S":
                        fields.append(["s%d" % i, "S", r.choice([1, 3, 5]), "|", r.choice([[], [2]])])
                    else:
                        fields.append(["u%d" % i, "u", 1, "|", r.choice([[], [3]])])
                for sh in ([r.choice([[], [2]])] if ctx.quick() else [[], [2], [2, 2], [0]]):
                    pool.append((arr_case(r, {"fields": fields}, sh), "struct-all-subarray" if nelem(sh) else "zero-size"))
        # platform-like layout: ALIGNED structures (np.dtype(..., align=True)): padding bytes between and after the
        # fields (not values: canonicalised to zero), which must not shift the fields or be taken for data
        for i in range(ctx.n(6, 60)):
            pool.append((arr_case(r, aligned_struct(r), r.choice([[], [2], [3]])), "struct-aligned-padded"))
    n = ctx.n(46, 700) if round == 0 else ctx.n(60, 300)
    nonzero = [sh for sh in SHAPES if nelem(sh)]
    for i in range(n):
        x = r.random()
        mode = "uniform" if x < 0.35 else "with-na" if x < 0.77 else "all-na" if x < 0.84 else "mixed"
        spec = gen_struct(r, mode)
        sh = r.choice(nonzero) if i % 12 else r.choice([[0], [2, 0]])
        if rowsize(spec) * nelem(sh) > 400:
            sh = r.choice([[], [1], [2]])
        pool.append((arr_case(r, spec, sh), struct_mode(spec) if nelem(sh) else "zero-size"))
    return pool


def multibyte(spec):
    return any(unit(k, s) > 1 for k, s, _, _ in segs(spec))


def has_na_field(spec):
    return "fields" in spec and any(o == "|" for _, _, _, o, _ in spec["fields"])


# ----------------------------------------------------------------------------------------------
# entries
# ----------------------------------------------------------------------------------------------

class Convert(Entry):
    """to_native / to_big_endian / to_little_endian / byteswap x inplace x keep_dtype, each called
    twice in a row (idempotence, swap-twice)"""
    name = "convert"

    def cases(self, ctx, round=0):
        r = ctx.rng
        cs = []
        pool = array_pool(ctx, round)
        if not ctx.quick() and round == 0:
            pool = pool + sweep_pool()          # exhaustive small scope: alphabet x spellings x 4 functions x inplace x keep_dtype
        for a, fam in pool:
            combos = [(f, ip, kd) for f in FNS for ip in (False, True) for kd in (False, True)]
            if ctx.quick() and round == 0 and fam.startswith("plain"):
                combos = r.sample(combos, 6)
            if ctx.quick() and round == 0 and fam == "struct-aligned-padded":
                combos = r.sample(combos, 8)
            if ctx.quick() and round == 0 and fam == "struct-all-subarray":
                combos = [(f, ip, kd) for f in FNS for ip, kd in [r.choice([(False, False), (True, False), (False, True), (True, True)]),
                                                                  (r.random() < 0.5, False)]]
            for f, ip, kd in combos:
                cs.append({"fn": f, "inplace": ip, "keep": kd, "array": a, "family": fam})
        return cs

    def impl(self, c):
        import esutil.numpy_util as nu
        a = as_klass(build(c["array"]), c.get("klass"))
        f = getattr(nu, c["fn"])

        def go():
            r1, o1 = observe(f, a, inplace=c["inplace"], keep_dtype=c["keep"])
            r2, o2 = observe(f, r1, inplace=c["inplace"], keep_dtype=c["keep"])
            return [o1, o2]
        return guarded_impl(go)

    def term(self, c, out):
        if "err" in out:        # the functions must accept every array of the quantifier
            return "3%Z" if not struct_mode_is_mixed(c["array"]["dtype"]) else "1%Z"
        o1, o2 = out["ok"]
        return "v_conv %s %s %s %s %s %s %s" % (ml(), CONV[c["fn"]], carr(c["array"]), cbool(c["inplace"]),
                                                cbool(c["keep"]), cout(o1), cout(o2))

    def nontrivial(self, c, out):
        a = c["array"]
        if "err" in out or not a["data"] or not multibyte(a["dtype"]):
            return False
        return out["ok"][0]["res"]["data"] != a["data"] or has_na_field(a["dtype"])

    def family(self, c):
        return "%s/%s" % (c.get("family", "?"), c["fn"])

    def show(self, c):
        return "apply %s %s %s %s %s" % (CONV[c["fn"]], ml(), carr(c["array"]), cbool(c["inplace"]), cbool(c["keep"]))


def struct_mode_is_mixed(spec):
    return "fields" in spec and struct_mode(spec).startswith("struct-mixed")


class NativeInplace(Entry):
    """esutil.recfile.Util.to_native_inplace (returns None; works in the caller's buffer), called twice"""
    name = "to_native_inplace"

    def cases(self, ctx, round=0):
        pool = array_pool(ctx, round)
        if ctx.quick():
            pool = pool[::3]
        return [{"array": a, "family": fam} for a, fam in pool]

    def impl(self, c):
        import esutil.recfile.Util as U
        a = build(c["array"])

        def go():
            outs = []
            for _ in range(2):
                ret = U.to_native_inplace(a)
                if ret is not None:
                    raise Unrepresentable("to_native_inplace returned %r" % (ret,))
                outs.append(describe(a))
            return outs
        return guarded_impl(go)

    def term(self, c, out):
        if "err" in out:
            return "3%Z" if not struct_mode_is_mixed(c["array"]["dtype"]) else "1%Z"
        return "v_native_inplace %s %s %s %s" % (ml(), carr(c["array"]), carr(out["ok"][0]), carr(out["ok"][1]))

    def nontrivial(self, c, out):
        a = c["array"]
        if "err" in out or not a["data"] or not multibyte(a["dtype"]):
            return False
        return out["ok"][0]["data"] != a["data"] or has_na_field(a["dtype"])

    def show(self, c):
        return "to_native_inplace %s %s" % (ml(), carr(c["array"]))


class Predicates(Entry):
    """is_big_endian / is_little_endian on every spelling ('<' '>' '=' '|'), plain arrays (and the
    documented-unsupported structured ones for the model only)"""
    name = "predicates"

    def cases(self, ctx, round=0):
        r = ctx.rng
        cs = []
        if round == 0:
            for k, s in NUMERIC + BYTES + UNICODE:
                for o in (["<", ">", "="] if has_order(k, s) else ["|"]):
                    for sh in ([[], [2]] if ctx.quick() else SHAPES):
                        cs.append({"array": arr_case(r, {"plain": [k, s, o]}, sh), "family": "spelling " + o})
        for _ in range(ctx.n(10, 60)):
            spec = gen_struct(r, r.choice(["uniform", "with-na", "mixed"]))
            cs.append({"array": arr_case(r, spec, r.choice([[], [2]])), "family": "structured (model only)"})
        return cs

    def impl(self, c):
        import esutil.numpy_util as nu
        a = build(c["array"])
        return guarded_impl(lambda: [bool(nu.is_big_endian(a)), bool(nu.is_little_endian(a))])

    def term(self, c, out):
        if "err" in out:
            return "3%Z" if "plain" in c["array"]["dtype"] else "1%Z"
        return "v_pred %s %s %s %s" % (ml(), cdtype(c["array"]["dtype"]), cbool(out["ok"][0]), cbool(out["ok"][1]))

    def nontrivial(self, c, out):
        return "plain" in c["array"]["dtype"]

    def show(self, c):
        d = cdtype(c["array"]["dtype"])
        return "(is_big_endian %s (base_order %s), is_little_endian %s (base_order %s))" % (ml(), d, ml(), d)


class Descr(Entry):
    """numpy_util.descr_to_native(dtype.descr) and recfile.Util.remove_dtype_byteorder(dtype)"""
    name = "descr_to_native"

    def cases(self, ctx, round=0):
        r = ctx.rng
        cs = []
        for i in range(ctx.n(80, 600)):
            spec = gen_struct(r, r.choice(["uniform", "with-na", "all-na", "mixed"]))
            cs.append({"dtype": spec, "fn": ["numpy_util.descr_to_native", "recfile.Util.remove_dtype_byteorder"][i % 2],
                       "family": struct_mode(spec)})
        return cs

    def impl(self, c):
        import numpy as np
        import esutil.numpy_util as nu
        import esutil.recfile.Util as U
        d = np_dtype(c["dtype"])

        def canon(descr):
            out = []
            for e in descr:
                if not isinstance(e, tuple) or len(e) not in (2, 3) or not isinstance(e[0], str) or not isinstance(e[1], str):
                    raise Unrepresentable("descr entry %r" % (e,))
                out.append([e[0], e[1], [int(x) for x in e[2]] if len(e) == 3 else []])
            return out

        def go():
            before = canon(d.descr)
            out = nu.descr_to_native(d.descr) if c["fn"].startswith("numpy_util") else U.remove_dtype_byteorder(d)
            parsed = describe_dtype(np.dtype(out))
            if canon(d.descr) != before:
                raise Unrepresentable("the caller's descr was modified")
            return {"indescr": before, "out": canon(out), "parsed": parsed}
        return guarded_impl(go)

    def term(self, c, out):
        if "err" in out:
            return "3%Z"
        o = out["ok"]
        return "v_descr %s %s %s %s %s" % (ml(), cfields(c["dtype"]), cdescr(o["indescr"]), cdescr(o["out"]), cdtype(o["parsed"]))

    def nontrivial(self, c, out):
        return any(o in "<>=" for _, _, _, o, _ in c["dtype"]["fields"])

    def family(self, c):
        return "%s/%s" % (c["family"], c["fn"].split(".")[-1])

    def show(self, c):
        return "descr_to_native (descr_of %s %s)" % (ml(), cfields(c["dtype"]))


# ----------------------------------------------------------------------------------------------
# exhaustive small-scope sweep (thorough tier): every dtype over a small alphabet of field types
# ----------------------------------------------------------------------------------------------

SWEEP_ALPHABET = [("i", 2), ("f", 4), ("c", 8), ("U", 4), ("S", 2), ("i", 1)]


def sweep_data(spec, shape):
    n = rowsize(spec) * nelem(shape)
    return bytes((17 * i + 1) % 251 for i in range(n)).hex()


def sweep_pool():
    """all plain dtypes and all structured dtypes of 1..3 fields over SWEEP_ALPHABET (the second field, when
    there is one, is a (2,) sub-array) x every spelling of a uniform order; shape (2,)"""
    import itertools
    pool = []
    for k, s in SWEEP_ALPHABET:
        for o in (["<", ">", "="] if has_order(k, s) else ["|"]):
            spec = {"plain": [k, s, o]}
            pool.append(({"dtype": spec, "shape": [2], "data": sweep_data(spec, [2])}, "sweep-plain"))
    for nf in (1, 2, 3):
        for combo in itertools.product(SWEEP_ALPHABET, repeat=nf):
            ordered = any(has_order(k, s) for k, s in combo)
            for o in (["<", ">", "="] if ordered else ["|"]):
                fields = [["f%d" % i, k, s, o if has_order(k, s) else "|", [2] if i == 1 else []]
                          for i, (k, s) in enumerate(combo)]
                spec = {"fields": fields}
                pool.append(({"dtype": spec, "shape": [2], "data": sweep_data(spec, [2])}, "sweep-struct%d" % nf))
                if ordered:
                    # the same layout with EVERY multi-byte field a (2,) sub-array (single-byte fields scalar)
                    fields = [["f%d" % i, k, s, o if has_order(k, s) else "|", [2] if has_order(k, s) else []]
                              for i, (k, s) in enumerate(combo)]
                    spec2 = {"fields": fields}
                    if spec2 != spec:
                        pool.append(({"dtype": spec2, "shape": [2], "data": sweep_data(spec2, [2])}, "sweep-allsub%d" % nf))
    return pool


# ----------------------------------------------------------------------------------------------
# recfile.Util.to_native: every field converted on its own (mixed orders)
# ----------------------------------------------------------------------------------------------

class RecNative(Entry):
    """esutil.recfile.Util.to_native(array): the array itself when native, otherwise a converted copy; called twice"""
    name = "rec_to_native"

    def cases(self, ctx, round=0):
        r = ctx.rng
        pool = [(a, fam) for a, fam in array_pool(ctx, round) if not is_padded(a["dtype"])]   # astype drops padding bytes
        if ctx.quick():
            pool = pool[::3]
        cs = [{"array": a, "family": fam} for a, fam in pool]
        nonzero = [sh for sh in SHAPES if nelem(sh)]
        for i in range(ctx.n(40, 300)):           # fields of different orders: what fix 7fcb8b2 is about
            spec = gen_struct(r, "mixed")
            sh = r.choice(nonzero)
            if rowsize(spec) * nelem(sh) > 400:
                sh = r.choice([[], [2]])
            cs.append({"array": arr_case(r, spec, sh), "family": struct_mode(spec)})
        return cs

    def impl(self, c):
        import esutil.recfile.Util as U
        a = build(c["array"])
        if not hasattr(U, "to_native"):        # trees before fix 7fcb8b2: nothing to observe (not a failing input)
            return {"err": "absent", "msg": "recfile.Util.to_native does not exist in this tree"}

        def go():
            r1, o1 = observe(U.to_native, a)
            r2, o2 = observe(U.to_native, r1)
            return [o1, o2]
        return guarded_impl(go)

    def term(self, c, out):
        if "err" in out:
            return "3%Z" if out["err"] != "absent" and not struct_mode_is_mixed(c["array"]["dtype"]) else "1%Z"
        o1, o2 = out["ok"]
        return "v_rec_native %s %s %s %s" % (ml(), carr(c["array"]), cout(o1), cout(o2))

    def nontrivial(self, c, out):
        a = c["array"]
        if "err" in out or not a["data"] or not multibyte(a["dtype"]):
            return False
        return out["ok"][0]["res"]["data"] != a["data"]

    def show(self, c):
        return "rec_to_native %s %s" % (ml(), carr(c["array"]))


# ----------------------------------------------------------------------------------------------
# non-contiguous inputs: the functions called on a view of a larger buffer
# ----------------------------------------------------------------------------------------------

def apply_recipe(x, rc):
    k = rc["kind"]
    if k == "step":
        return x[rc["start"]::rc["step"]]
    if k == "T":
        return x.T
    if k == "block":
        return x[rc["r0"]::rc["rs"], rc["c0"]::rc["cs"]]
    if k == "blockT":
        return x[rc["r0"]::rc["rs"], rc["c0"]::rc["cs"]].T
    if k == "zero-d":
        return x[rc["i"]:rc["i"] + 1].reshape(())
    if k == "whole":
        return x[...]
    raise HarnessFault("unknown view recipe %r" % (rc,))


def gen_recipe(r):
    k = r.choice(["step", "step", "T", "block", "blockT", "zero-d", "whole"])
    if k == "step":
        n = r.randrange(2, 8)
        step = r.choice([2, 3, -1, -2])
        start = r.randrange(0, n) if step > 0 else r.randrange(0, n)
        return [n], {"kind": k, "start": start, "step": step}
    if k == "T":
        return [r.randrange(1, 4), r.randrange(2, 4)], {"kind": k}
    if k in ("block", "blockT"):
        sh = [r.randrange(2, 5), r.randrange(2, 5)]
        return sh, {"kind": k, "r0": r.randrange(0, 2), "rs": r.choice([1, 2, -1]), "c0": r.randrange(0, 2), "cs": r.choice([1, 2, -1])}
    if k == "zero-d":
        n = r.randrange(1, 5)
        return [n], {"kind": k, "i": r.randrange(0, n)}
    return [r.randrange(1, 4)], {"kind": k}


def crows(hexdata, rs):
    b = bytes.fromhex(hexdata)
    return "[%s]" % "; ".join(chex(b[i:i + rs]) for i in range(0, len(b), rs))


class ViewConvert(Entry):
    """the four functions x inplace x keep_dtype on NON-CONTIGUOUS input: strided / reversed / transposed / 2-d block /
    0-d views of a larger buffer; called twice; the owning buffer is observed after the first call"""
    name = "view"

    def cases(self, ctx, round=0):
        r = ctx.rng
        cs = []
        for i in range(ctx.n(45, 400)):
            x = r.random()
            if x < 0.35:
                k, s = r.choice(NUMERIC + UNICODE)
                spec = {"plain": [k, s, r.choice(["<", ">", "="]) if has_order(k, s) else "|"]}
                fam = "view-plain"
            else:
                spec = gen_struct(r, "uniform" if x < 0.6 else "with-na" if x < 0.9 else "mixed", nf=r.randrange(1, 4))
                fam = "view-" + struct_mode(spec)
            if rowsize(spec) > 60:
                continue
            bshape, rc = gen_recipe(r)
            base = arr_case(r, spec, bshape)
            combos = [(f, ip, kd) for f in FNS for ip in (False, True) for kd in (False, True)]
            for f, ip, kd in (r.sample(combos, 4) if ctx.quick() else combos):
                cs.append({"fn": f, "inplace": ip, "keep": kd, "base": base, "recipe": rc, "family": "%s/%s" % (fam, rc["kind"])})
        return cs

    def impl(self, c):
        import numpy as np
        import esutil.numpy_util as nu
        base = build(c["base"])
        I = np.arange(base.size).reshape(base.shape)
        v = apply_recipe(base, c["recipe"])
        idx = [int(x) for x in apply_recipe(I, c["recipe"]).ravel()]
        f = getattr(nu, c["fn"])
        before = describe(v)

        def go():
            r1, o1 = observe(f, v, inplace=c["inplace"], keep_dtype=c["keep"])
            base1 = base.tobytes().hex()
            r2, o2 = observe(f, r1, inplace=c["inplace"], keep_dtype=c["keep"])
            return {"view": before, "idx": idx, "o": [o1, o2], "base1": base1,
                    "contiguous": bool(v.flags["C_CONTIGUOUS"])}
        return guarded_impl(go)

    def term(self, c, out):
        if "err" in out:
            return "3%Z" if not struct_mode_is_mixed(c["base"]["dtype"]) else "1%Z"
        o = out["ok"]
        spec = c["base"]["dtype"]
        rs = rowsize(spec)
        o1, o2 = o["o"]
        return "v_view %s %s %s %s %s %s %s %s %s %s %s" % (
            ml(), CONV[c["fn"]], cdtype(spec), clist(o["view"]["shape"], cnat), crows(c["base"]["data"], rs),
            clist(o["idx"], cnat), cbool(c["inplace"]), cbool(c["keep"]), cout(o1), cout(o2), crows(o["base1"], rs))

    def nontrivial(self, c, out):
        if "err" in out or not multibyte(c["base"]["dtype"]):
            return False
        o = out["ok"]
        return bool(o["idx"]) and (not o["contiguous"] or c["recipe"]["kind"] == "zero-d") \
            and o["o"][0]["res"]["data"] != o["view"]["data"]

    def family(self, c):
        return "%s/%s" % (c.get("family", "?"), c["fn"])


# ----------------------------------------------------------------------------------------------
# nested structured dtypes (the code accepts them; the field scan sees only the top level)
# ----------------------------------------------------------------------------------------------

def gen_nested(r):
    """-> top-level field list: [name, leaf spec [k,s,o,sub]] | [name, {"struct": [[name,k,s,o,sub],...]}, sub]"""
    big = r.random() < 0.5
    ordered = [t for t in NUMERIC + UNICODE if has_order(*t) and t[1] <= 8]
    single = [t for t in NUMERIC + BYTES if not has_order(*t)]

    def leaf(nm):
        k, s = r.choice(ordered if r.random() < 0.65 else single)
        return [nm, k, s, spell(r, big) if has_order(k, s) else "|", r.choice([[], [], [2]])]
    top = []
    names = r.sample(NAMES, r.randrange(1, 4))
    nested_at = r.randrange(len(names))
    for i, nm in enumerate(names):
        if i == nested_at or r.random() < 0.25:
            inner = [leaf("%s%d" % (nm, j)) for j in range(r.randrange(1, 3))]
            top.append({"name": nm, "struct": inner, "sub": r.choice([[], [], [2]])})
        else:
            top.append({"name": nm, "leaf": leaf(nm)})
    return top


def np_nested(top):
    import numpy as np
    fl = []
    for t in top:
        if "leaf" in t:
            n, k, s, o, sub = t["leaf"]
            fl.append((n, np_scalar(k, s, o), tuple(sub)) if sub else (n, np_scalar(k, s, o)))
        else:
            inner = np.dtype([(n, np_scalar(k, s, o), tuple(sub)) if sub else (n, np_scalar(k, s, o))
                              for n, k, s, o, sub in t["struct"]])
            fl.append((t["name"], inner, tuple(t["sub"])) if t["sub"] else (t["name"], inner))
    return np.dtype(fl)


def flatten_dtype(d, prefix=""):
    """leaf fields of a packed (possibly nested) structured dtype, sub-arrays of structures unrolled"""
    out, off = [], 0
    for n in d.names:
        fd, fo = d.fields[n][0], d.fields[n][1]
        if fo != off:
            raise Unrepresentable("padded dtype %r" % (d,))
        off += fd.itemsize
        base, shape = (fd.subdtype[0], [int(x) for x in fd.shape]) if fd.subdtype is not None else (fd, [])
        if base.names is None:
            if base.kind not in KIND:
                raise Unrepresentable("dtype %r" % (base,))
            out.append([prefix + n, base.kind, int(base.itemsize), base.byteorder, shape])
        else:
            cnt = 1
            for x in shape:
                cnt *= x
            for i in range(cnt):
                out += flatten_dtype(base, "%s%s." % (prefix, n))       # the model's prefix_field: "n.x", repeated
    if off != d.itemsize:
        raise Unrepresentable("dtype %r has trailing padding" % (d,))
    return out


def describe_nested(arr):
    return {"dtype": {"fields": flatten_dtype(arr.dtype)}, "shape": [int(x) for x in arr.shape], "data": arr.tobytes().hex()}


def ctfields(top):
    """the nested record as the model's list of top-level fields (flattening and scan list are computed in Coq)"""
    def mkf(n, k, s_, o, sub):
        return "mkF %s %s %s %s %s" % (cstr(n), KIND[k], cnat(s_), ORD[o], clist(sub, cnat))
    out = []
    for t in top:
        if "leaf" in t:
            out.append("TLeaf (%s)" % mkf(*t["leaf"]))
        else:
            out.append("TNest %s [%s] %s" % (cstr(t["name"]), "; ".join(mkf(*f) for f in t["struct"]), cnat(nelem(t["sub"]))))
    return "[%s]" % "; ".join(out)


class Nested(Entry):
    """the four functions on structured arrays with a structured field"""
    name = "nested"

    def cases(self, ctx, round=0):
        r = ctx.rng
        cs = []
        for i in range(ctx.n(25, 250)):
            top = gen_nested(r)
            sh = r.choice([[], [1], [2], [2, 2]])
            combos = [(f, ip, kd) for f in FNS for ip in (False, True) for kd in (False, True)]
            seed = r.randrange(1 << 30)
            for f, ip, kd in (r.sample(combos, 4) if ctx.quick() else combos):
                cs.append({"fn": f, "inplace": ip, "keep": kd, "top": top, "shape": sh, "dataseed": seed, "family": "nested"})
        return cs

    def impl(self, c):
        import random
        import numpy as np
        import esutil.numpy_util as nu
        d = np_nested(c["top"])
        n = d.itemsize * nelem(c["shape"])
        if n > 600:
            return {"err": "skip", "msg": "too large"}
        buf = bytearray(random.Random(c["dataseed"]).randbytes(n))
        a = np.ndarray(tuple(c["shape"]), dtype=d, buffer=buf).copy()
        top = [d.fields[nm][0].base.byteorder for nm in d.names]
        f = getattr(nu, c["fn"])

        def obs(x):
            r = f(x, inplace=c["inplace"], keep_dtype=c["keep"])
            return r, {"res": describe_nested(r), "same": r is x, "shares": bool(r is x or np.shares_memory(r, x)),
                       "inp": describe_nested(x)}

        def go():
            before = describe_nested(a)
            r1, o1 = obs(a)
            r2, o2 = obs(r1)
            return {"array": before, "top": top, "o": [o1, o2]}
        return guarded_impl(go)

    def term(self, c, out):
        if "err" in out:
            return "0%Z" if out["err"] == "skip" else "1%Z"
        o = out["ok"]
        return "v_nested1 %s %s %s %s %s %s %s %s %s" % (
            ml(), CONV[c["fn"]], ctfields(c["top"]), clist(o["top"], lambda x: ORD[x]), carr(o["array"]),
            cbool(c["inplace"]), cbool(c["keep"]), cout(o["o"][0]), cout(o["o"][1]))

    def nontrivial(self, c, out):
        if "err" in out:
            return False
        o = out["ok"]
        return multibyte(o["array"]["dtype"]) and bool(o["array"]["data"]) and o["o"][0]["res"]["data"] != o["array"]["data"]

    def family(self, c):
        return "nested/%s" % c["fn"]


# ----------------------------------------------------------------------------------------------
# sequences: several calls in ONE process, arranged so that state carried across calls (a cache keyed by
# record size + field names, by object identity, by dtype.str ...) would collide
# ----------------------------------------------------------------------------------------------

def _alts(total):
    """field types occupying `total` bytes: (kind, itemsize, subshape)"""
    out = []
    for k, s in NUMERIC + [("S", 1), ("S", 2), ("S", 4), ("S", 8), ("U", 4), ("U", 8)]:
        if s > total or total % s:
            continue
        n = total // s
        if n == 1:
            out.append((k, s, []))
        else:
            out.append((k, s, [n]))
            if n == 4:
                out.append((k, s, [2, 2]))
    return out


def twin_layouts(r, tag, count=2, nf=None):
    """`count` structured layouts with the SAME field names and the same record size (so the same dtype.str '|V<n>'
    and the same dtype.names) but independently chosen field types, sub-array shapes and byte orders"""
    nf = nf or r.randrange(1, 4)
    names = ["%s_%s" % (n, tag) for n in r.sample(NAMES, nf)]
    totals = [r.choice([2, 4, 4, 8, 8, 16]) for _ in range(nf)]
    out = []
    for j in range(count):
        for _try in range(20):
            big = r.random() < 0.7 if j == 0 else r.random() < 0.5
            fields = []
            for nm, tot in zip(names, totals):
                k, s, sub = r.choice(_alts(tot))
                fields.append([nm, k, s, spell(r, big) if has_order(k, s) else "|", sub])
            spec = {"fields": fields}
            if spec not in out and any(has_order(f[1], f[2]) for f in fields):
                out.append(spec)
                break
        else:
            out.append(spec)
    return out


SEQ_FNS = FNS + ["rec_to_native", "to_native_inplace"]


def seq_call(objs, st, keepalive=None):
    """run one step on the live objects; returns its canonical output (input state observed just before the call)"""
    import numpy as np
    import esutil.numpy_util as nu
    import esutil.recfile.Util as U
    a = objs[st["obj"]]
    if st.get("refill") is not None:              # same OBJECT, contents changed in place
        raw = np.frombuffer(bytes.fromhex(st["refill"]), dtype="u1")
        a.reshape(-1).view("u1")[...] = raw[:a.nbytes]
    before = describe(a)
    fn = st["fn"]
    if fn in CONV:
        f = getattr(nu, fn)
        ip, kd, call = st["inplace"], st["keep"], st.get("call", "kw")

        def one(x):
            if call == "default":                 # documented defaults: inplace=False, keep_dtype=False
                return observe(f, x)
            if call == "positional":
                r_ = f(x, ip, kd)
                return r_, {"res": describe(r_), "same": r_ is x, "shares": bool(r_ is x or np.shares_memory(r_, x)),
                            "inp": describe(x)}
            return observe(f, x, inplace=ip, keep_dtype=kd)
        r1, o1 = one(a)
        if st.get("scribble") and r1 is not a:
            # the caller modifies the RETURNED array: the argument must not notice, the next call must not either
            kept = describe(r1)
            r1.reshape(-1).view("u1")[...] = 0xA5
            o1["inp"] = describe(a)
            r1.reshape(-1).view("u1")[...] = np.frombuffer(bytes.fromhex(kept["data"]), dtype="u1")
        r2, o2 = one(r1)
        if keepalive is not None:
            keepalive.append((o1, r1))
        return {"before": before, "o": [o1, o2]}
    if fn == "rec_to_native":
        r1, o1 = observe(U.to_native, a)
        r2, o2 = observe(U.to_native, r1)
        return {"before": before, "o": [o1, o2]}
    if fn == "to_native_inplace":
        outs = []
        for _ in range(2):
            if U.to_native_inplace(a) is not None:
                raise Unrepresentable("to_native_inplace returned a value")
            outs.append(describe(a))
        return {"before": before, "o": outs}
    if fn == "predicates":
        return {"before": before, "o": [bool(nu.is_big_endian(a)), bool(nu.is_little_endian(a))]}
    raise HarnessFault("unknown step function %r" % fn)


def seq_step_guarded(objs, st, keepalive=None):
    return guarded_impl(lambda: seq_call(objs, st, keepalive))


def seq_term(st, out):
    if "err" in out:
        if out["err"] == "absent":
            return "1%Z"
        return "3%Z"
    o = out["ok"]
    b = o["before"]
    fn = st["fn"]
    if fn in CONV:
        ip, kd = (False, False) if st.get("call") == "default" else (st["inplace"], st["keep"])
        return "(v_conv %s %s %s %s %s %s %s)" % (ml(), CONV[fn], carr(b), cbool(ip), cbool(kd), cout(o["o"][0]), cout(o["o"][1]))
    if fn == "rec_to_native":
        return "(v_rec_native %s %s %s %s)" % (ml(), carr(b), cout(o["o"][0]), cout(o["o"][1]))
    if fn == "to_native_inplace":
        return "(v_native_inplace %s %s %s %s)" % (ml(), carr(b), carr(o["o"][0]), carr(o["o"][1]))
    return "(v_pred %s %s %s %s)" % (ml(), cdtype(b["dtype"]), cbool(o["o"][0]), cbool(o["o"][1]))


class Fresh:
    """a pristine helper process (esutil imported, nothing called) that forks once per request: every call it answers
    is made ALONE in a process whose module state no earlier call has touched"""

    def __init__(self):
        self.p = None

    def start(self):
        import subprocess
        import sys
        self.p = subprocess.Popen([sys.executable, "-m", "harness.props.c16_fresh"], stdin=subprocess.PIPE,
                                  stdout=subprocess.PIPE, cwd=core.VERIF, text=True)

    def ask(self, req):
        import json
        if self.p is None or self.p.poll() is not None:
            self.start()
        self.p.stdin.write(json.dumps(req) + "\n")
        self.p.stdin.flush()
        line = self.p.stdout.readline()
        if not line:
            raise HarnessFault("fresh-process helper died")
        return json.loads(line)

    def stop(self):
        if self.p is not None:
            try:
                self.p.stdin.close()
                self.p.wait(timeout=10)
            except Exception:  # noqa
                self.p.kill()
            self.p = None


FRESH = Fresh()


class Sequence(Entry):
    """several calls in one process: twin layouts (same names / record size, different types, sub-shapes, orders) through
    each converter in both call orders; the same object again after its contents were changed in place and a different
    object with equal contents; keyword defaults and positional arguments.  Every call is judged by model + checker on the
    state observed just before it, and (sampled) compared with the same call made alone in a fresh process."""
    name = "sequence"

    def cases(self, ctx, round=0):
        r = ctx.rng
        cs = []
        uid = [0]

        def tag():
            uid[0] += 1
            return "q%d%s" % (uid[0], "r%d" % round if round else "")

        def opts():
            return r.random() < 0.5, r.random() < 0.3

        # (b) twin layouts, every function, both call orders (fresh names per sequence: nothing left over from the
        #     previous sequence can help or hide)
        ntw = ctx.n(10, 50)
        for i in range(ntw):
            for fn in SEQ_FNS:
                ip, kd = opts()
                sh = r.choice([[], [1], [2], [3]])
                for order in ("AB", "BA"):
                    t = tag()
                    rr = __import__("random").Random("%s/%d/%d/%d/%s" % (ctx.pid, ctx.seed, round, i, fn))
                    lays = twin_layouts(rr, t, count=3 if i % 3 == 0 else 2)
                    if order == "BA":
                        lays = lays[::-1]
                    objs = [arr_case(rr, sp, sh) for sp in lays]
                    steps = [{"obj": j, "fn": fn, "inplace": ip, "keep": kd, "scribble": (i + j) % 2 == 0}
                             for j in range(len(objs))]
                    cs.append({"objects": objs, "steps": steps, "family": "twins-%s/%s" % (order, fn)})
        # (b') plain twins: same item size, different kind / order
        for i in range(ctx.n(6, 30)):
            tot = r.choice([2, 4, 8, 16])
            alts = [(k, s) for k, s in NUMERIC + UNICODE if s == tot and has_order(k, s)]
            objs = []
            for k, s in r.sample(alts, min(3, len(alts))):
                objs.append(arr_case(r, {"plain": [k, s, r.choice(["<", ">", "="])]}, r.choice([[], [2], [2, 2]])))
            fn = r.choice(SEQ_FNS)
            ip, kd = opts()
            cs.append({"objects": objs, "steps": [{"obj": j, "fn": fn, "inplace": ip, "keep": kd} for j in range(len(objs))],
                       "family": "plain-twins/%s" % fn})
        # (a) the same object again after its contents were changed in place; a different object with equal contents;
        #     interleaved functions on one object
        for i in range(ctx.n(14, 80)):
            spec = gen_struct(r, r.choice(["uniform", "with-na", "with-na"])) if r.random() < 0.7 else \
                {"plain": list(r.choice([t for t in NUMERIC if has_order(*t)])) + [r.choice(["<", ">", "="])]}
            sh = r.choice([[], [2], [3]])
            if rowsize(spec) * nelem(sh) > 300:
                sh = []
            a0 = arr_case(r, spec, sh)
            fn = r.choice(SEQ_FNS)
            ip, kd = opts()
            steps = [{"obj": 0, "fn": fn, "inplace": ip, "keep": kd, "scribble": True},
                     {"obj": 0, "fn": fn, "inplace": ip, "keep": kd, "refill": gen_data(r, spec, sh, "random")},
                     {"obj": 1, "fn": fn, "inplace": ip, "keep": kd},
                     {"obj": 0, "fn": r.choice(SEQ_FNS), "inplace": not ip, "keep": kd},
                     {"obj": 1, "fn": "predicates"}]
            cs.append({"objects": [a0, dict(a0)], "steps": steps, "family": "same-object-refilled/%s" % fn})
        # (e) keyword defaults / positional arguments
        for i in range(ctx.n(8, 40)):
            spec = gen_struct(r, r.choice(["uniform", "with-na"])) if r.random() < 0.6 else \
                {"plain": list(r.choice([t for t in NUMERIC if has_order(*t)])) + [r.choice(["<", ">", "="])]}
            a0 = arr_case(r, spec, r.choice([[], [2]]))
            steps = []
            for fn in FNS:
                steps.append({"obj": 0, "fn": fn, "inplace": False, "keep": False, "call": "default"})
                ip, kd = opts()
                steps.append({"obj": 0, "fn": fn, "inplace": ip, "keep": kd, "call": "positional"})
            cs.append({"objects": [a0], "steps": steps, "family": "defaults-positional"})
        if not ctx.quick() and round == 0:
            cs += sweep_sequences()
        # sampled: every step also alone in a fresh process
        nfresh = ctx.n(24, 150)
        pick = set(r.sample(range(len(cs)), min(nfresh, len(cs))))
        for i, c in enumerate(cs):
            c["fresh"] = i in pick
        return cs

    def impl(self, c):
        objs = [build(a) for a in c["objects"]]
        outs = []
        keepalive = []          # (recorded outcome, live result) of every converter call: results must stay what they were
        for st in c["steps"]:
            if st["fn"] == "rec_to_native":
                import esutil.recfile.Util as U
                if not hasattr(U, "to_native"):
                    outs.append({"err": "absent", "msg": "recfile.Util.to_native does not exist in this tree"})
                    continue
            out = seq_step_guarded(objs, st, keepalive)
            if c.get("fresh") and "ok" in out:
                # the same call on the same input state, alone in a fresh process
                alone = FRESH.ask({"array": out["ok"]["before"], "step": dict(st, obj=0, refill=None)})
                out["history_independent"] = (alone == {"ok": out["ok"]})
                if not out["history_independent"]:
                    out["alone"] = alone
            outs.append(out)
        # a result handed out earlier that a LATER call changed (internal buffer shared between results) is judged in
        # the state it has now: model and checker then reject it
        for o1, live in keepalive:
            if not o1["same"]:
                now = describe(live)
                if now != o1["res"]:
                    o1["res"] = now
        return outs

    def term(self, c, outs):
        ts = []
        for st, out in zip(c["steps"], outs):
            t = seq_term(st, out)
            if out.get("history_independent") is False:     # differs from the call made alone: one of the two is not the model
                t = "(Z.lor 1 %s)" % t
            ts.append(t)
        e = heap_term(c, outs)
        for t in reversed(ts):
            e = "(Z.lor %s %s)" % (t, e)
        return e

    def nontrivial(self, c, outs):
        n = 0
        for st, out in zip(c["steps"], outs):
            if "ok" in out and st["fn"] != "predicates":
                b = out["ok"]["before"]
                first = out["ok"]["o"][0]
                after = first["res"]["data"] if isinstance(first, dict) and "res" in first else first["data"]
                if b["data"] and multibyte(b["dtype"]) and after != b["data"]:
                    n += 1
        return n >= 1 and len(c["steps"]) >= 2

    def family(self, c):
        return c.get("family", "sequence")


def heap_term(c, outs):
    """the whole sequence run by the model from the INITIAL objects (Deep.run) against the observed answers"""
    if any("ok" not in o for o in outs):
        return "0%Z"
    calls, obs = [], []
    for st, out in zip(c["steps"], outs):
        k, fn, o = cnat(st["obj"]), st["fn"], out["ok"]["o"]
        if fn == "predicates":
            continue
        if st.get("refill") is not None:
            calls.append("CRefill %s %s" % (k, chex(bytes.fromhex(st["refill"]))))
            obs.append("ANone")
        if fn in CONV:
            ip, kd = (False, False) if st.get("call") == "default" else (st["inplace"], st["keep"])
            calls.append("CConv %s %s %s %s" % (CONV[fn], k, cbool(ip), cbool(kd)))
            obs.append("AConv %s %s" % (cout(o[0]), cout(o[1])))
        elif fn == "rec_to_native":
            calls.append("CRecNative %s" % k)
            obs.append("AConv %s %s" % (cout(o[0]), cout(o[1])))
        else:
            calls.append("CNativeInplace %s" % k)
            obs.append("AArr2 %s %s" % (carr(o[0]), carr(o[1])))
    return "(v_heap %s [%s] [%s] [%s])" % (ml(), "; ".join(carr(a) for a in c["objects"]), "; ".join(calls), "; ".join(obs))


def sweep_sequences():
    """thorough tier: EVERY ordered pair of distinct one- and two-field layouts occupying the same bytes under the same
    names (alphabet of 4-byte field types x both orders), through each of the six functions"""
    alts = [("i", 4, []), ("f", 4, []), ("i", 2, [2]), ("U", 4, []), ("S", 4, []), ("u", 1, [4])]
    lays = []
    for k, s, sub in alts:
        for o in (["<", ">"] if has_order(k, s) else ["|"]):
            lays.append((k, s, o, sub))
    cs = []
    n = 0
    for extra in (False, True):
        for ia, A in enumerate(lays):
            for ib, B in enumerate(lays):
                if ia == ib:
                    continue
                fn = SEQ_FNS[n % len(SEQ_FNS)]
                ip, kd = bool((n // 6) % 2), bool((n // 12) % 3 == 0)
                n += 1
                for f2 in ([fn] if n % 5 else SEQ_FNS):
                    t = "w%d_%s" % (n, f2[:4])
                    objs = []
                    for k, s, o, sub in (A, B):
                        fields = ([["s_" + t, "S", 3, "|", []]] if extra else []) + [["x_" + t, k, s, o, sub]]
                        spec = {"fields": fields}
                        objs.append({"dtype": spec, "shape": [2], "data": sweep_data(spec, [2])})
                    cs.append({"objects": objs, "family": "sweep-twins/%s" % f2,
                               "steps": [{"obj": 0, "fn": f2, "inplace": ip, "keep": kd},
                                         {"obj": 1, "fn": f2, "inplace": ip, "keep": kd}]})
    return cs


class SubclassConvert(Convert):
    """the four functions x inplace x keep_dtype on ndarray SUBCLASS objects (np.recarray, a trivial user subclass): the
    object handed in must be the object relabelled and returned (np.asarray(obj) of such an object is a NEW base-class
    view: swapping through it leaves the caller's object with the old dtype over swapped bytes)"""
    name = "subclass"

    def cases(self, ctx, round=0):
        r = ctx.rng
        cs = []
        arrays = []
        for i in range(ctx.n(12, 90)):
            x = r.random()
            if x < 0.3:
                k, s = r.choice([t for t in NUMERIC + UNICODE if has_order(*t)])
                spec, fam = {"plain": [k, s, r.choice(["<", ">", "="])]}, "plain"
            else:
                spec = gen_struct(r, "uniform" if x < 0.55 else "with-na" if x < 0.9 else "mixed", nf=r.randrange(1, 4))
                fam = struct_mode(spec)
            sh = r.choice([[], [2], [3], [2, 2]])
            if rowsize(spec) * nelem(sh) > 300:
                sh = [1]
            arrays.append((arr_case(r, spec, sh), fam))
        for i, (a, fam) in enumerate(arrays):
            klasses = ["recarray", "subclass"] if not ctx.quick() else [["recarray", "subclass"][i % 2]]
            for kl in klasses:
                for f in FNS:
                    for ip in (False, True):
                        for kd in (False, True):
                            cs.append({"fn": f, "inplace": ip, "keep": kd, "array": a, "klass": kl, "family": "%s:%s" % (kl, fam)})
        return cs

    def show(self, c):
        return Convert.show(self, c)


class Scale(Convert):
    """scale thresholds that are still ordinary inputs (thorough tier): more than 2^15 elements / 2^16 bytes in one buffer"""
    name = "scale"

    def cases(self, ctx, round=0):
        if ctx.quick() or round:
            return []
        r = ctx.rng
        a1 = arr_case(r, {"plain": ["i", 2, r.choice(["<", ">"])]}, [(1 << 15) + 3], "random")
        spec = {"fields": [["id", "i", 4, ">", []], ["s", "S", 3, "|", []], ["v", "f", 8, ">", [2]]]}
        a2 = arr_case(r, spec, [(1 << 16) // 23 + 2], "random")
        return [{"fn": "to_native", "inplace": True, "keep": False, "array": a1, "family": "scale-plain"},
                {"fn": r.choice(["to_little_endian", "byteswap"]), "inplace": False, "keep": False, "array": a2,
                 "family": "scale-struct"}]


ENTRIES = [Convert(), NativeInplace(), Predicates(), Descr(), RecNative(), ViewConvert(), Nested(), Sequence(),
           SubclassConvert(), Scale()]

TRUSTED = [
    "Coq 8.16.1 kernel (coqc, vm_compute; no native_compute); every C16 theorem is closed under the global context (no axioms)",
    "translator harness/props/c16_translate.py (python ast -> C16/Gen.v, fail-closed, run on every check): trusted to print "
    "Gallina that says what the source says for the statement/expression subset it accepts (assignments, if/else, the "
    "`names is None` split, the field-name loop with break, boolean expressions over order letters and the machine flag, "
    "calls of the predicates / byteswap / ndarray.byteswap / copy / astype / view / newbyteorder, .dtype assignment, keyword "
    "defaults, the two descriptor-stripping loops); C16/Tie.v (proved, re-checked against the regenerated text) shows every "
    "regenerated function equal to the hand model C16/Model.v + Ext.v, so the theorems are about the translated source",
    "hand-written model C16/Model.v + Ext.v of numpy_util.{is_big_endian,is_little_endian,to_native,to_big_endian,to_little_endian,"
    "byteswap,descr_to_native} and recfile/Util.{remove_dtype_byteorder,to_native_inplace,to_native,is_little_endian}; besides the "
    "source tie it is compared with the working tree by the correspondence run on every check (dtype incl. the spelling of every "
    "field's byteorder, shape, raw bytes, same-object, shares-memory, caller's array after the call; two consecutive calls; the "
    "owning buffer of a non-contiguous view)",
    "modelled, not verified (the primitives of Ext.v): numpy's ndarray.byteswap (reverse every unit: item, complex half, UCS4 "
    "code point; byte strings untouched; recursion into nested fields), dtype.newbyteorder(arg) ('|' stays, native -> opposite "
    "letter, opposite -> machine letter; '=' -> native), dtype == as equivalence of meaning, ndarray.astype between dtypes of one "
    "structure as field-wise conversion, ndarray.copy, assignment to .dtype vs .view, dtype.descr and numpy.dtype(descr) parsing, "
    "object identity / buffer aliasing as two flags; strided views as gather/scatter of elements; packed dtypes only",
    "numpy.little_endian is a model parameter (theorems hold for both values); the correspondence run measures the machine it runs on",
    "python harness (harness/props/C16.py): array construction with exact byteorder spelling (round-trip asserted), view recipes and "
    "their element index maps, flattening of nested dtypes to leaf fields, literal printers, coqc evaluating Exec.v verdict terms",
]


def run(ctx, replay=None):
    ctx.rule = ("corpus + every plain numeric kind/itemsize in each spelling ('<' '>' '=' / '|'), byte strings, unicode, "
                "adversarial structured layouts ('|' field first/middle/last), seeded random structured dtypes (scalar and "
                "sub-array fields, uniform order with mixed '<'/'=' spellings, '|' fields mixed in, all-'|', and mixed-order "
                "ones outside the quantifier for the model only), shapes 0-d..2-d incl. empty; x 4 functions x inplace x "
                "keep_dtype, each called twice; the same through non-contiguous views (strided, reversed, transposed, 2-d "
                "blocks, 0-d) with the owning buffer observed; nested structured dtypes (leaf view + what the scan sees); "
                "recfile.Util.to_native incl. fields of different orders; thorough tier: exhaustive sweep of all plain and "
                "1..3-field structured dtypes over the alphabet {i2,f4,c8,U1,S2,i1} x every spelling of a uniform order x 4 "
                "functions x inplace x keep_dtype.  Every case runs on the real esutil (scratch build of the working tree) "
                "and inside Coq (model = implementation?  verified checker conv_check on the implementation's output).  "
                "non-trivial: non-empty array with a multi-byte unit and (the call changed the bytes or a '|' field is "
                "present); view: additionally not C-contiguous (or 0-d); predicates: plain array; descr: a field with a "
                "byte order.  distinct by canonical JSON.")
    ctx.trusted = TRUSTED
    # 1. regenerate C16/Gen.v from the source of the tree under check (fail closed)
    defs = None
    try:
        defs, changed = c16_translate.regenerate(ctx.impl, core.COQDIR)
        ctx.obligation("C16/Gen.v regenerated from esutil/numpy_util.py + esutil/recfile/Util.py (%d definitions: predicates, "
                       "field scans, swap conditions, byteswap/newbyteorder arguments, copy vs same object, defaults, descriptor "
                       "stripping)%s" % (len(defs), " [changed]" if changed else ""), True)
    except c16_translate.TranslateError as e:
        c16_translate.write_reference(core.COQDIR)          # never keep the text of a tree checked earlier
        ctx.obligation("C16/Gen.v regenerated from esutil/numpy_util.py + esutil/recfile/Util.py", False, str(e))
        ctx.violation("translation of the byte-order functions failed (fail-closed): %s" % e,
                      {"kind": "translation", "error": str(e),
                       "no_longer_checks": "source tie C16_source_tie / C16_statement_of_source (C16/Gen.v = model) to "
                                           "esutil/numpy_util.py and esutil/recfile/Util.py"}, found_input=False)
    # 2. theorems; C16_source_* are re-checked against the regenerated Gen.v
    built = core.proof_step(ctx, "C16", core.ALLOW_DISCRETE)
    if not built:
        if defs is not None:
            diff = c16_translate.differences(defs)
            ctx.notes.append("regenerated definitions that differ from the modelled source: %s" % (", ".join(diff) or "none"))
        # the model and the checkers do not depend on Gen.v: keep looking for a failing input
        ok, _log = core.coq_make(["theories/C16/Exec.vo"])
        if not ok:
            return
    # 3. correspondence
    try:
        differential(ctx, PRE, ENTRIES, replay)
    finally:
        FRESH.stop()

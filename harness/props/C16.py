"""C16 — byte-order conversion preserves values and declares the requested order
(DESIGN.md section 7, C16).

Arrays travel as (dtype spec, shape, hex of the C-order buffer).  A dtype spec keeps the four
spellings of dtype.byteorder ('<' '>' '=' '|') distinct:
    {"plain": [kind, itemsize, order]}  |  {"fields": [[name, kind, itemsize, order, subshape], ...]}
"""
import warnings

from .. import core
from ..core import cbool, clist, cnat, cstr, chex
from ..runner import Entry, differential

PRE = ("From Coq Require Import String.\nFrom EsVerif.Common Require Import Base Bytes.\n"
       "From EsVerif.C16 Require Import Model Spec Exec.\nLocal Open Scope list_scope.\n")

ORD = {"<": "LE", ">": "BE", "|": "NA", "=": "NAT"}
KIND = {"i": "KInt", "u": "KUInt", "f": "KFloat", "c": "KComplex", "b": "KBool", "S": "KBytes", "U": "KUnicode"}
CONV = {"to_native": "ToNative", "to_big_endian": "ToBig", "to_little_endian": "ToLittle", "byteswap": "Swap"}
FNS = list(CONV)

NUMERIC = [("i", 1), ("i", 2), ("i", 4), ("i", 8), ("u", 1), ("u", 2), ("u", 4), ("u", 8),
           ("f", 2), ("f", 4), ("f", 8), ("f", 16), ("c", 8), ("c", 16), ("c", 32), ("b", 1)]
BYTES = [("S", 1), ("S", 3), ("S", 8)]
UNICODE = [("U", 4), ("U", 12)]
SHAPES = [[], [1], [3], [0], [2, 2], [1, 3], [3, 1], [2, 0]]


def has_order(kind, size):
    return not (kind in "Sb" or (kind in "iu" and size == 1))


def unit(kind, size):
    return {"c": size // 2, "S": 1, "U": 4}.get(kind, size)


# ----------------------------------------------------------------------------------------------
# numpy side: build / describe arrays without losing the spelling of the byte order
# ----------------------------------------------------------------------------------------------

def np_scalar(kind, size, order):
    import numpy as np
    body = "%s%d" % (kind, size // 4 if kind == "U" else size)
    if order == "<" and np.little_endian or order == ">" and not np.little_endian:
        d = np.dtype(("<>"[np.little_endian]) + body).newbyteorder()   # the machine's own letter, spelled out
    else:
        d = np.dtype(order + body)
    if d.byteorder != order or d.kind != kind or d.itemsize != size:
        raise HarnessFault("cannot build dtype %s%s: got %r %s" % (order, body, d.byteorder, d.str))
    return d


def np_dtype(spec):
    import numpy as np
    if "plain" in spec:
        return np_scalar(*spec["plain"])
    d = np.dtype([(n, np_scalar(k, s, o), tuple(sub)) if sub else (n, np_scalar(k, s, o))
                  for n, k, s, o, sub in spec["fields"]])
    if describe_dtype(d) != spec:
        raise HarnessFault("cannot build dtype %r: got %r" % (spec, describe_dtype(d)))
    return d


def describe_dtype(d):
    if d.names is None:
        if d.kind not in KIND or d.subdtype is not None:
            raise Unrepresentable("dtype %r" % (d,))
        return {"plain": [d.kind, int(d.itemsize), d.base.byteorder]}
    fields, off = [], 0
    for n in d.names:
        fd, fo = d.fields[n][0], d.fields[n][1]
        if fo != off or fd.base.kind not in KIND or fd.base.names is not None:
            raise Unrepresentable("dtype %r (padding, nesting or foreign kind)" % (d,))
        fields.append([n, fd.base.kind, int(fd.base.itemsize), fd.base.byteorder, [int(x) for x in fd.shape]])
        off += fd.itemsize
    if off != d.itemsize:
        raise Unrepresentable("dtype %r has trailing padding" % (d,))
    return {"fields": fields}


def build(a):
    import numpy as np
    d = np_dtype(a["dtype"])
    buf = bytearray(bytes.fromhex(a["data"]))
    arr = np.ndarray(tuple(a["shape"]), dtype=d, buffer=buf).copy()   # owns its data, C-contiguous
    if describe(arr) != {"dtype": a["dtype"], "shape": a["shape"], "data": a["data"]}:
        raise HarnessFault("array does not round-trip: %r" % (a,))
    return arr


def describe(arr):
    import numpy as np
    if not isinstance(arr, np.ndarray):
        raise Unrepresentable("result is %s, not ndarray" % type(arr).__name__)
    return {"dtype": describe_dtype(arr.dtype), "shape": [int(x) for x in arr.shape], "data": arr.tobytes().hex()}


class HarnessFault(Exception):
    pass


class Unrepresentable(Exception):
    pass


def observe(f, a, **kw):
    """call f on array a; returns (result, outcome dict).  'shares' is buffer aliasing; an object
    trivially shares with itself (numpy reports False for empty arrays)."""
    import numpy as np
    r = f(a, **kw)
    res = describe(r)
    return r, {"res": res, "same": r is a, "shares": bool(r is a or np.shares_memory(r, a)), "inp": describe(a)}


def guarded_impl(fn):
    try:
        with warnings.catch_warnings():
            warnings.simplefilter("ignore", DeprecationWarning)   # numpy 2.5: "Setting the dtype on a NumPy array"
            return {"ok": fn()}
    except HarnessFault:
        raise
    except Exception as e:  # noqa
        return {"err": core.errclass(e), "msg": "%s: %s" % (type(e).__name__, str(e)[:200])}


# ----------------------------------------------------------------------------------------------
# Coq printers
# ----------------------------------------------------------------------------------------------

def cdtype(spec):
    if "plain" in spec:
        k, n, o = spec["plain"]
        return "(DPlain (mkS %s %s %s))" % (KIND[k], cnat(n), ORD[o])
    return "(DStruct [%s])" % "; ".join(
        "mkF %s %s %s %s %s" % (cstr(n), KIND[k], cnat(s), ORD[o], clist(sub, cnat)) for n, k, s, o, sub in spec["fields"])


def cfields(spec):
    return "[%s]" % "; ".join(
        "mkF %s %s %s %s %s" % (cstr(n), KIND[k], cnat(s), ORD[o], clist(sub, cnat)) for n, k, s, o, sub in spec["fields"])


def carr(a):
    return "(mkA %s %s %s)" % (cdtype(a["dtype"]), clist(a["shape"], cnat), chex(bytes.fromhex(a["data"])))


def cout(o):
    return "(mkO %s %s %s %s)" % (carr(o["res"]), cbool(o["same"]), cbool(o["shares"]), carr(o["inp"]))


def cdescr(d):
    return "[%s]" % "; ".join("(%s, %s, %s)" % (cstr(n), cstr(t), clist(sh, cnat)) for n, t, sh in d)


def ml():
    import numpy as np
    return cbool(np.little_endian)


# ----------------------------------------------------------------------------------------------
# generators
# ----------------------------------------------------------------------------------------------

def segs(spec):
    if "plain" in spec:
        k, s, o = spec["plain"]
        return [(k, s, o, 1)]
    out = []
    for n, k, s, o, sub in spec["fields"]:
        m = 1
        for x in sub:
            m *= x
        out.append((k, s, o, m))
    return out


def rowsize(spec):
    return sum(s * m for _, s, _, m in segs(spec))


def nelem(shape):
    n = 1
    for x in shape:
        n *= x
    return n


def gen_data(r, spec, shape, style=None):
    style = style or r.choice(["random", "random", "random", "small", "zeros", "ff"])
    out = bytearray()
    for _ in range(nelem(shape)):
        for k, s, o, m in segs(spec):
            n = s * m
            if k == "b":
                out += bytes(r.randrange(2) for _ in range(n))
            elif style == "random":
                out += r.randbytes(n)
            elif style == "small":
                out += bytes(r.randrange(3) for _ in range(n))
            elif style == "zeros":
                out += bytes(n)
            else:
                out += b"\xff" * n
    return out.hex()


def arr_case(r, spec, shape, style=None):
    return {"dtype": spec, "shape": shape, "data": gen_data(r, spec, shape, style)}


def spell(r, big):
    """a spelling of the requested endianness; on this machine '=' is one of the two"""
    import numpy as np
    native_big = not np.little_endian
    if big == native_big:
        return r.choice(["=", ">" if big else "<"])
    return ">" if big else "<"


NAMES = ["a", "b", "c", "d", "e", "f", "g", "ra", "dec", "flux_r", "ID", "x1", "s", "flag"]


def gen_struct(r, mode, nf=None):
    """mode: 'uniform' (all ordered fields one order), 'with-na' (uniform + at least one '|' field and
    one ordered field), 'all-na', 'mixed' (both orders present: outside the quantifier)"""
    nf = nf or r.randrange(1, 6)
    names = r.sample(NAMES, nf)
    big = r.random() < 0.5
    ordered = [t for t in NUMERIC + UNICODE if has_order(*t)]
    single = [t for t in NUMERIC + BYTES if not has_order(*t)]
    kinds = []
    for i in range(nf):
        if mode == "all-na":
            kinds.append(r.choice(single))
        elif mode == "uniform":
            kinds.append(r.choice(ordered if r.random() < 0.8 else single))
        else:
            kinds.append(r.choice(ordered if r.random() < 0.55 else single))
    if mode == "with-na":
        if nf < 2:
            nf, names = 2, r.sample(NAMES, 2)
            kinds = kinds + [r.choice(single)]
        pos = r.sample(range(nf), 2)
        kinds[pos[0]] = r.choice(single)
        kinds[pos[1]] = r.choice(ordered)
    if mode == "mixed":
        if nf < 2:
            nf, names = 2, r.sample(NAMES, 2)
            kinds = kinds + [r.choice(ordered)]
        pos = r.sample(range(nf), 2)
        kinds[pos[0]] = r.choice(ordered)
        kinds[pos[1]] = r.choice(ordered)
    fields = []
    for i, (k, s) in enumerate(kinds):
        sub = r.choice([[], [], [], [2], [3], [1], [2, 2]])
        if s >= 16 and len(sub) == 2:
            sub = [2]
        o = spell(r, big) if has_order(k, s) else "|"
        fields.append([names[i], k, s, o, sub])
    if mode == "mixed":
        fields[pos[0]][3] = spell(r, True)
        fields[pos[1]][3] = spell(r, False)
    return {"fields": fields}


def struct_mode(spec):
    os_ = [o for _, _, _, o, _ in spec["fields"]]
    import numpy as np
    bigs = set((o == ">") or (o == "=" and not np.little_endian) for o in os_ if o != "|")
    if len(bigs) > 1:
        return "struct-mixed-order(outside quantifier: model only)"
    if not bigs:
        return "struct-all-|"
    return "struct-uniform-with-|" if "|" in os_ else "struct-uniform"


def array_pool(ctx, round):
    """list of (array case, family)"""
    r = ctx.rng
    pool = []
    if round == 0:
        # every numeric kind and item size in every spelling, byte strings, unicode; 0-d to 2-d
        for k, s in NUMERIC + BYTES + UNICODE:
            for o in (["<", ">", "="] if has_order(k, s) else ["|"]):
                spec = {"plain": [k, s, o]}
                fam = "plain-bytes" if k == "S" else "plain-unicode" if k == "U" else "plain-numeric"
                shapes = SHAPES if not ctx.quick() else [r.choice(SHAPES[:3]), r.choice(SHAPES[3:])]
                for sh in shapes:
                    pool.append((arr_case(r, spec, sh), fam if nelem(sh) else "zero-size"))
        # adversarial: '|' field first / middle / last, around one ordered field, every spelling
        for o in ("<", ">", "="):
            for lay in (["S", "n"], ["n", "S"], ["b", "n", "S"], ["n", "i1", "n"], ["S", "n", "n", "S"]):
                fields = []
                for i, t in enumerate(lay):
                    if t == "n":
                        k, s = r.choice([("i", 4), ("f", 8), ("c", 16), ("u", 2), ("U", 8)])
                        fields.append(["n%d" % i, k, s, o, r.choice([[], [2]])])
                    elif t == "S":
                        fields.append(["s%d" % i, "S", r.choice([1, 3, 5]), "|", r.choice([[], [2]])])
                    elif t == "b":
                        fields.append(["b%d" % i, "b", 1, "|", []])
                    else:
                        fields.append(["t%d" % i, "i", 1, "|", []])
                for sh in ([[], [2]] if ctx.quick() else [[], [2], [2, 2], [0]]):
                    pool.append((arr_case(r, {"fields": fields}, sh), "struct-uniform-with-|" if nelem(sh) else "zero-size"))
    n = ctx.n(70, 700) if round == 0 else ctx.n(60, 300)
    nonzero = [sh for sh in SHAPES if nelem(sh)]
    for i in range(n):
        x = r.random()
        mode = "uniform" if x < 0.35 else "with-na" if x < 0.77 else "all-na" if x < 0.84 else "mixed"
        spec = gen_struct(r, mode)
        sh = r.choice(nonzero) if i % 12 else r.choice([[0], [2, 0]])
        if rowsize(spec) * nelem(sh) > 400:
            sh = r.choice([[], [1], [2]])
        pool.append((arr_case(r, spec, sh), struct_mode(spec) if nelem(sh) else "zero-size"))
    return pool


def multibyte(spec):
    return any(unit(k, s) > 1 for k, s, _, _ in segs(spec))


def has_na_field(spec):
    return "fields" in spec and any(o == "|" for _, _, _, o, _ in spec["fields"])


# ----------------------------------------------------------------------------------------------
# entries
# ----------------------------------------------------------------------------------------------

class Convert(Entry):
    """to_native / to_big_endian / to_little_endian / byteswap x inplace x keep_dtype, each called
    twice in a row (idempotence, swap-twice)"""
    name = "convert"

    def cases(self, ctx, round=0):
        r = ctx.rng
        cs = []
        for a, fam in array_pool(ctx, round):
            combos = [(f, ip, kd) for f in FNS for ip in (False, True) for kd in (False, True)]
            if ctx.quick() and round == 0 and fam.startswith("plain"):
                combos = r.sample(combos, 6)
            for f, ip, kd in combos:
                cs.append({"fn": f, "inplace": ip, "keep": kd, "array": a, "family": fam})
        return cs

    def impl(self, c):
        import esutil.numpy_util as nu
        a = build(c["array"])
        f = getattr(nu, c["fn"])

        def go():
            r1, o1 = observe(f, a, inplace=c["inplace"], keep_dtype=c["keep"])
            r2, o2 = observe(f, r1, inplace=c["inplace"], keep_dtype=c["keep"])
            return [o1, o2]
        return guarded_impl(go)

    def term(self, c, out):
        if "err" in out:        # the functions must accept every array of the quantifier
            return "3%Z" if not struct_mode_is_mixed(c["array"]["dtype"]) else "1%Z"
        o1, o2 = out["ok"]
        return "v_conv %s %s %s %s %s %s %s" % (ml(), CONV[c["fn"]], carr(c["array"]), cbool(c["inplace"]),
                                                cbool(c["keep"]), cout(o1), cout(o2))

    def nontrivial(self, c, out):
        a = c["array"]
        if "err" in out or not a["data"] or not multibyte(a["dtype"]):
            return False
        return out["ok"][0]["res"]["data"] != a["data"] or has_na_field(a["dtype"])

    def family(self, c):
        return "%s/%s" % (c.get("family", "?"), c["fn"])

    def show(self, c):
        return "apply %s %s %s %s %s" % (CONV[c["fn"]], ml(), carr(c["array"]), cbool(c["inplace"]), cbool(c["keep"]))


def struct_mode_is_mixed(spec):
    return "fields" in spec and struct_mode(spec).startswith("struct-mixed")


class NativeInplace(Entry):
    """esutil.recfile.Util.to_native_inplace (returns None; works in the caller's buffer), called twice"""
    name = "to_native_inplace"

    def cases(self, ctx, round=0):
        pool = array_pool(ctx, round)
        if ctx.quick():
            pool = pool[::3]
        return [{"array": a, "family": fam} for a, fam in pool]

    def impl(self, c):
        import esutil.recfile.Util as U
        a = build(c["array"])

        def go():
            outs = []
            for _ in range(2):
                ret = U.to_native_inplace(a)
                if ret is not None:
                    raise Unrepresentable("to_native_inplace returned %r" % (ret,))
                outs.append(describe(a))
            return outs
        return guarded_impl(go)

    def term(self, c, out):
        if "err" in out:
            return "3%Z" if not struct_mode_is_mixed(c["array"]["dtype"]) else "1%Z"
        return "v_native_inplace %s %s %s %s" % (ml(), carr(c["array"]), carr(out["ok"][0]), carr(out["ok"][1]))

    def nontrivial(self, c, out):
        a = c["array"]
        if "err" in out or not a["data"] or not multibyte(a["dtype"]):
            return False
        return out["ok"][0]["data"] != a["data"] or has_na_field(a["dtype"])

    def show(self, c):
        return "to_native_inplace %s %s" % (ml(), carr(c["array"]))


class Predicates(Entry):
    """is_big_endian / is_little_endian on every spelling ('<' '>' '=' '|'), plain arrays (and the
    documented-unsupported structured ones for the model only)"""
    name = "predicates"

    def cases(self, ctx, round=0):
        r = ctx.rng
        cs = []
        if round == 0:
            for k, s in NUMERIC + BYTES + UNICODE:
                for o in (["<", ">", "="] if has_order(k, s) else ["|"]):
                    for sh in ([[], [2]] if ctx.quick() else SHAPES):
                        cs.append({"array": arr_case(r, {"plain": [k, s, o]}, sh), "family": "spelling " + o})
        for _ in range(ctx.n(10, 60)):
            spec = gen_struct(r, r.choice(["uniform", "with-na", "mixed"]))
            cs.append({"array": arr_case(r, spec, r.choice([[], [2]])), "family": "structured (model only)"})
        return cs

    def impl(self, c):
        import esutil.numpy_util as nu
        a = build(c["array"])
        return guarded_impl(lambda: [bool(nu.is_big_endian(a)), bool(nu.is_little_endian(a))])

    def term(self, c, out):
        if "err" in out:
            return "3%Z" if "plain" in c["array"]["dtype"] else "1%Z"
        return "v_pred %s %s %s %s" % (ml(), cdtype(c["array"]["dtype"]), cbool(out["ok"][0]), cbool(out["ok"][1]))

    def nontrivial(self, c, out):
        return "plain" in c["array"]["dtype"]

    def show(self, c):
        d = cdtype(c["array"]["dtype"])
        return "(is_big_endian %s (base_order %s), is_little_endian %s (base_order %s))" % (ml(), d, ml(), d)


class Descr(Entry):
    """numpy_util.descr_to_native(dtype.descr) and recfile.Util.remove_dtype_byteorder(dtype)"""
    name = "descr_to_native"

    def cases(self, ctx, round=0):
        r = ctx.rng
        cs = []
        for i in range(ctx.n(80, 600)):
            spec = gen_struct(r, r.choice(["uniform", "with-na", "all-na", "mixed"]))
            cs.append({"dtype": spec, "fn": ["numpy_util.descr_to_native", "recfile.Util.remove_dtype_byteorder"][i % 2],
                       "family": struct_mode(spec)})
        return cs

    def impl(self, c):
        import numpy as np
        import esutil.numpy_util as nu
        import esutil.recfile.Util as U
        d = np_dtype(c["dtype"])

        def canon(descr):
            out = []
            for e in descr:
                if not isinstance(e, tuple) or len(e) not in (2, 3) or not isinstance(e[0], str) or not isinstance(e[1], str):
                    raise Unrepresentable("descr entry %r" % (e,))
                out.append([e[0], e[1], [int(x) for x in e[2]] if len(e) == 3 else []])
            return out

        def go():
            before = canon(d.descr)
            out = nu.descr_to_native(d.descr) if c["fn"].startswith("numpy_util") else U.remove_dtype_byteorder(d)
            parsed = describe_dtype(np.dtype(out))
            if canon(d.descr) != before:
                raise Unrepresentable("the caller's descr was modified")
            return {"indescr": before, "out": canon(out), "parsed": parsed}
        return guarded_impl(go)

    def term(self, c, out):
        if "err" in out:
            return "3%Z"
        o = out["ok"]
        return "v_descr %s %s %s %s %s" % (ml(), cfields(c["dtype"]), cdescr(o["indescr"]), cdescr(o["out"]), cdtype(o["parsed"]))

    def nontrivial(self, c, out):
        return any(o in "<>=" for _, _, _, o, _ in c["dtype"]["fields"])

    def family(self, c):
        return "%s/%s" % (c["family"], c["fn"].split(".")[-1])

    def show(self, c):
        return "descr_to_native (descr_of %s %s)" % (ml(), cfields(c["dtype"]))


ENTRIES = [Convert(), NativeInplace(), Predicates(), Descr()]

TRUSTED = [
    "Coq 8.16.1 kernel (coqc, vm_compute; no native_compute); every C16 theorem is closed under the global context (no axioms)",
    "hand-written model C16/Model.v of numpy_util.{is_big_endian,is_little_endian,to_native,to_big_endian,to_little_endian,"
    "byteswap,descr_to_native} and recfile/Util.{remove_dtype_byteorder,to_native_inplace}; tied to the working tree by the "
    "correspondence run on every check (dtype incl. the spelling of every field's byteorder, shape, raw bytes, same-object, "
    "shares-memory, caller's array after the call; two consecutive calls)",
    "modelled, not verified: numpy's ndarray.byteswap (reverse every unit: item, complex half, UCS4 code point; byte strings "
    "untouched), dtype.newbyteorder ('|' stays, native -> opposite letter, opposite -> machine letter), ndarray.copy, "
    "dtype.descr and numpy.dtype(descr) parsing, object identity / buffer aliasing as two flags; packed C-contiguous arrays only",
    "numpy.little_endian is a model parameter (theorems hold for both values); the correspondence run measures the machine it runs on",
    "python harness (harness/props/C16.py): array construction with exact byteorder spelling (round-trip asserted), literal "
    "printers, coqc evaluating Exec.v verdict terms",
]


def run(ctx, replay=None):
    ctx.rule = ("corpus + every plain numeric kind/itemsize in each spelling ('<' '>' '=' / '|'), byte strings, unicode, "
                "adversarial structured layouts ('|' field first/middle/last), seeded random structured dtypes (scalar and "
                "sub-array fields, uniform order with mixed '<'/'=' spellings, '|' fields mixed in, all-'|', and mixed-order "
                "ones outside the quantifier for the model only), shapes 0-d..2-d incl. empty; x 4 functions x inplace x "
                "keep_dtype, each called twice.  Every case runs on the real esutil (scratch build of the working tree) and "
                "inside Coq (model = implementation?  verified checker conv_check on the implementation's output).  "
                "non-trivial: non-empty array with a multi-byte unit and (the call changed the bytes or a '|' field is "
                "present); predicates: plain array; descr: a field with a byte order.  distinct by canonical JSON.")
    ctx.trusted = TRUSTED
    core.proof_step(ctx, "C16", core.ALLOW_DISCRETE)
    differential(ctx, PRE, ENTRIES, replay)

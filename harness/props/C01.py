"""C01 — binary record files reproduce the written table bit-for-bit (DESIGN.md section 7, C01).

Every case is executed on the REAL esutil (scratch build of the working tree) through one of the
entry points named in the property and inside Coq (coq/theories/C01):

  * model vs implementation: the bytes of the file the real code wrote, what the real
    read_sfile_header returned on it, the text the real read_header handed to eval, and the
    read-back rows, against Framing.sfile_file / read_sfile_header / sfile_read_raw / recfile_read;
  * property on the implementation: Spec.sf_check / rf_check (proved sound) on what was read back.

pprint.pformat, eval and numpy.dtype are not modelled (Section variables in Model.v).  The harness
records the REAL pformat text by shadowing the name `pprint` inside esutil.sfile while the real
write runs, and the REAL eval text by shadowing `eval` in that module while the real read runs,
and MONITORS the contract H_pf of Spec.v on every case:
   (a) no NUL/0xFF byte in the text and no line is exactly END   (also evaluated in Coq: v_text_ok)
   (b) eval(' '.join(text.split('\\n'))) == header dict
   (c) numpy.dtype(<evaluated _DTYPE>) == dtype of the data
A monitor failure is reported as such (a defect of the model's assumptions, not of esutil).
"""
import ast
import builtins
import copy
import os
import pickle
import pprint as _pprint
import select
import signal
import sys
import time
import traceback

from .. import core
from ..core import cz, cbool
from ..runner import Entry, differential
from . import c01_translate

PRE = ("From EsVerif.Common Require Import Base Bytes.\n"
       "From EsVerif.C01 Require Import Framing Model Spec Big Pyval Uncond Exec.\n"
       "From Coq.Strings Require Import Byte.\nOpen Scope list_scope.\n")

_TMP = [None, 0]
# class of failing cases repaired by fixes/C01/0002 (Spec.kf_noncontiguous_write): the array handed to the writer is
# not C-contiguous and only the row bytes come back wrong
KF_NONCONTIG = "C01.kf_noncontiguous_write"
RESERVED_LOWER = ("_size", "_nrows", "_delim", "_shape", "_has_fields", "_dtype", "_version")


_FORCED = [None]


class _Worker:
    """A forked child that runs fn(*args) — calls into the REAL esutil — on request and stays alive between cases (one
    fork per entry point, not per case).  A segfault / abort / hang of the (possibly mutated) C extension costs one case:
    call() returns ("crash", reason) for it and the next call starts a fresh child.  An exception of the harness itself
    is re-raised in the parent."""
    live = []

    def __init__(self, fn, exclusive=True):
        self.fn = fn
        self.pid = None
        self.exclusive = exclusive

    def _start(self):
        for w in (list(_Worker.live) if self.exclusive else []):          # one persistent worker at a time
            w.close()
        pr, cw = os.pipe()
        cr, pw = os.pipe()
        sys.stdout.flush()
        sys.stderr.flush()
        pid = os.fork()
        if pid == 0:
            try:
                os.close(pr)
                os.close(pw)
                fin, fout = os.fdopen(cr, "rb"), os.fdopen(cw, "wb")
                while True:
                    h = fin.read(8)
                    if len(h) < 8:
                        break
                    args = pickle.loads(fin.read(int.from_bytes(h, "little")))
                    _FORCED[0] = args[0]
                    try:
                        payload = pickle.dumps(("ok", self.fn(*args[1:])))
                    except BaseException:  # noqa
                        payload = pickle.dumps(("exc", traceback.format_exc()))
                    fout.write(len(payload).to_bytes(8, "little") + payload)
                    fout.flush()
            finally:
                os._exit(0)
        os.close(cr)
        os.close(cw)
        self.pid, self.r, self.w = pid, pr, pw
        _Worker.live.append(self)

    def _reap(self, kill=False):
        if kill:
            try:
                os.kill(self.pid, signal.SIGKILL)
            except OSError:
                pass
        for fd in (self.r, self.w):
            try:
                os.close(fd)
            except OSError:
                pass
        _, status = os.waitpid(self.pid, 0)
        self.pid = None
        if self in _Worker.live:
            _Worker.live.remove(self)
        if os.WIFSIGNALED(status):
            sig = os.WTERMSIG(status)
            try:
                nm = signal.Signals(sig).name
            except ValueError:
                nm = "?"
            return "killed by signal %d (%s)" % (sig, nm)
        return "exit status %d without an answer" % os.WEXITSTATUS(status)

    def close(self):
        if self.pid is not None:
            try:
                os.close(self.w)
            except OSError:
                pass
            self.w = -1
            self._reap()

    def _read(self, n, deadline):
        buf = b""
        while len(buf) < n:
            left = deadline - time.time()
            if left <= 0:
                return None
            rl, _, _ = select.select([self.r], [], [], left)
            if not rl:
                return None
            b = os.read(self.r, min(1 << 20, n - len(buf)))
            if not b:
                return buf                      # EOF: the child is gone
            buf += b
        return buf

    def call(self, path, *args, timeout=240):
        if self.pid is None:
            self._start()
        msg = pickle.dumps((path,) + args)
        msg = len(msg).to_bytes(8, "little") + msg
        try:
            while msg:
                msg = msg[os.write(self.w, msg):]
        except OSError:
            return "crash", self._reap(kill=True)
        deadline = time.time() + timeout
        h = self._read(8, deadline)
        body = self._read(int.from_bytes(h, "little"), deadline) if (h is not None and len(h) == 8) else None
        if h is None or (len(h) == 8 and body is None):
            self._reap(kill=True)
            return "crash", "no answer within %d s (killed)" % timeout
        if len(h) < 8 or len(body) < int.from_bytes(h, "little"):
            return "crash", self._reap()
        st, val = pickle.loads(body)
        if st == "exc":
            raise RuntimeError("harness error inside an isolated call:\n" + val)
        return "ok", val


class IsoEntry(Entry):
    """an Entry whose impl() drives the real code in a forked child (see _Worker)"""
    ext = ".rec"
    crash_verdict = "(verdict false false)"        # the real code died on an input of the statement: failing input

    def _impl(self, c):
        raise NotImplementedError

    def post(self, c, out):
        pass

    def impl(self, c):
        path = _fname(self.ext)
        if getattr(self, "_worker", None) is None:
            self._worker = _Worker(self._impl)
        try:
            st, val = self._worker.call(path, c)
        finally:
            try:
                os.remove(path)
            except OSError:
                pass
        if st == "ok":
            out = val
        else:
            out = {"crash": val, "file": "", "read": ("err", "EOther", "the real code died: " + val)}
        self.post(c, out)
        return out


def _fname(ext=".rec"):
    if _FORCED[0] is not None:
        return _FORCED[0]
    _TMP[1] += 1
    d = _TMP[0] or os.path.join(core.SCRATCH_ROOT, "esutil-verif-c01.%d" % os.getpid())
    os.makedirs(d, exist_ok=True)
    return os.path.join(d, "f%06d%s" % (_TMP[1], ext))


# ----------------------------------------------------------------------------------------------
# Coq printers
# ----------------------------------------------------------------------------------------------

def cbytes(b):
    return "[" + ";".join("x%02x" % x for x in bytes(b)) + "]" if b else "(@nil byte)"


def cprefix(pfx, text):
    """the bytes before the rows, printed with the pformat text shared (literal compression only: the split is
    checked byte-for-byte here)"""
    k = pfx.find(text) if text else -1
    if k >= 0 and pfx[:k] + text + pfx[k + len(text):] == pfx and k <= 64 and len(pfx) - k - len(text) <= 16:
        return "(%s ++ d ++ %s)" % (cbytes(pfx[:k]), cbytes(pfx[k + len(text):]))
    return cbytes(pfx)


def cfield(f):
    name, ts, shape = f
    return "(fld %s %s %s %s [%s])" % (cbytes(name.encode()), cbytes(ts[0].encode()), cbytes(ts[1].encode()),
                                       cz(int(ts[2:])), ";".join(cz(s) for s in shape))


def cdtype(fields):
    return "[" + "; ".join(cfield(f) for f in fields) + "]"


def crows(rows, known=None):
    """rows: list of hex strings"""
    if known is not None and rows == known[0]:
        return known[1]
    return "[" + "; ".join(cbytes(bytes.fromhex(r)) for r in rows) + "]" if rows else "(@nil (list byte))"


def cres(out, f):
    return "(Ok %s)" % f(out[1]) if out[0] == "ok" else "(Err %s)" % out[1]


def copt(x):
    return "None" if x is None else "(Some %s)" % cz(x)


# ----------------------------------------------------------------------------------------------
# dtypes, cells, headers: generators
# ----------------------------------------------------------------------------------------------

BASES = ["i1", "u1", "i2", "u2", "i4", "u4", "i8", "u8", "f4", "f8", "b1", "c8", "c16"] + ["S%d" % k for k in range(1, 13)]
SAME_SIZE = {1: ["|i1", "|u1", "|b1", "|S1"], 2: ["<i2", ">i2", "<u2", ">u2", "|S2"], 4: ["<i4", ">i4", "<u4", ">u4", "<f4", ">f4", "|S4"],
             8: ["<i8", ">i8", "<u8", ">u8", "<f8", ">f8", "<c8", ">c8", "|S8"], 16: ["<c16", ">c16"]}
NAMES = ["x", "y", "ra", "dec", "flux", "id", "END", "TREND", "_x", "SIZE", "END_", "xEND", "ENDx", "_END",
         "é", "naïve", "f0", "name", "N", "E", "ND", "END2", "_DTYPE", "_SIZE", "size", "end", "Legend_END",
         "α", "mag_r", "T", "e1", "BLENDED", "SENDER", "_", "__", "a" * 30]

F4 = [0x00000000, 0x80000000, 0x7f800000, 0xff800000, 0x7fc00000, 0x7fa00001, 0xffc12345, 0x00000001, 0x7f7fffff,
      0x3f800000, 0x7f800001, 0xffffffff]
F8 = [0x0, 0x8000000000000000, 0x7ff0000000000000, 0xfff0000000000000, 0x7ff8000000000000, 0x7ff4000000000001,
      0xfff8deadbeef0001, 0x1, 0x7fefffffffffffff, 0x3ff0000000000000, 0x7ff0000000000001, 0xffffffffffffffff]


def parse_ts(ts):
    return ts[0], ts[1], int(ts[2:])


def gen_dtype(r, maxrow=160):
    for _ in range(50):
        n = r.choice([1, 2, 2, 3, 3, 4, 5, 6])
        mode = r.choice(["<", ">", "<", ">", "mixed"])
        names = r.sample(NAMES, n)
        if r.random() < 0.3:
            names[r.randrange(n)] = "".join(r.choice("abcdefgxyzENDSIZ_") for _ in range(r.randrange(1, 9))) + str(r.randrange(10))
        if len(set(names)) != n or any(not nm.isidentifier() for nm in names):
            continue
        fields = []
        for nm in names:
            b = r.choice(BASES)
            size = int(b[1:])
            order = "|" if (size == 1 or b[0] == "S") else (mode if mode != "mixed" else r.choice("<>"))
            k = r.choice([0, 0, 0, 1, 1, 2, 3])
            shape = [r.choice([1, 2, 2, 3, 4]) for _ in range(k)]
            fields.append([nm, order + b, shape])
        if rowsize(fields) <= maxrow:
            return fields
    return [["x", "<i4", []], ["y", ">f8", [2]]]


def nelem(shape):
    n = 1
    for s in shape:
        n *= s
    return n


def rowsize(fields):
    return sum(int(ts[2:]) * nelem(sh) for _, ts, sh in fields)


def gen_cell(r, ts):
    order, kind, size = parse_ts(ts)
    bo = "big" if order == ">" else "little"
    if r.random() < 0.35:
        return bytes(r.randrange(256) for _ in range(size))
    if kind in "iu":
        if kind == "i":
            v = r.choice([0, 1, -1, -(1 << (8 * size - 1)), (1 << (8 * size - 1)) - 1, -2, 10, 255 % (1 << (8 * size - 1))])
            return v.to_bytes(size, bo, signed=True)
        v = r.choice([0, 1, (1 << (8 * size)) - 1, (1 << (8 * size)) - 2, 1 << (8 * size - 1), 10])
        return v.to_bytes(size, bo, signed=False)
    if kind == "f":
        return r.choice(F4 if size == 4 else F8).to_bytes(size, bo)
    if kind == "c":
        h = size // 2
        pool = F4 if h == 4 else F8
        return r.choice(pool).to_bytes(h, bo) + r.choice(pool).to_bytes(h, bo)
    if kind == "b":
        return bytes([r.choice([0, 1, 0, 1, 0, 1, 2, 255])])
    # fixed-width byte strings
    pats = [b"\x00" * size, (b"END" * size)[:size], (b"a\x00b\x00" * size)[:size], b"\xff" * size, b"\n" * size,
            (b"\x00END\n" * size)[:size], (b"SIZE = 1\n" * size)[:size], (b"x" * size)[:max(1, size - 1)].ljust(size, b"\x00"),
            (b" \t" * size)[:size]]
    return r.choice(pats)


def gen_rows(r, fields, nrows):
    out = []
    for _ in range(nrows):
        row = b""
        for _, ts, sh in fields:
            for _ in range(nelem(sh)):
                row += gen_cell(r, ts)
        out.append(row.hex())
    return out


STRS = ["v", "THE END", "END", "\nEND\n", "END\n", "SIZE", "SIZE = 3", "SIZE =                    9", "it's", 'say "hi"',
        "both ' and \"", "line1\nline2", "tab\there", "back\\slash", "ünïcöde", "日本", "\x00nul", "\x7f\x1b",
        " sep", "", " ", "{'a': 1}", "END" * 30, "word " * 40, "x" * 200, "a b c d e f g h i j k l m n o p q r s t u v w x y z " * 4,
        "WEEKEND", "\\nEND\\n", "'END'", "=", "==", "%s %d %%", "#comment", "1.0", "None",
        # printf directives: the header text must never be taken for a format
        "%", "%%", "%s", "%n", "%d", "100%% of tiles", "50% done", "%5.2f%%", "%c%c%c%c", "%ld rows", "%%%"]
KEYS = ["k", "key1", "END", "SIZE", "_x", "THE END", "a b", "é", "x" * 30, "end", "it's", 'q"uote', "TREND", "date",
        "age", "note", "N", "_END", "_SIZE_", "list", "nested", "v1", "v2", "v3", "z", "_", "new\nline", "=", "dataset", "pyvers",
        # underscore-prefixed names that are NOT the reserved ones (other case, other words): must be kept
        "_Foo", "_Size", "_Version", "_myKey", "__dunder__", "_Nrows", "_Shape", "_sIZE", "size", "nrows", "shape", "delim",
        "has_fields", "dtype", "version", "Size", "DELIM", "%", "%%", "%s", "%d", "%n", "pct%", "k%s"]
RES_EXACT = ["_size", "_SIZE", "_nrows", "_NROWS", "_delim", "_DELIM", "_shape", "_SHAPE", "_has_fields", "_HAS_FIELDS",
             "_DTYPE", "_VERSION",
             # any other spelling of the five names is stripped as well (/repo 04e3f20); spellings of _dtype / _version are user keys
             "_Delim", "_DELim", "_dElIm", "_Size", "_sIZE", "_NRows", "_Nrows", "_Shape", "_sHAPE", "_Has_Fields", "_HAS_fields"]
MIXED = ["_Delim", "_DELim", "_dElIm", "_Size", "_sIZE", "_NRows", "_Shape", "_Has_Fields", "_dtype", "_Dtype", "_dTYPE", "_DtYpE",
         "_version", "_Version", "_vERSION"]


def gen_value(r, depth=0):
    k = r.random()
    if depth < 3 and k < 0.25:
        kind = r.choice(["list", "tuple", "dict"])
        n = r.choice([0, 1, 2, 3, 5, 12])
        if kind == "list":
            return [gen_value(r, depth + 1) for _ in range(n)]
        if kind == "tuple":
            return tuple(gen_value(r, depth + 1) for _ in range(n))
        return {r.choice(KEYS + STRS[:12]): gen_value(r, depth + 1) for _ in range(n)}
    if k < 0.45:
        return r.choice(STRS)
    if k < 0.55:
        return "".join(r.choice("abc END\n'\"SIZE=\\xyz ") for _ in range(r.randrange(0, 120)))
    if k < 0.70:
        return r.choice([0, 1, -1, 33, 10 ** 40, -(10 ** 25), 2 ** 63, r.randrange(-10 ** 6, 10 ** 6)])
    if k < 0.82:
        return r.choice([0.0, -0.0, 0.1, 1e300, 5e-324, 1e-05, -2.5, 1.7976931348623157e308, 8.5, 6.6, r.uniform(-1e6, 1e6)])
    if k < 0.90:
        return r.choice([b"", b"\x00\xff", b"END", b"bytes with 'quote'", b"\nEND\n", bytes(range(0, 256, 7)), b"ab " * 40])
    return r.choice([None, True, False])


def gen_header(r, family):
    if family == "none":
        return None
    if family == "empty":
        return {}
    h = {}
    n = r.choice([1, 1, 2, 3, 4, 6, 10])
    for _ in range(n):
        h[r.choice(KEYS)] = gen_value(r)
    if family == "END":
        h[r.choice(["k", "END", "note"])] = r.choice(["THE END", "END", "\nEND\n", "WEEKEND", "END" * 30, ["END", ("END",)],
                                                       {"END": "END"}, b"END"])
    elif family == "SIZE":
        h[r.choice(["SIZE", "k"])] = r.choice(["SIZE = 3", "SIZE", "SIZE =                    9\n{}", ["SIZE", "="]])
    elif family == "long":
        h[r.choice(["note", "k"])] = r.choice(["word " * 40, "x" * 200, "END " * 50, b"ab " * 40, ["item%d" % i for i in range(40)],
                                                {"k%02d" % i: "END" for i in range(25)}])
    elif family == "reserved":
        for _ in range(r.choice([1, 2, 3])):
            h[r.choice(RES_EXACT + MIXED)] = gen_value(r)
        if r.random() < 0.5:
            h[r.choice(["_Delim", "_DELim", "_dElIm"])] = r.choice([",", "\t", " ", None, 0, ""])
    return h


def is_reserved(k):
    """Spec.reserved"""
    return k.lower() in ("_size", "_nrows", "_delim", "_shape", "_has_fields") or k in ("_DTYPE", "_VERSION")


WS = ["", " ", "  ", "\t", "\n", " \t", "\r\n", "\x0b", "\x0c", "\u00a0", "\u2003"]      # what str.strip() removes (and the empty string)


def ws_reserved_entries(r, fields, nrows, k=None):
    """ordinary user keys that are a reserved name up to surrounding white space (any case), each with a value of the type
    the reserved entry would have: a dtype description (same record size, other types), a delimiter, a row count, ...
    By the statement they are user keys like any other: kept with an equal value, and without influence on the table."""
    other = [[nm, r.choice([t for t in SAME_SIZE.get(int(ts[2:]), [ts]) if t != ts] or [ts]), sh] for nm, ts, sh in fields]
    descr = [(nm, ts, tuple(sh)) if sh else (nm, ts) for nm, ts, sh in other]
    vals = {"_dtype": [descr, "f8", [("q", "<i4")], descr], "_delim": [",", "\t", " ", ";"], "_size": [0, 1, nrows + 1, 10 ** 6],
            "_nrows": [0, 1, nrows + 7], "_shape": [(1,), (nrows, 2)], "_has_fields": [True, False], "_version": ["0.1", 2]}
    out = {}
    for _ in range(k or r.choice([1, 1, 2, 3])):
        name = r.choice(list(vals))
        spelled = "".join(ch.upper() if r.random() < 0.4 else ch for ch in name) if r.random() < 0.5 else r.choice([name, name.upper()])
        pre, post = r.choice(WS), r.choice(WS)
        if pre == post == "":
            pre = " "
        out[pre + spelled + post] = r.choice(vals[name])
    return out


def user_hdr_ok(hdr):
    """Spec.user_key_ok: what is left of the carve-out of the ABSTRACT theorem — a key spelling _dtype otherwise than
    _DTYPE (the real code is judged on such headers all the same)"""
    for k in (hdr or {}):
        if k.lower() == "_dtype" and k != "_DTYPE":
            return False
    return True


ADV = [
    # (family, dtype fields, header) — the adversarial families named in the property's quantifier
    ("adv:value-THE-END", [["x", "<i4", []], ["y", ">f8", [2]]], {"k": "THE END"}),
    ("adv:field-TREND", [["TREND", "<i4", []], ["x", "<f4", []]], {"a": 1}),
    ("adv:field-END", [["END", ">i2", []], ["s", "|S3", []]], {"a": [1, 2]}),
    ("adv:value-END-line", [["x", "<i8", []], ["b", "|b1", []]], {"k": "\nEND\n", "END": "END"}),
    ("adv:key-END", [["x", ">u2", [2, 2]], ["c", "<c8", []]], {"END": 0, "SIZE": "SIZE = 3"}),
    ("adv:wrap-long", [["x", "<f8", []], ["n", "|S12", []]], {"note": "END word " * 30, "list": ["END"] * 30}),
    ("adv:many-fields-wrap", [["f%d_END" % i, "<i2", []] for i in range(12)], {"k": "v"}),
    ("adv:quotes-newlines", [["x", "<i4", []], ["y", "<i4", []]], {"q": "it's \"q\"\n\tEND\n", "b": b"\x00\xffEND"}),
    ("adv:nested", [["x", ">f4", [3]], ["y", "<u8", []]], {"subd": {"subd1": "subfield", "sublist": [8.5, 6.6], "END": ("END",)}, "n": None,
                                                          "t": True}),
    ("adv:unicode", [["é", "<i4", []], ["α", ">c16", []]], {"é": "ünï", "k": "日本 END"}),
    ("adv:reserved-dropped", [["x", "<i4", []], ["y", ">i4", []]], {"_size": 7, "_SIZE": 8, "_DTYPE": "f8", "_VERSION": "9", "_delim": ",",
                                                                  "_NROWS": 1, "keep": "me"}),
    ("adv:near-reserved-kept", [["x", "<i4", []], ["y", ">f8", []]], {"_Size": 3, "_Version": "x", "_Nrows": 2, "_Foo": 1, "size": 5, "nrows": 6,
                                                                   "shape": (1,), "delim": ",", "has_fields": True, "dtype": "f8", "version": 2,
                                                                   "_x": 0, "__dunder__": None, "_sIZE": "abc", "_Shape": [1]}),
    ("adv:percent", [["x", "<i4", []], ["y", ">f8", []]], {"completeness": "100%% of tiles", "p": "50% done", "%": "%d", "k%s": "%s",
                                                         "fmt": "%5.2f%%", "n": "%n", "l": ["%", "%%", ("%s",)], "b": b"%s%n"}),
    ("adv:percent-mild", [["x", "<i4", []], ["y", ">f8", []]], {"completeness": "100%% of tiles"}),
    ("adv:mixed-case-reserved", [["x", "<i4", []], ["y", ">f8", []]], {"_Delim": ",", "_Size": 77, "_NRows": 5, "_Has_Fields": 1, "_sHAPE": (2,),
                                                                     "_dtype": "junk", "_DtYpE": [("a", "i4")], "_Version": "x", "_version": 2,
                                                                     "keep": "me"}),
    ("adv:mixed-case-delim", [["s", "|S4", []], ["y", "<i2", []]], {"_Delim": ","}),
    ("adv:no-header", [["x", "<i4", []], ["y", ">f8", [2]]], None),
    ("adv:empty-header", [["x", "<i4", []], ["s", "|S5", [2]]], {}),
]


def table_cases(ctx, round, n_random, with_header=True, maxrows=None, layouts=True, grid=(0, 1)):
    r = ctx.rng
    cs = []
    maxrows = maxrows or ctx.n(6, 12)
    if round == 0:
        for fam, fields, hdr in ADV:
            if not with_header and fam not in ("adv:field-TREND", "adv:field-END", "adv:many-fields-wrap", "adv:unicode", "adv:no-header"):
                continue
            nrows = r.choice([2, 3, 4])
            cs.append({"dtype": fields, "rows": gen_rows(r, fields, nrows), "header": repr(hdr) if with_header else None,
                       "family": fam, "adv": True})
        # every base type x shape kind x order at least once
        gj = 0
        for i, b in enumerate(BASES):
            for order in "<>":
                gj = 5 * i + (order == ">")
                if not ctx.quick():
                    pass                     # thorough: the full grid for every entry point
                elif gj % grid[1] != grid[0]:
                    continue                 # quick: the grid is shared out among the entry points of a family
                size = int(b[1:])
                o = "|" if (size == 1 or b[0] == "S") else order
                shape = [[], [2], [2, 1], [1, 2, 2]][(i + (order == ">")) % 4]
                fields = [["a", o + b, shape], ["END" if i % 3 == 0 else "b", (">" if order == "<" else "<") + "i2", []]]
                hdr = gen_header(r, r.choice(["simple", "END", "SIZE"])) if with_header else None
                cs.append({"dtype": fields, "rows": gen_rows(r, fields, r.choice([2, 3])), "header": repr(hdr) if with_header else None,
                           "family": "grid:%s" % b[0], "adv": False})
        if with_header:
            # user keys that are reserved names up to surrounding white space, with values of the reserved entry's type
            for j in range(4):
                fields = [[["x", "<i4", []], ["y", ">f8", []]], [["a", "<f4", [2]], ["b", "|S4", []]], gen_dtype(r, maxrow=40), gen_dtype(r, maxrow=40)][j]
                nrows = r.choice([2, 3, 4])
                hdr = ws_reserved_entries(r, fields, nrows, k=3)
                if j == 0:
                    hdr = {" _dtype": [("x", "<f4"), ("y", ">i8")], "_delim ": ",", "\t_SIZE": 77, "_Nrows\n": 5, " _Version ": "9", "keep": 1}
                cs.append({"dtype": fields, "rows": gen_rows(r, fields, nrows), "header": repr(hdr), "family": "adv:whitespace-reserved", "adv": True})
        if layouts:
            # "any structured array": every memory layout numpy can hand to the writer, same logical rows
            for lay in LAYOUTS[1:]:
                for nrows in (4, 6):
                    fields = gen_dtype(r, maxrow=40)
                    hdr = gen_header(r, "simple") if with_header else None
                    cs.append({"dtype": fields, "rows": gen_rows(r, fields, nrows), "header": repr(hdr) if with_header else None,
                               "family": "layout:" + lay, "adv": True, "layout": lay})
    fams = ["none", "empty", "simple", "simple", "nested", "END", "END", "SIZE", "long", "reserved"]
    for _ in range(n_random):
        fields = gen_dtype(r)
        nrows = r.choice([1, 1, 2, 2, 3, 4, 5, 6, r.randrange(1, maxrows + 1)])
        fam = r.choice(fams) if with_header else "none"
        hdr = gen_header(r, fam)
        if with_header and hdr is not None and r.random() < 0.3:
            hdr.update(ws_reserved_entries(r, fields, nrows))
        c = {"dtype": fields, "rows": gen_rows(r, fields, nrows), "header": repr(hdr) if with_header else None,
             "family": "random:" + fam if with_header else "random", "adv": False}
        if layouts and r.random() < 0.3:
            c["layout"] = r.choice(LAYOUTS[1:])
        cs.append(c)
    if round == 0 and not ctx.quick():
        for _ in range(6):          # a few long tables (up to 200 rows of a narrow dtype)
            fields = gen_dtype(r, maxrow=24)
            hdr = gen_header(r, "END") if with_header else None
            cs.append({"dtype": fields, "rows": gen_rows(r, fields, r.choice([100, 150, 200])),
                       "header": repr(hdr) if with_header else None, "family": "long-table", "adv": False})
    return cs


# ----------------------------------------------------------------------------------------------
# driving the real code
# ----------------------------------------------------------------------------------------------

def np_dtype_of(fields):
    import numpy as np
    return np.dtype([(nm, ts, tuple(sh)) if sh else (nm, ts) for nm, ts, sh in fields])


def fields_of(dt):
    """numpy dtype -> [[name, typestr, shape]] (None when it is not a packed structured dtype of
    the kinds the property talks about)"""
    if dt.names is None:
        return None
    out, off = [], 0
    for nm in dt.names:
        fdt, o = dt.fields[nm][:2]
        if o != off or fdt.base.kind not in "iufbcS":
            return None
        out.append([nm, fdt.base.str, [int(s) for s in fdt.shape]])
        off += fdt.itemsize
    if off != dt.itemsize:
        return None
    return out


LAYOUTS = ["contig", "step2", "reversed", "offset", "transposed", "2d", "recarray", "step3-offset"]


def _pq(n):
    """n = p * q with p, q >= 2 when possible (else (n, 1))"""
    for p in (2, 3, 5, 7):
        if n % p == 0 and n // p >= 2:
            return p, n // p
    return n, 1


def build_array(case):
    """(array handed to the real writer, base buffer it is a view of).  The LOGICAL rows of the array
    (C order) are case['rows'] for every layout; what differs is how numpy holds them in memory:
    a strided slice of a larger table, a reversed view, a slice that does not start at the buffer's
    first byte, a transposed 2-d array, a C-contiguous 2-d array, a recarray view."""
    import numpy as np
    dt = np_dtype_of(case["dtype"])
    rows = [bytes.fromhex(x) for x in case["rows"]]
    n = len(rows)
    assert all(len(r) == dt.itemsize for r in rows), "generator: row bytes do not fit the dtype"
    layout = case.get("layout", "contig")
    filler = [bytes((b ^ 0xA5) for b in r) for r in rows]

    def arr(rs):
        return np.frombuffer(b"".join(rs), dtype=dt).copy()
    if layout == "contig":
        base = arr(rows)
        return base, base
    if layout == "step2":
        base = arr([x for r, f in zip(rows, filler) for x in (r, f)])
        return base[::2], base
    if layout == "step3-offset":
        base = arr([x for r, f in zip(rows, filler) for x in (f, r, f)])
        return base[1::3], base
    if layout == "reversed":
        base = arr(rows[::-1])
        return base[::-1], base
    if layout == "offset":
        base = arr([filler[0]] + rows + [filler[-1]])
        return base[1:n + 1], base
    if layout == "transposed":
        p, q = _pq(n)
        base = arr([rows[i * q + j] for j in range(q) for i in range(p)]).reshape(q, p)
        return base.T, base
    if layout == "2d":
        p, q = _pq(n)
        base = arr(rows).reshape(p, q)
        return base, base
    if layout == "recarray":
        base = arr(rows)
        return base.view(np.recarray), base
    raise AssertionError(layout)


def make_data(case):
    import numpy as np
    data, _ = build_array(case)
    assert np.ascontiguousarray(data).tobytes() == b"".join(bytes.fromhex(x) for x in case["rows"]), "generator: layout"
    return data


def rows_of(arr):
    import numpy as np
    a = np.ascontiguousarray(arr).reshape(-1)
    raw, n = a.tobytes(), a.dtype.itemsize
    return [raw[i * n:(i + 1) * n].hex() for i in range(a.size)]


class _PPSpy:
    """stands in for the module `pprint` inside esutil.sfile while the real write runs"""
    def __init__(self):
        self.calls = []

    def pformat(self, obj, *a, **k):
        txt = _pprint.pformat(obj, *a, **k)
        self.calls.append((copy.deepcopy(obj), txt))
        return txt

    def __getattr__(self, name):
        return getattr(_pprint, name)


def real_write(kind, fname, data, hdr, objs=None, wkw=None, noclose=False):
    """run the real writer; returns (pformat text or None, header dict as written or None).
    kind sfile_reuse: ONE SFile object (objs['sf'], created once with filename None) is pointed to file after file with
    its public open(); wkw: further documented keywords (padnull=, ignorenull=, which must not matter for binary files)"""
    import esutil.sfile as sfile
    import esutil.io as eio
    wkw = wkw or {}
    spy = _PPSpy()
    sfile.pprint = spy
    try:
        if kind == "sfile_fn":
            if hdr is None:
                sfile.write(fname, data, **wkw)
            else:
                sfile.write(fname, data, header=hdr, **wkw)
        elif kind == "sfile_cls":
            with sfile.SFile(fname, "w", **wkw) as sf:
                sf.write(data, header=hdr)
        elif kind == "sfile_reuse":
            if objs.get("sf") is None:
                objs["sf"] = sfile.SFile()
            sf = objs["sf"]
            sf.open(fname, mode="w", **wkw)
            sf.write(data, header=hdr)
            if not noclose:
                sf.close()
        elif kind == "io_fn":
            if hdr is None:
                eio.write(fname, data, **wkw)
            else:
                eio.write(fname, data, header=hdr, **wkw)
        else:
            raise AssertionError(kind)
    finally:
        sfile.pprint = _pprint
    if spy.calls:
        return spy.calls[0][1], spy.calls[0][0]
    return None, None


def real_read(kind, fname, via="read", objs=None, rkw=None, noclose=False):
    """run the real reader with `eval` shadowed inside esutil.sfile; returns (data, hdr, eval texts)"""
    import esutil.sfile as sfile
    import esutil.io as eio
    rkw = rkw or {}
    texts = []

    def spy_eval(s, *a):
        texts.append(s)
        return builtins.eval(s, vars(sfile))
    sfile.eval = spy_eval
    try:
        if kind == "sfile_fn":
            data, hdr = sfile.read(fname, header=True, **rkw)
        elif kind == "sfile_cls":
            with sfile.SFile(fname) as sf:
                if via == "slice":
                    data = sf[:]
                    hdr = copy.deepcopy(sf.get_header())
                else:
                    data, hdr = sf.read(header=True, **rkw)
                assert sf.nrows == hdr["_SIZE"] and sf.dtype == data.dtype
        elif kind == "sfile_reuse":
            if objs.get("sf") is None:
                objs["sf"] = sfile.SFile()
            sf = objs["sf"]
            sf.open(fname)
            if via == "slice":
                data = sf[:]
                hdr = copy.deepcopy(sf.get_header())
            else:
                data, hdr = sf.read(header=True, **rkw)
            assert sf.nrows == hdr["_SIZE"] and sf.dtype == data.dtype
            if not noclose:
                sf.close()
        elif kind == "io_fn":
            data, hdr = eio.read(fname, header=True, **rkw)
        else:
            raise AssertionError(kind)
    finally:
        del sfile.eval
    return data, hdr, texts


def real_scan(fname):
    """the real read_sfile_header, called the way SFile.read_header calls it"""
    import esutil.recfile as recfile

    def f():
        with recfile.Recfile(fname, dtype=[("ra", "f8")]) as robj:
            hs, off = robj.robj.read_sfile_header()
        return [hs.encode().hex(), int(off)]
    return core.guarded(f)


def monitor(text, head, data_dtype):
    """the contract H_pf on this header (Spec.H_pf): returns {'a','b','c'} -> bool"""
    import numpy as np
    import esutil.sfile as sfile
    raw = text.encode()
    a = (b"\x00" not in raw) and (b"\xff" not in raw) and all(line != "END" for line in text.split("\n"))
    b = c = False
    try:
        val = builtins.eval(" ".join(text.split("\n")), vars(sfile))
        b = isinstance(val, dict) and val == head and set(val) == set(head)
        c = np.dtype(val["_DTYPE"]) == data_dtype
    except Exception:
        pass
    return {"a": bool(a), "b": bool(b), "c": bool(c)}


# ----------------------------------------------------------------------------------------------
# the Python layer of the model (coq/theories/C01/Pyval.v): header values as Coq terms, and a mirror of Pyval.pv_print
# ----------------------------------------------------------------------------------------------

class NotInSubset(Exception):
    pass


def _pv_items(d):
    if not all(isinstance(k, str) for k in d):
        raise NotInSubset("dict key that is not a str")
    return sorted(d.items())            # pformat's order (sort_dicts=True), at every level


def cpv(v):
    """Python literal value -> Coq term of type Pyval.pv (dict items in pformat's sorted order)"""
    import math
    if v is None:
        return "PNone"
    if v is True or v is False:
        return "(PBool %s)" % cbool(v)
    if type(v) is int:
        return "(PInt %s)" % cz(v)
    if type(v) is float:
        if not math.isfinite(v):
            raise NotInSubset("non-finite float")
        return "(PFloat %s)" % cbytes(repr(v).encode())
    if type(v) is str:
        return "(PStr %s)" % cbytes(v.encode("utf-8"))
    if type(v) is bytes:
        return "(PBytes %s)" % cbytes(v)
    if type(v) is list:
        return "(PList [%s])" % "; ".join(cpv(x) for x in v)
    if type(v) is tuple:
        return "(PTuple [%s])" % "; ".join(cpv(x) for x in v)
    if type(v) is dict:
        return "(PDict %s)" % chdict(v)
    raise NotInSubset("value of type %s" % type(v).__name__)


def chdict(d, top=False):
    """top: a header dict, printed in dict order (what Model.make_header and Python's dict do); nested dicts sorted"""
    items = _pv_items(d)
    if top:
        items = list(d.items())
    return "[%s]" % "; ".join("(%s, %s)" % (cbytes(k.encode("utf-8")), cpv(x)) for k, x in items) if items else "(@nil (list byte * pv))"


def _esc(bm, raw):
    out = bytearray()
    for b in raw:
        if b == 0x5c:
            out += b"\\\\"
        elif b == 0x27:
            out += b"\\'"
        elif b == 0x0a:
            out += b"\\n"
        elif b < 32 or b == 127 or (bm and b >= 128):
            out += b"\\x%02x" % b
        else:
            out.append(b)
    return bytes(out)


def pv_text(v, top=False):
    """mirror of Pyval.pv_print (checked against it in Coq on every header: Exec.v_hpf_real): one line, every token
    followed by one blank, a comma after every element"""
    if v is None:
        return b"None "
    if v is True or v is False:
        return b"True " if v else b"False "
    if type(v) is int:
        return b"%d " % v
    if type(v) is float:
        return repr(v).encode() + b" "
    if type(v) is str:
        return b"'" + _esc(False, v.encode("utf-8")) + b"' "
    if type(v) is bytes:
        return b"b'" + _esc(True, v) + b"' "
    if type(v) is list:
        return b"[ " + b"".join(pv_text(x) + b", " for x in v) + b"] "
    if type(v) is tuple:
        return b"( " + b"".join(pv_text(x) + b", " for x in v) + b") "
    if type(v) is dict:
        items = list(v.items()) if top else _pv_items(v)
        if not all(isinstance(k, str) for k, _ in items):
            raise NotInSubset("dict key that is not a str")
        return b"{ " + b"".join(pv_text(k) + b": " + pv_text(x) + b", " for k, x in items) + b"} "
    raise NotInSubset("value of type %s" % type(v).__name__)


def hpf_observation(uhdr, head, data_dtype):
    """what Exec.v_hpf_real needs about the header dict the real _make_header built (None: outside the modelled subset)"""
    try:
        mirror = pv_text(head, top=True)
        try:
            ev = builtins.eval(mirror.decode("utf-8"), {})
            eval_ok = bool(isinstance(ev, dict) and ev == head and list(ev) == list(head) and all(type(ev[k]) is type(head[k]) for k in head))
        except Exception:  # noqa
            eval_ok = False
        return {"uhdr": chdict(uhdr or {}, top=True), "head": chdict(head, top=True), "mirror": mirror.hex(), "eval_ok": eval_ok,
                "dtype": fields_of(data_dtype)}
    except (NotInSubset, UnicodeError) as e:
        return {"skipped": str(e)}


_UNSET = object()


def sfile_roundtrip(kind, c, fname, objs=None, data=None, hdr=_UNSET, keep_file=False):
    """one write + read-back through a self-describing entry point of the REAL code, observed for Coq (see SFileEntry.term)"""
    import numpy as np
    if hdr is _UNSET:
        hdr = ast.literal_eval(c["header"]) if c.get("header") is not None else None
    if data is None:
        data = make_data(c)
    orig = data.tobytes()
    hdr_before = copy.deepcopy(hdr)
    out = {"file": "", "text": None, "scan": ("err", "EOther", "not run"), "evaltext": ("err", "EOther", "not run"),
           "read": None, "monitor": None, "ukeys": sorted(hdr) if hdr else [], "in_statement": user_hdr_ok(hdr),
           "c_contiguous": bool(data.flags.c_contiguous)}
    try:
        text, head = real_write(kind, fname, data, hdr, objs=objs, wkw=c.get("wkw"), noclose=bool(c.get("noclose")))
    except Exception as e:  # noqa
        out["read"] = ("err", core.errclass(e), "write: %s: %s" % (type(e).__name__, str(e)[:200]))
        return out
    out["text"] = text
    out["file"] = open(fname, "rb").read().hex() if os.path.exists(fname) else ""
    out["input_unchanged"] = (data.tobytes() == orig) and hdr == hdr_before
    if head is not None:
        # the dict the real _make_header built, in dict order, values as ids (Exec.v_mkheader)
        uorder = list(hdr or {})
        pairs = []
        for k, v in head.items():
            if k == "_DTYPE":
                pairs.append([k, -2 if v == data.dtype.descr else 0])
            elif k == "_VERSION":
                pairs.append([k, -1 if v == "1.0" else 0])
            elif isinstance(k, str) and k in uorder and v == hdr[k]:
                pairs.append([k, uorder.index(k) + 1])
            else:
                pairs.append([str(k), 0])
        out["made_header"] = {"ukeys_order": uorder, "pairs": pairs}
    if text is not None:
        out["monitor"] = monitor(text, head, data.dtype)
        out["hpf"] = hpf_observation(hdr, head, data.dtype)
    out["scan"] = real_scan(fname)
    try:
        rdata, rhdr, texts = real_read(c.get("reader", kind), fname, c.get("via", "read"), objs=objs, rkw=c.get("rkw"),
                                         noclose=bool(c.get("noclose")))
    except Exception as e:  # noqa
        out["read"] = ("err", core.errclass(e), "%s: %s" % (type(e).__name__, str(e)[:200]))
        return out
    finally:
        if not keep_file:
            try:
                os.remove(fname)
            except OSError:
                pass
    if c.get("mutate_returned"):
        # aliasing / ownership: the caller scribbles over the array AND the header dict it was handed and asks again; the
        # second answer is the one that is judged (a result that aliases an internal buffer or a cache would show)
        try:
            if rdata.size:
                np.ascontiguousarray(rdata).view("u1")[...] ^= 0xFF
                if rdata.flags.writeable:
                    rdata.view("u1")[...] ^= 0xFF
            rhdr.clear()
            rdata, rhdr, texts = real_read(c.get("reader", kind), fname, c.get("via", "read"), objs=objs, rkw=c.get("rkw"),
                                             noclose=bool(c.get("noclose")))
        except Exception as e:  # noqa
            out["read"] = ("err", core.errclass(e), "second read: %s: %s" % (type(e).__name__, str(e)[:200]))
            return out
    out["evaltext"] = ("ok", texts[1].encode().hex()) if len(texts) >= 2 else ("err", "EOther", "eval not reached")
    try:
        hdt = fields_of(np.dtype(rhdr["_DTYPE"]))
    except Exception:  # noqa
        hdt = None
    keys = []
    for k in (hdr or {}):
        keys.append([k, bool(k in rhdr and rhdr[k] == hdr[k])])
    size = rhdr.get("_SIZE")
    out["read"] = ("ok", {"dtype": fields_of(rdata.dtype), "rows": rows_of(rdata),
                          "size": int(size) if isinstance(size, int) and not isinstance(size, bool) else -1,
                          "hdtype": hdt, "keys": keys, "is_ndarray": type(rdata) is np.ndarray, "ndim": rdata.ndim})
    return out


class SFileEntry(IsoEntry):
    """sfile.write/read, SFile(...).write/.read/[:], io.write/io.read for *.rec"""
    kind = "sfile_fn"
    grid = (0, 1)

    def __init__(self):
        self.name = self.kind
        self.monitor_failures = []
        self.texts = []
        self.nmonitored = 0

    def cases(self, ctx, round=0):
        # thorough: at most 400 cases per entry = ONE coqc of ~0.8 GB at a time (the machine is shared; case files of this
        # entry carry the header text and the rows as literals)
        cs = table_cases(ctx, round, ctx.n(36, 300), grid=self.grid)
        for c in cs:
            c["via"] = ctx.rng.choice(["read", "slice"])
        return cs

    def post(self, c, out):
        if out.get("hpf") is not None:
            self.__dict__.setdefault("hpf", []).append((out["text"], out["hpf"]))
        if out.get("monitor") is not None:
            self.nmonitored += 1
            self.texts.append(out["text"])
            if not all(out["monitor"].values()):
                self.monitor_failures.append({"entry": self.name, "case": c, "pformat_text": out["text"], "monitor": out["monitor"]})

    def _impl(self, c):
        return sfile_roundtrip(self.kind, c, _fname())

    def term(self, c, out):
        if out.get("crash"):
            return self.crash_verdict
        rows = c["rows"]
        lets = ["let rows := %s in" % crows(rows)]
        known = (rows, "rows")
        text = (out["text"] or "").encode()
        lets.append("let d := %s in" % cbytes(text))
        fileb = bytes.fromhex(out["file"])
        tail = b"".join(bytes.fromhex(x) for x in rows)
        if tail and fileb.endswith(tail):
            pfx = fileb[:len(fileb) - len(tail)]
            lets.append("let pfx := %s in" % cprefix(pfx, text))
            cfile = "(pfx ++ concat rows)"
        else:
            pfx = None
            cfile = cbytes(fileb)

        def shared(b):
            if pfx is not None and b == pfx:
                return "pfx"
            if b == text:
                return "d"
            if text and b == text.replace(b"\n", b" "):
                return "(nl2sp d)"
            return cbytes(b)
        scan = out["scan"]
        cscan = "(Ok (%s, %s))" % (shared(bytes.fromhex(scan[1][0])), cz(scan[1][1])) if scan[0] == "ok" else "(Err %s)" % scan[1]
        ev = out["evaltext"]
        cev = "(Ok %s)" % shared(bytes.fromhex(ev[1])) if ev[0] == "ok" else "(Err %s)" % ev[1]
        rd = out["read"]
        if rd[0] == "ok":
            o = rd[1]
            bad = [] if (o["is_ndarray"] and o["ndim"] == 1) else None     # not a plain 1-d ndarray: dtype printed as mismatch
            cout = ("(Ok {| o_dtype := %s; o_rows := %s; o_size := %s; o_hdtype := %s; o_keys := [%s] |})" % (
                cdtype(o["dtype"] if (o["dtype"] is not None and bad is not None) else []), crows(o["rows"], known), cz(o["size"]),
                cdtype(o["hdtype"] or []),
                "; ".join("(%s, %s)" % (cbytes(k.encode()), cbool(v)) for k, v in o["keys"])))
        else:
            cout = "(Err %s)" % rd[1]
        ukeys = "[" + "; ".join(cbytes(k.encode()) for k in out["ukeys"]) + "]"
        main = "v_sfile d %s rows %s %s %s %s %s" % (cdtype(c["dtype"]), ukeys, cfile, cscan, cev, cout)
        mh = out.get("made_header")
        if mh is not None:
            main = "Z.lor (%s) (v_mkheader [%s] [%s])" % (
                main, "; ".join(cbytes(k.encode()) for k in mh["ukeys_order"]),
                "; ".join("(%s, %s)" % (cbytes(k.encode()), cz(v)) for k, v in mh["pairs"]))
        return "%s %s" % (" ".join(lets), main)

    def nontrivial(self, c, out):
        if c.get("adv"):
            return True
        hdr = ast.literal_eval(c["header"]) if c.get("header") is not None else None
        return (len(c["dtype"]) >= 2 and len(c["rows"]) >= 2 and any(int(ts[2:]) > 1 for _, ts, _ in c["dtype"])
                and bool(hdr))

    def show(self, c):
        return None

    def classify(self, c, out, verdict):
        # exactly the class of fixes/C01/0002: the array was not C-contiguous, the header part of the file and
        # everything read back except the row bytes are right
        rd = out.get("read")
        if out.get("c_contiguous") is False and rd and rd[0] == "ok":
            o = rd[1]
            if (o["dtype"] == c["dtype"] and o["hdtype"] == c["dtype"] and o["size"] == len(c["rows"]) and len(o["rows"]) == len(c["rows"])
                    and all(v for k, v in o["keys"] if not is_reserved(k)) and o["rows"] != c["rows"]):
                return KF_NONCONTIG
        return None


class SFileFn(SFileEntry):
    kind = "sfile_fn"


class SFileCls(SFileEntry):
    kind = "sfile_cls"
    grid = (0, 2)


class IoFn(SFileEntry):
    kind = "io_fn"
    grid = (1, 2)


def recfile_roundtrip(kind, c, fname, objs=None, data=None, keep_file=False):
    """one write + read-back through the low-level record reader of the REAL code (see RecfileEntry.term).
    kind recfile_reuse: ONE Recfile object (objs['rf']) is pointed to file after file with its public open()"""
    import numpy as np
    import esutil.recfile as recfile
    if data is None:
        data = make_data(c)
    orig = data.tobytes()
    out = {"file": "", "read": None, "c_contiguous": bool(data.flags.c_contiguous)}
    dt = np_dtype_of(c["dtype"])
    n = len(c["rows"])
    kw = {"absent": {}, "exact": {"nrows": n}, "none": {"nrows": None}, "negative": {"nrows": -1}}[c.get("nrows", "absent")]
    kw = dict(kw, **(c.get("rkw") or {}))
    wkw = c.get("wkw") or {}
    rkind = c.get("reader", kind)
    try:
        if kind == "recfile_fn":
            recfile.write(fname, data, **wkw)
        elif kind == "recfile_cls":
            with recfile.Recfile(fname, "w", **wkw) as r:
                r.write(data)
                assert r.nrows == n
        elif kind == "recfile_reuse":
            if objs.get("rf") is None:
                objs["rf"] = recfile.Recfile(fname, "w", **wkw)
            else:
                objs["rf"].open(fname, mode="w", **wkw)
            objs["rf"].write(data)
            assert objs["rf"].nrows == n
            if not c.get("noclose"):
                objs["rf"].close()
        else:
            raise AssertionError(kind)
        out["file"] = open(fname, "rb").read().hex()
        out["input_unchanged"] = (data.tobytes() == orig)
        if rkind == "recfile_fn":
            rd = recfile.read(fname, dt, **kw)
        elif rkind == "recfile_cls":
            # the constructor also accepts a descr list instead of a dtype object
            with recfile.Recfile(fname, mode="r", dtype=dt.descr if c.get("via") == "slice" else dt, **kw) as r:
                rd = r[:] if c.get("via") == "slice" else r.read()
                assert len(r) == rd.size
        elif rkind == "recfile_reuse":
            if objs.get("rf") is None:
                objs["rf"] = recfile.Recfile(fname, mode="r", dtype=dt, **kw)
            else:
                objs["rf"].open(fname, mode="r", dtype=dt, **kw)
            r = objs["rf"]
            rd = r[:] if c.get("via") == "slice" else r.read()
            assert len(r) == rd.size
            if not c.get("noclose"):
                r.close()
        else:
            raise AssertionError(rkind)
        if c.get("mutate_returned") and rd.size and rd.flags.writeable:
            rd.view("u1")[...] ^= 0xFF
            if rkind == "recfile_fn":
                rd = recfile.read(fname, dt, **kw)
            elif rkind == "recfile_cls":
                with recfile.Recfile(fname, mode="r", dtype=dt, **kw) as r:
                    rd = r.read()
            else:
                objs["rf"].open(fname, mode="r", dtype=dt, **kw)
                rd = objs["rf"].read()
                objs["rf"].close()
        out["read"] = ("ok", {"dtype": fields_of(rd.dtype) if (type(rd) is np.ndarray and rd.ndim == 1) else None,
                              "rows": rows_of(rd)})
    except Exception as e:  # noqa
        out["read"] = ("err", core.errclass(e), "%s: %s" % (type(e).__name__, str(e)[:200]))
    finally:
        if not keep_file:
            try:
                os.remove(fname)
            except OSError:
                pass
    return out


class RecfileEntry(IsoEntry):
    ext = ".bin"
    """recfile.write/recfile.read and Recfile(...).write/.read/[:] given the dtype"""
    kind = "recfile_fn"

    def __init__(self):
        self.name = self.kind

    def cases(self, ctx, round=0):
        cs = table_cases(ctx, round, ctx.n(35, 900), with_header=False, grid=self.grid)
        for c in cs:
            c["nrows"] = ctx.rng.choice(["absent", "absent", "exact", "none", "negative"])
            c["via"] = ctx.rng.choice(["read", "slice"])
        return cs

    def _impl(self, c):
        return recfile_roundtrip(self.kind, c, _fname(".bin"))

    def _nrows_opt(self, c):
        return {"absent": None, "exact": len(c["rows"]), "none": None, "negative": -1}[c.get("nrows", "absent")]

    def term(self, c, out):
        if out.get("crash"):
            return self.crash_verdict
        rows = c["rows"]
        fileb = bytes.fromhex(out["file"])
        tail = b"".join(bytes.fromhex(x) for x in rows)
        cfile = "(concat rows)" if fileb == tail else cbytes(fileb)
        rd = out["read"]
        cout = "(Ok (%s, %s))" % (cdtype(rd[1]["dtype"] or []), crows(rd[1]["rows"], (rows, "rows"))) if rd[0] == "ok" else "(Err %s)" % rd[1]
        return "let rows := %s in v_recfile %s rows %s %s %s" % (crows(rows), cdtype(c["dtype"]), copt(self._nrows_opt(c)), cfile, cout)

    def nontrivial(self, c, out):
        return bool(c.get("adv")) or (len(c["dtype"]) >= 2 and len(c["rows"]) >= 2 and any(int(ts[2:]) > 1 for _, ts, _ in c["dtype"]))

    def classify(self, c, out, verdict):
        rd = out.get("read")
        if out.get("c_contiguous") is False and rd and rd[0] == "ok":
            if rd[1]["dtype"] == c["dtype"] and len(rd[1]["rows"]) == len(c["rows"]) and rd[1]["rows"] != c["rows"]:
                return KF_NONCONTIG
        return None


class RecfileFn(RecfileEntry):
    kind = "recfile_fn"
    grid = (0, 2)


class RecfileCls(RecfileEntry):
    kind = "recfile_cls"
    grid = (1, 2)


class Region(IsoEntry):
    """written by sfile.write, data region read by the low-level Recfile given dtype + data offset
    (offset taken from the real scanner); also the raw bytes after the END line"""
    name = "sfile_region"

    def cases(self, ctx, round=0):
        cs = table_cases(ctx, round, ctx.n(25, 320), layouts=False, grid=(0, 3))
        for c in cs:
            c["nrows"] = ctx.rng.choice(["absent", "exact"])
        return cs

    def _impl(self, c):
        import numpy as np
        import esutil.recfile as recfile
        hdr = ast.literal_eval(c["header"]) if c.get("header") is not None else None
        data = make_data(c)
        fname = _fname()
        out = {"file": "", "text": None, "offset": -1, "read": None}
        try:
            out["text"], _ = real_write("sfile_fn", fname, data, hdr)
            out["file"] = open(fname, "rb").read().hex()
            scan = real_scan(fname)
            if scan[0] != "ok":
                out["read"] = ("err", scan[1], scan[2])
                return out
            out["offset"] = scan[1][1]
            kw = {"nrows": len(c["rows"])} if c.get("nrows") == "exact" else {}
            with recfile.Recfile(fname, mode="r", dtype=np_dtype_of(c["dtype"]), offset=out["offset"], **kw) as r:
                rd = r.read()
            out["read"] = ("ok", {"dtype": fields_of(rd.dtype) if (type(rd) is np.ndarray and rd.ndim == 1) else None,
                                  "rows": rows_of(rd)})
        except Exception as e:  # noqa
            out["read"] = ("err", core.errclass(e), "%s: %s" % (type(e).__name__, str(e)[:200]))
        finally:
            try:
                os.remove(fname)
            except OSError:
                pass
        return out

    def term(self, c, out):
        if out.get("crash"):
            return self.crash_verdict
        rows = c["rows"]
        fileb = bytes.fromhex(out["file"])
        tail = b"".join(bytes.fromhex(x) for x in rows)
        text = (out["text"] or "").encode()
        if tail and fileb.endswith(tail):
            cfile = "(%s ++ concat rows)" % cprefix(fileb[:len(fileb) - len(tail)], text)
        else:
            cfile = cbytes(fileb)
        rd = out["read"]
        cout = "(Ok (%s, %s))" % (cdtype(rd[1]["dtype"] or []), crows(rd[1]["rows"], (rows, "rows"))) if rd[0] == "ok" else "(Err %s)" % rd[1]
        nr = len(rows) if c.get("nrows") == "exact" else None
        return "let rows := %s in let d := %s in v_region d %s rows %s %s %s %s" % (
            crows(rows), cbytes(text), cdtype(c["dtype"]), copt(nr), cfile, cz(out["offset"]), cout)

    def nontrivial(self, c, out):
        return bool(c.get("adv")) or (len(c["dtype"]) >= 2 and len(c["rows"]) >= 2 and any(int(ts[2:]) > 1 for _, ts, _ in c["dtype"]))


VIEWS = {
    # name -> view of a 12-row base table b (1-d, C-contiguous)
    "all": lambda b: b,
    "step2": lambda b: b[::2],
    "step3-offset": lambda b: b[1::3],
    "reversed": lambda b: b[::-1],
    "reversed-step2": lambda b: b[::-2],
    "offset": lambda b: b[1:-1],
    "one-row": lambda b: b[5:6],
    "one-row-strided": lambda b: b[5:7:2],
    "2d": lambda b: b.reshape(3, 4),
    "transposed": lambda b: b.reshape(3, 4).T,
    "2d-sub": lambda b: b.reshape(3, 4)[::2, 1:],
    "2d-revcols": lambda b: b.reshape(3, 4)[:, ::-1],
    "3d-transposed": lambda b: b.reshape(2, 3, 2).transpose(2, 0, 1),
    "3d": lambda b: b.reshape(2, 3, 2),
    "0d": lambda b: b[7:8].reshape(()),
    "recarray": lambda b: b.view(__import__("numpy").recarray),
    "newaxis": lambda b: b[2:9:3, None],
}


class LayoutEntry(IsoEntry):
    ext = ".bin"
    """"any structured array": the array exactly as numpy holds it (base buffer, offset of element 0,
    shape, strides) goes into Coq (Layout.v); Recfile.write is the common writer of every entry point"""
    name = "layout"

    def cases(self, ctx, round=0):
        r = ctx.rng
        cs = []
        for rep in range(ctx.n(1, 12) if round == 0 else 2):
            for vn in VIEWS:
                fields = gen_dtype(r, maxrow=24)
                cs.append({"dtype": fields, "rows": gen_rows(r, fields, 12), "view": vn, "family": "layout-mem:" + vn})
        if round == 0 and not ctx.quick():
            # small-scope sweep: every non-empty 1-d slice b[s:e:st] of a 12-row table with bounds/steps from a grid
            fields = [["k", "<u2", []], ["s", "|S2", []]]
            rows = gen_rows(r, fields, 12)
            bounds = [None, 0, 1, 2, 5, 6, 11, 12, -1, -3]
            for st in (1, 2, 3, 5, -1, -2, -3, -5):
                for a in bounds:
                    for b in bounds:
                        if len(range(12)[slice(a, b, st)]) >= 1:
                            cs.append({"dtype": fields, "rows": rows, "view": "slice", "slice": [a, b, st], "family": "layout-mem:slice-sweep"})
        return cs

    def _impl(self, c):
        import numpy as np
        import esutil.recfile as recfile
        dt = np_dtype_of(c["dtype"])
        base = np.frombuffer(b"".join(bytes.fromhex(x) for x in c["rows"]), dtype=dt).copy()
        data = base[slice(*c["slice"])] if c["view"] == "slice" else VIEWS[c["view"]](base)
        start = data.__array_interface__["data"][0] - base.__array_interface__["data"][0]
        out = {"buf": base.tobytes().hex(), "start": int(start), "dims": [[int(n), int(st)] for n, st in zip(data.shape, data.strides)],
               "item": int(dt.itemsize), "np_rows": rows_of(data), "file": "", "read": None,
               "c_contiguous": bool(data.flags.c_contiguous)}
        fname = _fname(".bin")
        try:
            recfile.write(fname, data)
            out["file"] = open(fname, "rb").read().hex()
            rd = recfile.read(fname, dt)
            out["read"] = ("ok", {"dtype": fields_of(rd.dtype) if (type(rd) is np.ndarray and rd.ndim == 1) else None,
                                  "rows": rows_of(rd)})
        except Exception as e:  # noqa
            out["read"] = ("err", core.errclass(e), "%s: %s" % (type(e).__name__, str(e)[:200]))
        finally:
            try:
                os.remove(fname)
            except OSError:
                pass
        out["base_unchanged"] = (base.tobytes().hex() == out["buf"])
        return out

    def _view(self, out):
        return "(mkview %s %s [%s] %s)" % (cbytes(bytes.fromhex(out["buf"])), cz(out["start"]),
                                           "; ".join("(%s, %s)" % (cz(n), cz(st)) for n, st in out["dims"]), cz(out["item"]))

    def term(self, c, out):
        if out.get("crash"):
            return self.crash_verdict
        rd = out["read"]
        nr = out["np_rows"]
        cout = "(Ok (%s, %s))" % (cdtype(rd[1]["dtype"] or []), crows(rd[1]["rows"], (nr, "rows"))) if rd[0] == "ok" else "(Err %s)" % rd[1]
        fileb = bytes.fromhex(out["file"])
        cfile = "(concat rows)" if fileb == b"".join(bytes.fromhex(x) for x in nr) else cbytes(fileb)
        return "let rows := %s in v_layout %s %s rows %s %s" % (crows(nr), self._view(out), cdtype(c["dtype"]), cfile, cout)

    def nontrivial(self, c, out):
        return c["view"] not in ("all", "recarray", "3d", "2d", "one-row", "0d")

    def show(self, c):
        return None

    def classify(self, c, out, verdict):
        rd = out.get("read")
        if out.get("c_contiguous") is False and rd and rd[0] == "ok":
            if rd[1]["dtype"] == c["dtype"] and len(rd[1]["rows"]) == len(out["np_rows"]) and rd[1]["rows"] != out["np_rows"]:
                return KF_NONCONTIG
        return None


# ----------------------------------------------------------------------------------------------
# many rows: row counts around the block / buffer sizes a C reader or stdio could plausibly use
# ----------------------------------------------------------------------------------------------

EPS = ["sfile.read", "SFile.read", "SFile[:]", "io.read", "recfile.read", "Recfile.read", "Recfile[:]"]
MAXRUNS = 300          # more runs than this: the read-back is irregular, a literal window goes to Coq instead (never verdict 0)


def ap_encode(buf, s, maxruns=MAXRUNS):
    """Lossless, generic: the byte string as runs (count, first, step) of s-byte little-endian numbers in arithmetic
    progression mod 256^s (Big.dec_runs is the decoder).  Looks only at `buf`.  None: length not a multiple of s, or
    more than maxruns runs."""
    if s <= 0 or len(buf) % s:
        return None
    n = len(buf) // s
    v = [int.from_bytes(buf[i * s:(i + 1) * s], "little") for i in range(n)]
    mod = 1 << (8 * s)
    runs, i = [], 0
    while i < n:
        if i == n - 1:
            runs.append((1, v[i], 0))
            break
        step = (v[i + 1] - v[i]) % mod
        j = i + 1
        while j + 1 < n and (v[j + 1] - v[j]) % mod == step:
            j += 1
        runs.append((j - i + 1, v[i], step))
        i = j + 1
        if len(runs) > maxruns:
            return None
    return [[c, f.to_bytes(s, "little").hex(), st.to_bytes(s, "little").hex()] for c, f, st in runs]


def ap_decode(runs, s):
    """mirror of Big.dec_runs (used only to validate the printer: decode(encode(x)) == x before x is printed as runs)"""
    mod = 1 << (8 * s)
    out = []
    for c, f, st in runs:
        f, st = int.from_bytes(bytes.fromhex(f), "little"), int.from_bytes(bytes.fromhex(st), "little")
        out.append(b"".join(((f + k * st) % mod).to_bytes(s, "little") for k in range(c)))
    return b"".join(out)


def cruns(runs):
    return "(dec_runs [%s])" % "; ".join("Run %s %s %s" % (cz(c), cbytes(bytes.fromhex(f)), cbytes(bytes.fromhex(st))) for c, f, st in runs)


def small_dtype(r, s):
    """one or two fields with s bytes per row"""
    def base(k):
        return r.choice([b for b in BASES if int(b[1:]) == k])

    def fld(nm, b):
        k = int(b[1:])
        return [nm, ("|" if (k == 1 or b[0] == "S") else r.choice("<>")) + b, []]
    have = sorted({int(b[1:]) for b in BASES})
    two = [(a, s - a) for a in have if (s - a) in have]
    if s in have and (not two or r.random() < 0.5):
        return [fld("a", base(s))]
    a, b = r.choice(two)
    return [fld("a", base(a)), fld("END" if r.random() < 0.2 else "b", base(b))]


class ManyRows(IsoEntry):
    """tables with 2^k, 2^k +- 1 rows (k = 10..17) and 100003 rows, 2..16 bytes per row, through every reading entry point.
    The rows are an arithmetic progression of s-byte numbers so that the table, the file and the read-back travel to Coq as
    runs (Big.v) and are compared there as decoded byte lists."""
    name = "many_rows"

    def __init__(self):
        self.monitor_failures = []
        self.texts = []
        self.nmonitored = 0

    def cases(self, ctx, round=0):
        r = ctx.rng
        cs = []

        def add(ep, n, s):
            fields = small_dtype(r, s)
            first = bytes(r.randrange(256) for _ in range(s))
            step = bytes([r.randrange(256) | 1] + [r.randrange(256) for _ in range(s - 1)])
            hdr = None if ep.startswith(("recfile", "Recfile")) else r.choice([None, {"k": "v"}, {"note": "END", "n": n},
                                                                                {"µ": "José αβγ 100%% %s", "_Delim": ","}])
            cs.append({"ep": ep, "dtype": fields, "nrows": n, "first": first.hex(), "step": step.hex(),
                       "header": repr(hdr) if hdr is not None else None, "nrows_kw": r.choice(["absent", "absent", "exact"]),
                       "family": "many-rows:%d" % n})

        def rowsize_for(n, cap):
            return r.choice([k for k in (2, 3, 4, 5, 6, 8, 10, 12, 16) if n * k <= cap] or [2])
        if round > 0:
            for ep in EPS:
                add(ep, r.choice([16385, 32769]), r.choice([2, 3, 4]))
            return cs
        if ctx.quick():
            small = [1023, 1024, 1025, 4095, 4096, 4097, 8191, 8192, 8193, 16383, 16384]
            for i, ep in enumerate(EPS):
                add(ep, 16385, [2, 3, 4, 6, 8, 5, 16][i])
                add(ep, 32769, [4, 2, 6, 3, 2, 8, 4][i])
                add(ep, 65537, [2, 3, 2, 4, 3, 2, 2][i])
                for n in small[i::len(EPS)] + small[(i + 3) % len(EPS)::len(EPS)]:
                    add(ep, n, rowsize_for(n, 1 << 17))
            # one file above 1 MiB per run (entry point chosen by the seed)
            add(r.choice(EPS), 70001, 16)
            cs[-1]["family"] = "many-rows:>1MiB"
        else:
            sizes = sorted({(1 << k) + d for k in range(10, 18) for d in (-1, 0, 1)} | {100003})
            for ep in EPS:
                for n in sizes:
                    add(ep, n, rowsize_for(n, 250000))
                add(ep, r.choice([70001, 87382, 131073]), r.choice([12, 16]))          # 1 - 2 MiB
                cs[-1]["family"] = "many-rows:>1MiB"
        return cs

    def post(self, c, out):
        SFileEntry.post(self, c, out)

    def _impl(self, c):
        import numpy as np
        import esutil.sfile as sfile    # noqa
        import esutil.recfile as recfile
        ep, n = c["ep"], c["nrows"]
        dt = np_dtype_of(c["dtype"])
        s = dt.itemsize
        first, step = int.from_bytes(bytes.fromhex(c["first"]), "little"), int.from_bytes(bytes.fromhex(c["step"]), "little")
        mask = (1 << (8 * s)) - 1
        buf = b"".join(((first + i * step) & mask).to_bytes(s, "little") for i in range(n))
        data = np.frombuffer(buf, dtype=dt).copy()
        hdr = ast.literal_eval(c["header"]) if c.get("header") is not None else None
        fname = _fname()
        selfdesc = not ep.startswith(("recfile", "Recfile"))
        out = {"s": s, "text": None, "monitor": None, "scan": ("err", "EOther", "not run"), "evaltext": ("err", "EOther", "not run"),
               "pfx": "", "file_runs": None, "file_len": -1, "read": None, "ukeys": sorted(hdr) if hdr else [], "window": None}

        def encode(b, what):
            runs = ap_encode(b, s)
            if runs is not None:
                assert ap_decode(runs, s) == b, "printer: run encoding of %s is not lossless" % what
            return runs

        def window(b):
            """rows of b around the first row that differs from the table written (only to choose WHICH rows are printed)"""
            nb = len(b) // s
            k = next((i for i in range(min(nb, n)) if b[i * s:(i + 1) * s] != buf[i * s:(i + 1) * s]), min(nb, n))
            r0 = max(0, k - 1)
            return [r0, [b[i * s:(i + 1) * s].hex() for i in range(r0, min(nb, r0 + 4))], nb]
        try:
            if selfdesc:
                kind = {"sfile.read": "sfile_fn", "SFile.read": "sfile_cls", "SFile[:]": "sfile_cls", "io.read": "io_fn"}[ep]
                text, head = real_write(kind, fname, data, hdr)
                out["text"] = text
                if text is not None:
                    out["monitor"] = monitor(text, head, data.dtype)
                    out["hpf"] = hpf_observation(hdr, head, data.dtype)
            elif ep == "recfile.read":
                recfile.write(fname, data)
            else:
                with recfile.Recfile(fname, "w") as rf:
                    rf.write(data)
        except Exception as e:  # noqa
            out["read"] = ("err", core.errclass(e), "write: %s: %s" % (type(e).__name__, str(e)[:200]))
            return out
        raw = open(fname, "rb").read()
        hlen = 0
        if selfdesc:
            out["scan"] = real_scan(fname)
            hlen = out["scan"][1][1] if out["scan"][0] == "ok" else max(0, len(raw) - len(buf))
            hlen = min(max(hlen, 0), len(raw))
        out["pfx"] = raw[:hlen].hex()
        out["file_len"] = len(raw)
        out["file_runs"] = encode(raw[hlen:], "the file's data region")
        if out["file_runs"] is None:
            out["window"] = ["file"] + window(raw[hlen:])
        try:
            if selfdesc:
                rdata, rhdr, texts = real_read(kind, fname, "slice" if ep == "SFile[:]" else "read")
                out["evaltext"] = ("ok", texts[1].encode().hex()) if len(texts) >= 2 else ("err", "EOther", "eval not reached")
                try:
                    hdt = fields_of(np.dtype(rhdr["_DTYPE"]))
                except Exception:  # noqa
                    hdt = None
                size = rhdr.get("_SIZE")
                extra = {"size": int(size) if isinstance(size, int) and not isinstance(size, bool) else -1, "hdtype": hdt,
                         "keys": [[k, bool(k in rhdr and rhdr[k] == hdr[k])] for k in (hdr or {})]}
            else:
                kw = {"nrows": n} if c.get("nrows_kw") == "exact" else {}
                if ep == "recfile.read":
                    rdata = recfile.read(fname, dt, **kw)
                else:
                    with recfile.Recfile(fname, mode="r", dtype=dt, **kw) as rf:
                        rdata = rf[:] if ep == "Recfile[:]" else rf.read()
                extra = {}
            ob = np.ascontiguousarray(rdata).tobytes()
            oruns = encode(ob, "the rows read back") if (rdata.dtype.itemsize == s) else None
            if oruns is None and out["window"] is None:
                out["window"] = ["read"] + window(ob)
            out["read"] = ("ok", dict(extra, dtype=fields_of(rdata.dtype) if (type(rdata) is np.ndarray and rdata.ndim == 1) else None,
                                      runs=oruns, nrows=int(rdata.size)))
        except Exception as e:  # noqa
            out["read"] = ("err", core.errclass(e), "%s: %s" % (type(e).__name__, str(e)[:200]))
        return out

    def term(self, c, out):
        if out.get("crash"):
            return self.crash_verdict
        s = out["s"]
        rows = "let rows := %s in" % cruns([[c["nrows"], c["first"], c["step"]]])
        if out["window"] is not None:
            _, r0, lit, _ = out["window"]
            return "%s v_big_window rows %s %s" % (rows, cz(r0), crows(lit))
        rd = out["read"]
        cfile_data = "concat %s" % cruns(out["file_runs"])
        if c["ep"].startswith(("recfile", "Recfile")):
            cout = ("(Ok (%s, %s))" % (cdtype(rd[1]["dtype"] or []), cruns(rd[1]["runs"]))) if rd[0] == "ok" else "(Err %s)" % rd[1]
            nr = c["nrows"] if c.get("nrows_kw") == "exact" else None
            return "%s v_big_recfile %s rows %s (%s) %s" % (rows, cdtype(c["dtype"]), copt(nr), cfile_data, cout)
        text = (out["text"] or "").encode()
        pfx = bytes.fromhex(out["pfx"])

        def shared(b):
            if b == pfx:
                return "pfx"
            if b == text:
                return "d"
            if text and b == text.replace(b"\n", b" "):
                return "(nl2sp d)"
            return cbytes(b)
        scan, ev = out["scan"], out["evaltext"]
        cscan = "(Ok (%s, %s))" % (shared(bytes.fromhex(scan[1][0])), cz(scan[1][1])) if scan[0] == "ok" else "(Err %s)" % scan[1]
        cev = "(Ok %s)" % shared(bytes.fromhex(ev[1])) if ev[0] == "ok" else "(Err %s)" % ev[1]
        if rd[0] == "ok":
            o = rd[1]
            cout = ("(Ok {| o_dtype := %s; o_rows := %s; o_size := %s; o_hdtype := %s; o_keys := [%s] |})" % (
                cdtype(o["dtype"] or []), cruns(o["runs"]), cz(o["size"]), cdtype(o["hdtype"] or []),
                "; ".join("(%s, %s)" % (cbytes(k.encode()), cbool(v)) for k, v in o["keys"])))
        else:
            cout = "(Err %s)" % rd[1]
        ukeys = "[" + "; ".join(cbytes(k.encode()) for k in out["ukeys"]) + "]"
        return "%s let d := %s in let pfx := %s in v_big_sfile d %s rows %s (pfx ++ %s) %s %s %s" % (
            rows, cbytes(text), cprefix(pfx, text), cdtype(c["dtype"]), ukeys, cfile_data, cscan, cev, cout)

    def nontrivial(self, c, out):
        return True


# ----------------------------------------------------------------------------------------------
# history: several round trips in ONE process, arranged so that state carried from one call to the next
# (an object reused for a second file, a cache keyed by path / file size / field names / record size /
# argument identity) would show
# ----------------------------------------------------------------------------------------------

SD_KINDS = ["sfile_fn", "sfile_cls", "io_fn", "sfile_reuse"]
RF_KINDS = ["recfile_fn", "recfile_cls", "recfile_reuse"]

def hist_path(base, slot):
    root, ext = os.path.splitext(base)
    return "%s_%s%s" % (root, slot, ext or ".rec")       # io.write / io.read go by the extension .rec


def hist_run(steps, base, alone_index=None):
    """run the steps (all of them in this process, or only steps[alone_index] with fresh objects) on the real code"""
    import numpy as np
    objs = {"sf": None, "rf": None, "hdr": None, "arr": None}
    outs = []
    paths = set()
    todo = list(enumerate(steps)) if alone_index is None else [(alone_index, steps[alone_index])]
    for i, st in todo:
        path = hist_path(base, st.get("path", "A"))
        paths.add(path)
        data = make_data(st)
        hdr = ast.literal_eval(st["header"]) if st.get("header") is not None else None
        if alone_index is None:
            # (a) the same argument OBJECTS again, contents changed in place
            if st.get("same_arr_obj") and objs["arr"] is not None and objs["arr"].dtype == data.dtype and objs["arr"].shape == data.shape \
                    and data.flags.c_contiguous:
                objs["arr"][...] = data
                data = objs["arr"]
            elif data.flags.c_contiguous:
                objs["arr"] = data
            if st.get("same_hdr_obj") and isinstance(objs["hdr"], dict) and isinstance(hdr, dict):
                objs["hdr"].clear()
                objs["hdr"].update(hdr)
                hdr = objs["hdr"]
            elif isinstance(hdr, dict):
                objs["hdr"] = hdr
        if st["writer"] in SD_KINDS:
            outs.append(sfile_roundtrip(st["writer"], st, path, objs=objs, data=data, hdr=hdr, keep_file=True))
        else:
            outs.append(recfile_roundtrip(st["writer"], st, path, objs=objs, data=data, keep_file=True))
    for o in (objs["sf"], objs["rf"]):
        try:
            if o is not None:
                o.close()
        except Exception:  # noqa
            pass
    for pth in paths:
        try:
            os.remove(pth)
        except OSError:
            pass
    return outs


class History(IsoEntry):
    """sequences of 2-4 round trips in one process; every step is judged like a single round trip (model comparison +
    verified checker) twice: as it came out in the sequence, and made alone in a fresh process with fresh objects"""
    name = "history"

    def __init__(self):
        self.monitor_failures = []
        self.texts = []
        self.nmonitored = 0
        self._sfp = SFileFn()
        self._rfp = RecfileFn()

    # ---- generators
    def cases(self, ctx, round=0):
        r = ctx.rng
        cs = []

        def table(fields, nrows, hdr, **kw):
            return dict({"dtype": fields, "rows": gen_rows(r, fields, nrows), "header": repr(hdr) if hdr is not None else None,
                         "via": r.choice(["read", "slice"])}, **kw)

        def sd(step, w=None, rd=None):
            step["writer"] = w or r.choice(SD_KINDS)
            step["reader"] = rd or r.choice(SD_KINDS)
            return step

        def rf(step, w=None, rd=None):
            step["writer"] = w or r.choice(RF_KINDS)
            step["reader"] = rd or r.choice(RF_KINDS)
            step["header"] = None
            step["nrows"] = r.choice(["absent", "absent", "exact", "none", "negative"])
            return step

        def variant(fields):
            """same field names and record size, other types / byte orders"""
            out = []
            for nm, ts, sh in fields:
                k = int(ts[2:])
                cand = [t for t in SAME_SIZE.get(k, [ts]) if t != ts] or [ts]
                out.append([nm, r.choice(cand), sh])
            return out

        def hdr_like(h):
            """another header whose pformat text has the same length"""
            return {k: ("".join(r.choice("abcxyz") for _ in v) if isinstance(v, str) else v) for k, v in h.items()}
        reps = ctx.n(2, 12) if round == 0 else 1
        for _ in range(reps):
            # (c) one SFile object for file after file (first use a write, or a read), other paths and the same path
            f1, f2, f3 = gen_dtype(r, maxrow=40), gen_dtype(r, maxrow=40), gen_dtype(r, maxrow=40)
            cs.append({"family": "history:reuse-SFile", "steps": [
                sd(table(f1, 3, gen_header(r, "simple"), path="A"), "sfile_reuse", "sfile_reuse"),
                sd(table(f2, 2, gen_header(r, "END"), path="B"), "sfile_reuse", "sfile_reuse"),
                sd(table(f3, 4, gen_header(r, "none"), path="A", noclose=True), "sfile_reuse", "sfile_reuse")]})
            cs.append({"family": "history:reuse-SFile-read-first", "steps": [
                sd(table(f1, 3, gen_header(r, "simple"), path="A"), r.choice(["sfile_fn", "sfile_cls", "io_fn"]), "sfile_reuse"),
                sd(table(f2, 2, gen_header(r, "nested"), path="B"), "sfile_reuse", r.choice(SD_KINDS)),
                sd(table(f1, 2, gen_header(r, "simple"), path="B"), "sfile_reuse", "sfile_reuse")]})
            cs.append({"family": "history:reuse-Recfile", "steps": [
                rf(table(f1, 3, None, path="A"), "recfile_reuse", "recfile_reuse"),
                rf(table(f2, 5, None, path="B", noclose=True), "recfile_reuse", "recfile_reuse"),
                rf(table(variant(f1), 2, None, path="A"), "recfile_reuse", "recfile_reuse")]})
            # (b) what a lazy key would use is shared: path, file size, field names, record size, row count, first/last rows
            h = gen_header(r, "simple")
            g = [["x", r.choice(SAME_SIZE[4]), []], ["y", r.choice(SAME_SIZE[8]), [2]], ["s", "|S3", []]]
            t1 = table(g, 4, h, path="A")
            t2 = table(variant(g), 4, hdr_like(h), path="A")
            t3 = table(variant(g), 4, h, path="A")
            t3["rows"] = [t1["rows"][0]] + t3["rows"][1:-1] + [t1["rows"][-1]]     # equal first and last rows
            cs.append({"family": "history:same-path-size-names", "steps": [sd(t1), sd(t2), sd(t3)]})
            t1, t2 = table(g, 3, None, path="A"), table(variant(g), 3, None, path="A")
            t3 = table([["p", g[0][1], []], ["q", g[1][1], [2]], ["r", "|S3", []]], 3, None, path="A")      # other names, same '|V23'
            cs.append({"family": "history:same-path-size-names-recfile", "steps": [rf(t1), rf(t2), rf(t3)]})
            # (a) the same array / header OBJECTS passed again after an in-place change; equal contents in another object
            t1 = table(f1, 3, gen_header(r, "simple"), path="A")
            t2 = table(f1, 3, gen_header(r, "simple"), path=r.choice("AB"), same_arr_obj=True, same_hdr_obj=True)
            t3 = dict(copy.deepcopy(t1), path="B")
            cs.append({"family": "history:same-argument-objects", "steps": [sd(t1), sd(t2), sd(t3), sd(dict(copy.deepcopy(t2), same_arr_obj=True))]})
            # mixed families through one path: self-describing file, raw record file, self-describing again
            cs.append({"family": "history:mixed", "steps": [
                sd(table(f2, 2, gen_header(r, "SIZE"), path="A")), rf(table(f2, 2, None, path="A")),
                sd(table(f3, r.choice([1, 2, 6]), gen_header(r, r.choice(["reserved", "long", "empty"])), path="A")),
                rf(table(f3, 1, None, path="B"))]})
            # (e) documented optional arguments with non-default values that must not matter for a binary file
            o1 = sd(table(f1, 2, gen_header(r, "simple"), path="A", wkw=r.choice([{"padnull": True}, {"ignorenull": True}])),
                    r.choice(["sfile_fn", "sfile_cls", "io_fn", "sfile_reuse"]), "sfile_fn")
            o1["rkw"] = r.choice([{"rows": None, "columns": None}, {"split": False, "reduce": False}, {"fields": None}])
            o1["via"] = "read"
            o2 = rf(table(f1, 2, None, path="B", wkw=r.choice([{"padnull": True}, {"ignorenull": True}, {"bracket_arrays": True}])),
                    r.choice(["recfile_cls", "recfile_reuse"]))
            o2["rkw"] = r.choice([{"offset": 0}, {"offset": None}, {"offset": ""}, {"padnull": True}, {"ignorenull": True}, {"offset": -3}])
            cs.append({"family": "history:options", "steps": [o1, o2]})
            # aliasing / ownership: the caller modifies what a read RETURNED (array and header dict) and reads again — through a
            # re-used object, a fresh object and the module functions; then writes the modified array to another file
            cs.append({"family": "history:modify-returned", "steps": [
                sd(table(f1, 3, gen_header(r, "simple"), path="A", mutate_returned=True), None, "sfile_reuse"),
                sd(table(f1, 3, gen_header(r, "simple"), path="A", mutate_returned=True, noclose=True), "sfile_reuse", "sfile_reuse"),
                rf(table(f2, 4, None, path="B", mutate_returned=True), None, "recfile_reuse"),
                sd(table(f2, 4, gen_header(r, "nested"), path="B", mutate_returned=True), None, r.choice(["sfile_fn", "io_fn", "sfile_cls"]))]})
        for c in cs:
            for st in c["steps"]:
                st.setdefault("family", c["family"])
        return cs

    # ---- driving the real code
    def _impl(self, c):
        return {"seq": hist_run(c["steps"], _fname())}

    def _alone(self, c, i):
        return hist_run(c["steps"], _fname(), alone_index=i)[0]

    def impl(self, c):
        out = IsoEntry.impl(self, c)
        if out.get("crash"):
            return out
        alone = []
        for i in range(len(c["steps"])):
            w = _Worker(self._alone, exclusive=False)        # a FRESH process (the parent never imports esutil) per step
            path = _fname(self.ext)
            try:
                st, val = w.call(path, c, i)
            finally:
                w.close()
                for sfx in ("A", "B"):
                    try:
                        os.remove(hist_path(path, sfx))
                    except OSError:
                        pass
            alone.append(val if st == "ok" else {"crash": val, "file": "", "read": ("err", "EOther", "the real code died: " + val)})
        out["alone"] = alone
        out["alone_identical"] = [a == b for a, b in zip(alone, out["seq"])]
        return out

    def post(self, c, out):
        for o in out.get("seq", []):
            SFileEntry.post(self, c, o)

    def _step_term(self, st, o):
        pr = self._sfp if st["writer"] in SD_KINDS else self._rfp
        return "(%s)" % pr.term(st, o)

    def term(self, c, out):
        if out.get("crash"):
            return self.crash_verdict
        ts = []
        for st, o, a, same in zip(c["steps"], out["seq"], out["alone"], out["alone_identical"]):
            ts.append(self._step_term(st, o))
            if not same:          # identical observations print the identical term: printed once
                ts.append(self._step_term(st, a))
        t = ts[0]
        for u in ts[1:]:
            t = "(Z.lor %s %s)" % (t, u)
        return t

    def nontrivial(self, c, out):
        return True

    def family(self, c):
        return c.get("family", "history")


class Malformed(IsoEntry):
    crash_verdict = "(verdict false true)"       # nothing is required of malformed files: a crash there is a disagreement
    """malformed stream (correspondence only; the property requires nothing here): truncated or
    extended self-describing files, a patched SIZE line, and the low-level reader with a wrong
    dtype / row count / offset."""
    name = "malformed"

    def cases(self, ctx, round=0):
        r = ctx.rng
        cs = []
        for _ in range(ctx.n(60, 900)):
            fields = gen_dtype(r, maxrow=40)
            nrows = r.choice([1, 2, 3, 5])
            base = {"dtype": fields, "rows": gen_rows(r, fields, nrows)}
            if r.random() < 0.5:
                hdr = gen_header(r, r.choice(["none", "simple", "END"]))
                cs.append(dict(base, mode="sfile", header=repr(hdr), op=r.choice(["cut-data", "cut-data", "cut-header", "cut-blank", "extend", "size"]),
                               u=r.random(), size=r.choice([0, 1, nrows - 1, nrows + 1, nrows + 7, nrows]), family="malformed:sfile"))
            else:
                other = gen_dtype(r, maxrow=40) if r.random() < 0.6 else fields
                cs.append(dict(base, mode="recfile", dtype2=other, op=r.choice(["as-is", "cut", "extend"]), u=r.random(),
                               nrows=r.choice([None, None, -3, 0, 1, nrows, nrows + 1, 2 * nrows]),
                               offset=r.choice([0, 0, 1, 3, rowsize(fields), 10 ** 4]), family="malformed:recfile"))
        return cs

    def _impl(self, c):
        import esutil.sfile as sfile
        import esutil.recfile as recfile
        data = make_data(c)
        fname = _fname()
        out = {"file": "", "read": None}
        try:
            if c["mode"] == "sfile":
                hdr = ast.literal_eval(c["header"])
                real_write("sfile_fn", fname, data, hdr)
                raw = open(fname, "rb").read()
                hlen = len(raw) - data.nbytes
                op = c["op"]
                if op == "cut-data":
                    raw = raw[:hlen + int(c["u"] * data.nbytes)]
                elif op == "cut-header":
                    raw = raw[:max(8, int(c["u"] * hlen))]
                elif op == "cut-blank":
                    raw = raw[:hlen - 1]
                elif op == "extend":
                    raw = raw + bytes(range(1, 1 + int(c["u"] * 20)))
                elif op == "size":
                    raw = (b"SIZE = %20d" % c["size"]) + raw[27:]
                open(fname, "wb").write(raw)
                out["file"] = raw.hex()
                try:
                    rd, rh = sfile.read(fname, header=True)
                    out["read"] = ("ok", [int(rh["_SIZE"]), rows_of(rd)])
                except Exception as e:  # noqa
                    out["read"] = ("err", core.errclass(e), "%s: %s" % (type(e).__name__, str(e)[:200]))
            else:
                recfile.write(fname, data)
                raw = open(fname, "rb").read()
                if c["op"] == "cut":
                    raw = raw[:int(c["u"] * len(raw))]
                elif c["op"] == "extend":
                    raw = raw + bytes(range(1, 1 + int(c["u"] * 20)))
                open(fname, "wb").write(raw)
                out["file"] = raw.hex()
                kw = {} if c["nrows"] is None else {"nrows": c["nrows"]}
                try:
                    with recfile.Recfile(fname, mode="r", dtype=np_dtype_of(c["dtype2"]), offset=c["offset"], **kw) as r:
                        rd = r.read()
                    out["read"] = ("ok", rows_of(rd))
                except Exception as e:  # noqa
                    out["read"] = ("err", core.errclass(e), "%s: %s" % (type(e).__name__, str(e)[:200]))
        finally:
            try:
                os.remove(fname)
            except OSError:
                pass
        return out

    def term(self, c, out):
        if out.get("crash"):
            return self.crash_verdict
        fileb = bytes.fromhex(out["file"])
        rd = out["read"]
        if c["mode"] == "sfile":
            cout = "(Ok (%s, %s))" % (cz(rd[1][0]), crows(rd[1][1])) if rd[0] == "ok" else "(Err %s)" % rd[1]
            return "v_sfile_raw %s %s %s" % (cbytes(fileb), cdtype(c["dtype"]), cout)
        cout = "(Ok %s)" % crows(rd[1]) if rd[0] == "ok" else "(Err %s)" % rd[1]
        return "v_recfile_raw %s %s %s %s %s" % (cbytes(fileb), cz(c["offset"]), cdtype(c["dtype2"]), copt(c["nrows"]), cout)

    def nontrivial(self, c, out):
        return out["read"][0] == "err" or c.get("op") in ("extend", "size")



# ----------------------------------------------------------------------------------------------
# constants of the source against constants of the model (DESIGN 4.1, T-const; fail-closed)
# ----------------------------------------------------------------------------------------------

def c_unescape(lit):
    return lit.encode().decode("unicode_escape").encode("latin-1")


def extract_constants(impl_root):
    """sfile.py through `ast`, records.cpp through regexes.  Anything that cannot be found raises."""
    import re
    src = open(os.path.join(impl_root, "esutil", "sfile.py")).read()
    tree = ast.parse(src)
    version = fmt = None
    for node in tree.body:
        if isinstance(node, ast.Assign) and any(isinstance(t, ast.Name) and t.id == "SFILE_VERSION" for t in node.targets):
            version = ast.literal_eval(node.value)
    cls = [n for n in tree.body if isinstance(n, ast.ClassDef) and n.name == "SFile"][0]
    meth = {n.name: n for n in cls.body if isinstance(n, ast.FunctionDef)}
    for n in ast.walk(meth["_get_size_string"]):
        if isinstance(n, ast.BinOp) and isinstance(n.op, ast.Mod) and isinstance(n.left, ast.Constant) and isinstance(n.left.value, str):
            fmt = n.left.value
    if version is None or fmt is None:
        raise ValueError("sfile.py: SFILE_VERSION / size format not found")
    cpp = open(os.path.join(impl_root, "esutil", "recfile", "records.cpp")).read()
    m = re.search(r"PyObject\*\s+Records::read_sfile_header\(void\)\s*\{(.*?)\n\}", cpp, re.S)
    if not m:
        raise ValueError("records.cpp: read_sfile_header not found")
    body = m.group(1)
    cmpm = re.search(r'strncmp\(\s*endbuff\s*,\s*"((?:[^"\\]|\\.)*)"\s*,\s*(\d+)\s*\)', body)
    incm = re.findall(r"count\s*\+=\s*(\d+)\s*;", body)
    if not cmpm or len(incm) != 1:
        raise ValueError("records.cpp: scanner literal / count increment not found")
    return {"version": version, "fmt": fmt, "scan_lit": c_unescape(cmpm.group(1)).hex(),
            "scan_n": int(cmpm.group(2)), "incr": int(incm[0])}


def source_tie(ctx):
    try:
        k = extract_constants(ctx.impl)
    except Exception as e:  # noqa
        ctx.obligation("source constants extracted (sfile.py ast, records.cpp regex)", False, str(e))
        ctx.violation("tie to the source broken: constants of sfile.py / records.cpp could not be extracted (%s)" % str(e)[:200],
                      {"kind": "source-tie", "error": str(e), "no_longer_checks": "C01 model constants = source constants"}, found_input=False)
        return
    ns = [0, 1, 9, 10, 12345, 10 ** 19, 10 ** 20 - 1, 10 ** 20, 10 ** 25 + 7]
    terms, names = [], []
    for n in ns:
        try:
            txt = (k["fmt"] % n).encode()
        except Exception:  # noqa
            txt = b"<format failed>"
        terms.append("v_tie_size %s %s" % (cz(n), cbytes(txt)))
        names.append("size_line %d = %r %% %d" % (n, k["fmt"], n))
    terms.append("v_tie_version %s" % cbytes(k["version"].encode()))
    names.append("sfile_version = SFILE_VERSION %r" % k["version"])
    terms.append("v_tie_scan %s %d%%nat %d%%nat" % (cbytes(bytes.fromhex(k["scan_lit"])), k["scan_n"], k["incr"]))
    names.append("scanner pattern/length/increment = strncmp(endbuff, %r, %d); count += %d" % (
        bytes.fromhex(k["scan_lit"]), k["scan_n"], k["incr"]))
    try:
        vals = core.coq_eval(os.path.join(ctx.work, "tie"), PRE, terms, tag="tie")
    except core.CoqEvalError as e:
        vals = ["1"] * len(terms)
        ctx.notes.append("tie evaluation failed: %s" % str(e)[-300:])
    bad = []
    for nm, v in zip(names, vals):
        ok = v.strip("() ").replace("%Z", "") == "0"
        ctx.obligation("source tie: " + nm, ok)
        if not ok:
            bad.append(nm)
    ctx.count("source_tie_constants", len(terms))
    if bad:
        ctx.violation("tie to the source broken: the model's constants differ from the source: %s" % "; ".join(bad)[:400],
                      {"kind": "source-tie", "constants": k, "mismatch": bad,
                       "no_longer_checks": "C01 model constants = source constants (Framing.size_line/pat/blank_extra, Model.deleted_keys/sfile_version)"},
                      found_input=False)


def gen_tie(ctx):
    """DESIGN 4.1: C01/Gen.v (constants + small integer functions) is regenerated from the source of the tree under
    check.  Identical to the committed text: the compiled theorems of GenProofs.v (C01_gen_* in Properties.v) are about
    this source.  Different: Gen.v + GenProofs.v are recompiled against the new text in an overlay; if that fails the tie
    is broken (the model's constants / integer functions are not the source's any more)."""
    import shutil
    import subprocess
    try:
        text = c01_translate.generate(ctx.impl)
    except Exception as e:  # noqa  (TranslateError, Untranslatable, OSError, SyntaxError: all fail closed)
        ctx.obligation("Gen.v regenerated from sfile.py / Util.py / records.cpp (c01_translate)", False, str(e))
        ctx.violation("tie to the source broken: the constants / integer functions left the translatable shape (%s)" % str(e)[:300],
                      {"kind": "translation", "error": str(e), "no_longer_checks": "C01/Gen.v = source; C01_gen_* theorems"}, found_input=False)
        return
    ctx.obligation("Gen.v regenerated from sfile.py / Util.py / records.cpp (c01_translate)", True)
    committed = open(os.path.join(core.COQDIR, "theories", "C01", "Gen.v")).read()
    if text == committed:
        ctx.obligation("regenerated Gen.v is identical to the committed text (GenProofs.vo is about this source)", True)
        return
    ov = os.path.join(ctx.work, "genov")
    shutil.rmtree(ov, ignore_errors=True)
    os.makedirs(ov)
    open(os.path.join(ov, "Gen.v"), "w").write(text)
    gp = open(os.path.join(core.COQDIR, "theories", "C01", "GenProofs.v")).read()
    imp = "From EsVerif.C01 Require Import Framing Model Gen."
    assert gp.count(imp) == 1
    open(os.path.join(ov, "GenProofs.v"), "w").write(gp.replace(imp, "From EsVerif.C01 Require Import Framing Model.\nFrom EsVerifRun Require Import Gen."))
    log, ok = "", True
    for m in ("Gen", "GenProofs"):
        r = subprocess.run(["timeout", "300", "coqc", "-Q", os.path.join(core.COQDIR, "theories"), "EsVerif", "-Q", ov, "EsVerifRun",
                            "-w", "-notation-overridden", os.path.join(ov, m + ".v")], stdout=subprocess.PIPE, stderr=subprocess.STDOUT, text=True)
        log += r.stdout
        if r.returncode != 0:
            ok = False
            break
    ctx.obligation("regenerated Gen.v differs from the committed text: GenProofs.v re-proved against it", ok, log[-600:])
    if ok:
        ctx.notes.append("Gen.v regenerated from the source differs from the committed text; GenProofs.v was re-proved against it")
    else:
        ctx.violation("tie to the source broken: the statements of C01/GenProofs.v (model constants / integer functions = source) do not "
                      "hold for the regenerated Gen.v: %s" % " ".join(log.split())[-300:],
                      {"kind": "translation", "regenerated_Gen_v": text, "coqc_log_tail": log[-2000:],
                       "no_longer_checks": "C01_gen_consts / C01_gen_recfile_read / C01_gen_slice_agree"}, found_input=False)


def coqchk_step(ctx):
    import subprocess
    cmd = ["timeout", "900", "coqchk", "-silent", "-o", "-Q", os.path.join(core.COQDIR, "theories"), "EsVerif", "EsVerif.C01.Properties"]
    r = subprocess.run(cmd, stdout=subprocess.PIPE, stderr=subprocess.STDOUT, text=True, cwd=core.COQDIR)
    ok = r.returncode == 0 and "Axioms: <none>" in r.stdout
    ctx.checker_cmds.append("coqchk -silent -o -Q coq/theories EsVerif EsVerif.C01.Properties")
    ctx.obligation("coqchk -o EsVerif.C01.Properties: exit 0, Axioms: <none>", ok, r.stdout[-400:])
    if not ok:
        ctx.violation("coqchk rejects C01/Properties.vo or reports axioms", {"kind": "coqchk", "log_tail": r.stdout[-2000:]}, found_input=False)


ENTRIES = [SFileFn(), SFileCls(), IoFn(), RecfileFn(), RecfileCls(), LayoutEntry(), ManyRows(), History(), Region(), Malformed()]

TRUSTED = [
    "Coq 8.16.1 kernel (coqc, vm_compute; no native_compute); every C01 theorem is closed under the global context (no axioms); "
    "coqchk on Properties.vo in the thorough tier",
    "hand-written models C01/Framing.v + C01/Model.v + C01/Layout.v + C01/Entry.v of sfile.py (_make_header, _write_header, read_header, "
    "_extract_size_from_string, _match_key, write/read wrappers), records.cpp (write_header_and_update_offset, read_sfile_header AFTER "
    "fixes/C01/0001, Write/WriteAllAsBinary, read_binary_slice, process_nrows), recfile/Util.py (_count_nrows, read, _read_binary_slice, "
    "Recfile.write AFTER fixes/C01/0002: ascontiguousarray), io.py (*.rec wrappers); tied to the working tree by the correspondence run on "
    "every check (file bytes, scanner result, eval text, the dict _make_header built, read-back rows, and for the layout entry the array's "
    "base buffer/offset/shape/strides; bounded by the generators)",
    "regenerated from the source on every run, TRANSLATED statement by statement with a tie lemma each (C01_gen_make_header, C01_gen_mk_header, "
    "C01_gen_parse_header): SFile._make_header (reserved list, case-insensitive deletion loop, order of the _DTYPE/_VERSION entries), the list "
    "of header lines joined in _write_header, the line selection lines[0] / lines[1:len-3] / ' '.join of read_header; and, as before, "
    "(harness/props/c01_translate.py -> C01/Gen.v, fail closed; theorems C01_gen_*): SFILE_VERSION, "
    "the SIZE formats of sfile.py and Records::update_row_count, the deleted-key list, the scanner literal/length/increment, "
    "Recfile._get_slice_nrows, Recfile._count_nrows (binary branch), Records::process_slice, Records::process_nrows; the translators "
    "(python ast via harness/translate/tint.py, a mini C statement/expression translator) are trusted to print what the source says",
    "Python layer: C01_roundtrip keeps pformat / eval / numpy.dtype abstract under the contract H_pf; C01/Pyval.v + Uncond.v give a concrete "
    "model (header values, printer, parser of Python's literal syntax, numpy.dtype on packed descr lists) for which H_pf is a THEOREM "
    "(C01_H_pf_holds, C01_roundtrip_unconditional).  What ties that model to the real Python: on every header of a run, inside Coq, the "
    "verified checker hpf_check (sound: C01_hpf_check_sound) accepts the REAL pformat text — the verified parser reads it back to a dict "
    "equal to the header the real _make_header built, which equals the model's make_header — and the REAL eval of the model printer's text "
    "== header.  Remaining assumption: the parser Pyval.pv_parse agrees with Python's eval on pformat output (sampled as above, not proved); "
    "the Python-side monitor of H_pf (a)(b)(c) still runs as before",
    "modelled, not verified: C stdio (fopen/fseek/ftell/fread/fwrite/fgetc as operations on a byte list; signed char makes 0xFF look like EOF), "
    "UTF-8 encode/decode of the header text (identity on bytes), numpy's memory layout (element i of a view = itemsize bytes at "
    "start + sum(index_k * stride_k) of the base buffer; ascontiguousarray = the elements in C order; tobytes()), numpy.zeros + fread "
    "filling the output array; ASCII view of str.strip/upper/lower; eval of the SIZE value modelled for blank-padded decimal digits only; "
    "of the abstract theorem only: user keys spelling _dtype otherwise than _DTYPE need the evaluated dict to list _DTYPE first (true of pformat's "
    "sorted output; decided per case on the real text by hpf_check_all); every spelling of _size/_nrows/_delim/_shape/_has_fields is stripped by "
    "_make_header (since /repo 04e3f20) and exempt from the key clause only",
    "many-rows family (2^k, 2^k+-1 rows, k=10..17, 100003): the table, the data region of the file the real code wrote and the rows it "
    "read back enter Coq as arithmetic-progression runs produced by a generic lossless encoder (ap_encode; decoder Big.dec_runs; the "
    "encoder's losslessness is checked in Python on every use) and are compared INSIDE Coq as decoded byte lists, with readers proved equal "
    "to the model's (C01_fast_readers_are_model); when a read-back is too irregular to be printed as <= 300 runs, a 4-row literal window "
    "around the first differing row (located in Python) is judged in Coq and the verdict can never be 0",
    "history entry: 2-4 round trips in ONE process (one SFile / Recfile object re-opened on file after file, the same path rewritten with "
    "equal size / field names / record size, the same array and header objects changed in place, non-default optional arguments); every step "
    "is judged like a single round trip (model + checker in Coq) as it came out in the sequence AND as made alone in a fresh process; the "
    "model itself has no state between calls (each file is a function of the header, dtype and rows written to it)",
    "every call into the real esutil runs in a forked worker process (one per entry point): a segfault/abort/hang of the C extension is "
    "recorded as the outcome of that case (failing input) instead of killing the check",
    "python harness (harness/props/C01.py): generators, drivers, observation of pformat/eval by shadowing the names `pprint`/`eval` in "
    "esutil.sfile's module namespace (no change to the code under test), literal printers, coqc evaluating Exec.v verdict terms",
]


def run(ctx, replay=None):
    ctx.rule = ("corpus (witnesses of the two repaired defects) + adversarial families of the quantifier (END/SIZE/TREND, quotes, newlines, "
                "wrapping, printf directives, reserved and near-reserved keys, many rows (2^k, 2^k+-1 around C/stdio block sizes, up to 131073), "
                "call histories (object reuse, same path/size/names/record size, same argument objects, optional arguments), "
                "every base type x sub-array rank x byte order, every memory layout of the array: "
                "strided/reversed/offset/transposed/n-d/0-d/recarray) + seeded random tables/headers per entry point; each case is written and "
                "read back by the real esutil and evaluated in Coq (model file bytes = real file bytes, scanner, eval text, _make_header dict, "
                "rows; verified checker on the read-back).  non-trivial: >= 2 fields, >= 2 rows, >= 1 multi-byte field and a non-empty user "
                "header (header entries), or a named adversarial case; layout entry: a view that is not the whole contiguous base; malformed: "
                "an error or a size/extent mismatch.  distinct by canonical JSON.")
    ctx.trusted = TRUSTED
    _TMP[0] = os.path.join(ctx.work, "files")
    if core.proof_step(ctx, "C01", core.ALLOW_DISCRETE) and replay is None:
        source_tie(ctx)
        gen_tie(ctx)
        if not ctx.quick():
            coqchk_step(ctx)
    differential(ctx, PRE, ENTRIES, replay)
    # ---- contract monitor H_pf
    fails, texts, nmon = [], [], 0
    for e in ENTRIES:
        fails += getattr(e, "monitor_failures", [])
        texts += getattr(e, "texts", [])
        nmon += getattr(e, "nmonitored", 0)
    ctx.count("monitor:H_pf cases", nmon)
    ctx.obligation("contract monitor H_pf (b)(c): eval(' '.join(lines)) == header, numpy.dtype(_DTYPE) == dtype on %d headers" % nmon,
                   not [f for f in fails if not (f["monitor"]["b"] and f["monitor"]["c"])])
    texts = sorted(set(texts))
    if texts:
        try:
            vals = core.coq_eval(os.path.join(ctx.work, "mon"), PRE, ["v_text_ok %s" % cbytes(t.encode()) for t in texts], tag="mon")
            bad = [t for t, v in zip(texts, vals) if v.strip("() ").replace("%Z", "") != "0"]
        except core.CoqEvalError as e:
            bad = ["<coq evaluation failed: %s>" % str(e)[-300:]]
        ctx.obligation("contract monitor H_pf (a): hdr_text_ok = true on %d distinct pformat texts (evaluated in Coq)" % len(texts), not bad)
        for t in bad[:3]:
            fails.append({"entry": "monitor", "pformat_text": t, "monitor": {"a": False}})
    # ---- the Python layer of the model (Pyval.v / Uncond.v) against the real pformat / eval / numpy.dtype
    obs, skipped = {}, 0
    for e in ENTRIES:
        for text, h in getattr(e, "hpf", []):
            if "skipped" in h:
                skipped += 1
            elif h["dtype"] is not None:
                obs.setdefault((text, h["head"], h["uhdr"]), h)
    ctx.count("pylayer:headers", len(obs))
    ctx.count("pylayer:outside-subset", skipped)
    if obs:
        keys = sorted(obs)
        terms = ["v_hpf_real %s %s %s %s %s" % (cbytes(k[0].encode()), obs[k]["uhdr"], k[1], cbytes(bytes.fromhex(obs[k]["mirror"])),
                                                cdtype(obs[k]["dtype"])) for k in keys]
        try:
            vals = core.coq_eval(os.path.join(ctx.work, "pyl"), PRE, terms, tag="pyl")
            badk = [k for k, v in zip(keys, vals) if v.strip("() ").replace("%Z", "") != "0"]
        except core.CoqEvalError as e:
            badk = [("<coq evaluation failed: %s>" % str(e)[-300:], "")]
        bade = [k for k in keys if not obs[k]["eval_ok"]]
        ctx.obligation("Python layer (Pyval.v/Uncond.v): hpf_check accepts the REAL pformat text (clause (a); model _make_header = the real "
                       "header dict; the verified parser reads the real text back to an equal dict) and the model printer's text is the "
                       "mirror — on %d headers (evaluated in Coq; C01_hpf_check_sound: H_pf then holds for the real text)" % len(keys), not badk)
        ctx.obligation("Python layer (Pyval.v): the REAL eval of the model printer's text == header on %d headers" % len(keys), not bade)
        for k in (badk + bade)[:3]:
            ctx.violation("hpf_check rejects: the REAL pformat text / the header dict the REAL _make_header built do not match the model "
                          "(Model.make_header, C01/Pyval.v, Uncond.v) on a header of the modelled subset — a changed _make_header, or a "
                          "defect of the model's Python layer",
                          {"kind": "python-layer", "pformat_text": k[0], "head_term": k[1][:2000],
                           "no_longer_checks": "C01_roundtrip_unconditional speaks about the real pformat/eval on this header"}, found_input=False)
    for f in fails[:5]:
        ctx.violation("CONTRACT MONITOR H_pf failed (assumption of the model about pprint.pformat/eval/numpy.dtype, not a defect of "
                      "esutil): clauses %s" % sorted(k for k, v in f["monitor"].items() if not v),
                      dict(f, kind="contract-monitor", affected_theorems=["C01_roundtrip", "C01_scan_end_spec", "C01_sfile_data_region"]),
                      found_input=False)

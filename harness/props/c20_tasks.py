"""picklable task function for the pmap correspondence (C20)"""
import time


def task(a, b, lat, x):
    # per-item latency depends on the item so that completion order differs from submission order
    if lat:
        time.sleep(((x * 7919 + lat) % 5) * 0.002)
    return a * x * x + b


def task_exn(a, b, p, r, q, s, lat, x):
    # raises for some items: ValueError when x % p == r, KeyError when x % q == s (python's %: sign of the modulus)
    if lat:
        time.sleep(((x * 7919 + lat) % 5) * 0.002)
    if x % p == r:
        raise ValueError("item %d" % x)
    if x % q == s:
        raise KeyError(x)
    return a * x * x + b

"""picklable task function for the pmap correspondence (C20)"""
import time


def task(a, b, lat, x):
    # per-item latency depends on the item so that completion order differs from submission order
    if lat:
        time.sleep(((x * 7919 + lat) % 5) * 0.002)
    return a * x * x + b

"""C17 — Gauss-Legendre rules exact to degree 2n-1; the integrators use them (DESIGN.md section 7, C17).

Every float the implementation returns enters Coq ONCE, as a hexadecimal literal.  The bit-exact
PrimFloat model (C17/Model.v, module F) is compared with it bit for bit ("agree"); the property
checkers (C17/Spec.v, proved sound in CheckProofs.v) decide the statement on its exact dyadic value
("ok"): ordering, interiority, signs, symmetry, weight sum, agreement with an independently computed
rule, moment certificates |sum w x^k - int t^k| <= 5e-10 for all k < 2n, the statement's bound for
sampled polynomials, integrators = weighted sums, call-history independence."""
import math
import os
import re
import subprocess
import threading
import time
import json
from fractions import Fraction as Fr

from .. import core
from ..core import cz
from ..runner import Entry, corpus_cases

PRE = ("From Coq Require Import PrimFloat QArith.\nFrom EsVerif.Common Require Import Base.\n"
       "From EsVerif.C17 Require Import Model Dyadic Spec Exec.\nOpen Scope Z_scope.\n")

PI_C = 3.141592653589793


def hx(v):
    return float(v).hex()


def hxl(a):
    return [float(v).hex() for v in a]


def cf(h):
    return core.cfloat(float.fromhex(h) if isinstance(h, str) else float(h))


def cfl(hs):
    return "[" + "; ".join(cf(h) for h in hs) + "]"


def cres(out, f):
    return "(Ok %s)" % f(out[1]) if out[0] == "ok" else "(Err %s)" % out[1]


def copt(x):
    return "None" if x is None else "(Some %s)" % cz(x)


# ----------------------------------------------------------------------------------------------
# independent reference rules on [-1,1]
# ----------------------------------------------------------------------------------------------
_REF = {}
_MP = {}


def ref_rule(n):
    """numpy.polynomial.legendre.leggauss (companion-matrix eigenvalues + one Newton step):
    an algorithm independent of esutil's; the reference of the agreement check."""
    if n not in _REF:
        import numpy as np
        z, w = np.polynomial.legendre.leggauss(n)
        _REF[n] = (hxl(z), hxl(w))
    return _REF[n]


_MP_SCRIPT = r"""
import sys, json, mpmath as mp
mp.mp.dps = 40
out = {}
for n in json.loads(sys.argv[1]):
    zs, ws = [], []
    for i in range(1, n + 1):
        z = mp.cos(mp.pi * (i - mp.mpf(1) / 4) / (n + mp.mpf(1) / 2))
        for _ in range(60):
            p1, p2 = mp.mpf(1), mp.mpf(0)
            for j in range(1, n + 1):
                p1, p2 = ((2 * j - 1) * z * p1 - (j - 1) * p2) / j, p1
            pp = n * (z * p1 - p2) / (z * z - 1)
            dz = p1 / pp
            z -= dz
            if abs(dz) < mp.mpf(10) ** (-35):
                break
        p1, p2 = mp.mpf(1), mp.mpf(0)
        for j in range(1, n + 1):
            p1, p2 = ((2 * j - 1) * z * p1 - (j - 1) * p2) / j, p1
        pp = n * (z * p1 - p2) / (z * z - 1)
        zs.append(z); ws.append(2 / ((1 - z * z) * pp * pp))
    order = sorted(range(n), key=lambda i: zs[i])
    out[str(n)] = ([float(zs[i]).hex() for i in order], [float(ws[i]).hex() for i in order])
print(json.dumps(out))
"""


def mp_rules(ns):
    """40-digit Gauss-Legendre rules from mpmath (tooling interpreter), rounded to binary64:
    the derivative is evaluated AT the converged root.  Second, high-precision oracle."""
    ns = sorted(set(n for n in ns if n not in _MP))
    if ns:
        chunks = [ns[i::8] for i in range(8)]
        procs = [subprocess.Popen(["python3-vt", "-c", _MP_SCRIPT, json.dumps(c)], stdout=subprocess.PIPE, text=True)
                 for c in chunks if c]
        for p in procs:
            txt, _ = p.communicate(timeout=900)
            for k, v in json.loads(txt).items():
                _MP[int(k)] = (v[0], v[1])
    return _MP


def cos_pairs(n):
    """(argument, libm cos) for i = 1..m as the C code computes them: pi*(i-0.25)/(npts+.5)"""
    m = (n + 1) // 2
    out = []
    for i in range(1, m + 1):
        arg = PI_C * (i - 0.25) / (n + .5)
        out.append((arg, math.cos(arg)))
    return out


def ccos(n):
    if n <= 0:
        return "[]"
    return "[" + "; ".join("(%s, %s)" % (core.cfloat(a), core.cfloat(c)) for a, c in cos_pairs(n)) + "]"


def intervals(r, k):
    """finite intervals: negative, tiny and huge widths, a > b; midpoint within 1e4 widths so that
    the abscissae are representable to far better than the statement's 1e-9 (b-a)"""
    out = []
    for _ in range(k):
        kind = r.choice(["unit", "plain", "neg", "tiny", "huge", "rev", "offset"])
        if kind == "unit":
            a, b = -1.0, 1.0
        elif kind == "plain":
            a = r.uniform(-10, 10)
            b = a + r.uniform(0.1, 20)
        elif kind == "neg":
            b = -r.uniform(0.5, 100)
            a = b - r.uniform(0.1, 50)
        elif kind == "tiny":
            w = r.uniform(1, 9) * 10.0 ** r.randrange(-280, -6)
            a = r.choice([0.0, w * r.uniform(-3, 3), -w])
            b = a + w
        elif kind == "huge":
            w = r.uniform(1, 9) * 10.0 ** r.randrange(6, 280)
            a = r.choice([0.0, w * r.uniform(-3, 3), -w])
            b = a + w
        elif kind == "rev":
            a = r.uniform(-10, 10)
            b = a - r.uniform(0.1, 20)
        else:
            w = r.uniform(0.1, 5)
            a = r.uniform(-1e4, 1e4) * w
            b = a + w
        if a != b and math.isfinite(a) and math.isfinite(b):
            out.append((a, b, kind))
    return out


# ----------------------------------------------------------------------------------------------
# gauleg
# ----------------------------------------------------------------------------------------------
class Gauleg(Entry):
    """esutil.integrate.gauleg(x1, x2, npts)"""
    name = "gauleg"
    shard = 10
    shard_quick = 20
    mode = "light"       # light | moments | large
    use_mp = False

    def cases(self, ctx, round=0):
        r = ctx.rng
        cs = []
        q = ctx.quick()
        if self.mode == "light":
            if round == 0:
                nmax = 40 if q else 200
                for n in range(1, nmax + 1):
                    cs.append({"a": hx(-1.0), "b": hx(1.0), "n": n, "mom": 2 * n if (n <= 6 or n in (11, 12)) else 0, "family": "unit 1..%d" % nmax})
                for n in (0, -1, -7):
                    cs.append({"a": hx(-1.0), "b": hx(1.0), "n": n, "mom": 0, "family": "rejected npts<=0"})
                for n in ([1, 2, 3, 5, 8, 21, 40] if q else [1, 2, 5, 16, 31, 127, 200]):
                    for a, b, kind in [(0.0, 1.0, "plain"), (3.5, -2.25, "rev"), (-7.0, -3.0, "neg"), (1e-5, 3e-5, "tiny"),
                                       (2e-250, 7e-250, "tiny"), (-4e200, 9e200, "huge"), (1e12, -1e12, "rev")]:
                        cs.append({"a": hx(a), "b": hx(b), "n": n, "mom": 0, "family": "interval:" + kind})
            if round == 0:
                # SYSTEMATIC widths: |b-a| = 2*10^-k .. (half width below 1: where a tolerance "in the units of the
                # interval" would differ), and huge ones; at the origin, offset by a few widths, reversed.  Every bound
                # of rule_check (nodes, weights, weight sum, symmetry, reference rule) is RELATIVE to |b-a|.
                ks = [0, 1, 2, 3, 4, 6, 8, 10, 12, 16, 30, 100, 300] if q else list(range(0, 17)) + [20, 30, 60, 100, 200, 300]
                for k in ks:
                    w = 2.0 * 10.0 ** (-k)
                    for n, (a, b) in zip((2, 5, 16, 3, 9), ((0.0, w), (-w / 2, w / 2), (3 * w, 4 * w), (w, 0.0), (-7 * w, -6 * w))):
                        if q and (k + n) % 2:
                            continue
                        cs.append({"a": hx(a), "b": hx(b), "n": n, "mom": 0, "family": "width:2e-%d" % k})
                for k in ([1, 3, 6, 12, 100, 300] if q else [1, 2, 3, 4, 6, 9, 12, 15, 30, 100, 200, 300]):
                    w = 2.0 * 10.0 ** k
                    for n, (a, b) in zip((2, 7, 20), ((0.0, w), (-w / 2, w / 2), (w, -w))):
                        cs.append({"a": hx(a), "b": hx(b), "n": n, "mom": 0, "family": "width:2e+%d" % k})
                # signed zeros as end points
                for a, b in ((-0.0, 1.0), (-1.0, -0.0), (0.0, -1.0), (-0.0, 1e-300)):
                    cs.append({"a": hx(a), "b": hx(b), "n": 4, "mom": 0, "family": "width:signed zero"})
            if round == 0:   # how x1, x2, npts are passed: python int / numpy scalars / 0-d arrays / bool
                for af in ("pyint", "np64", "np32", "zerod", "bool"):
                    for n in ((1,) if af == "bool" else (1, 4, 9)):
                        cs.append({"a": hx(-3.0), "b": hx(5.0), "n": n, "mom": 0, "argform": af, "family": "argform:" + af})
            for a, b, kind in intervals(r, ctx.n(40, 50) if round == 0 else 40):
                n = r.choice([r.randrange(1, 12), r.randrange(1, 61), r.randrange(1, 61 if q else 201)])
                cs.append({"a": hx(a), "b": hx(b), "n": n, "mom": 0, "family": "interval:" + kind})
        elif self.mode == "moments":
            if round == 0:
                nmax = 30 if q else 64
                ns = list(range(nmax, 12, -1))
                if q:   # quick: every other n (all n <= 12 are certified by the light entry; thorough: all);
                    #       paired large/small so that the shards of 2 are balanced
                    ns = [n for n in ns if n in (13, 14, 16, 18, 20, 22, 24, 26, 28, 29, 30)]   # n <= 10: theorem C17_small_rules_exact; 11, 12: light entry
                    k = (len(ns) + 1) // 2
                    ns = [ns[i + j * k] for i in range(k) for j in range(2) if i + j * k < len(ns)]
                else:   # thorough: all n <= 32, then samples up to 64 (128 moments)
                    ns = [n for n in ns if n <= 32 or n in (40, 48)]   # n <= 12: theorem C17_small_rules_exact too
                for n in ns:
                    cs.append({"a": hx(-1.0), "b": hx(1.0), "n": n, "mom": 2 * n, "family": "moments 13..%d" % nmax})
        else:
            if round == 0 and q:
                # quick too: rules far beyond the n where per-root effects could hide (weight sum and reference rule
                # to 1e-9 (b-a); bit-exact model)
                for n in (500, 1000):
                    cs.append({"a": hx(-1.0), "b": hx(1.0), "n": n, "mom": 0, "family": "samples to 2000"})
            if round == 0 and not q:
                for n in (2000, 777, 333):
                    cs.append({"a": hx(-1.0), "b": hx(1.0), "n": n, "mom": 0, "family": "samples to 2000"})
                cs.append({"a": hx(-3.0), "b": hx(11.5), "n": 1000, "mom": 0, "family": "samples to 2000"})
        return _with_decoys(cs)

    def impl(self, c):
        from esutil.integrate import gauleg

        def f():
            import numpy as np
            a, b, n = float.fromhex(c["a"]), float.fromhex(c["b"]), c["n"]
            af = c.get("argform", "py")
            if af == "pyint":
                a, b = int(a), int(b)
            elif af == "np64":
                a, b, n = np.float64(a), np.int64(b), np.int64(n)
            elif af == "np32":
                a, b, n = np.float32(a), np.int32(b), np.int32(n)
            elif af == "zerod":
                a, b, n = np.array(a), np.array(b), np.array(n)
            elif af == "bool":
                n = True
            _clobber(c.get("clobber"), [c["n"]], interval=(float.fromhex(c["a"]), float.fromhex(c["b"])))
            if c.get("decoy") and c["n"] >= 1:
                # same count on another interval, same interval with another count, just before
                gauleg(float.fromhex(c["a"]) + 1.0, float.fromhex(c["b"]) * 2.0 + 3.0, c["n"])
                gauleg(float.fromhex(c["a"]), float.fromhex(c["b"]), c["n"] + 1)
            x, w = gauleg(a, b, n)
            if x.dtype != np.dtype("f8") or w.dtype != np.dtype("f8") or x.ndim != 1 or w.ndim != 1:
                raise RuntimeError("gauleg returned %s/%s arrays" % (x.dtype, w.dtype))
            return [hxl(x), hxl(w)]
        return core.guarded(f)

    def _ref(self, n):
        if self.use_mp and n in _MP:
            return _MP[n]
        return ref_rule(n)

    def term(self, c, out):
        n = c["n"]
        rz, rw = self._ref(n) if n >= 1 else ([], [])
        o = cres(out, lambda v: "(%s, %s)" % (cfl(v[0]), cfl(v[1])))
        return "v_gauleg %s %s %s %s %s %s %s %s" % (cf(c["a"]), cf(c["b"]), cz(n), ccos(n), o, cfl(rz), cfl(rw), cz(c["mom"]))

    def nontrivial(self, c, out):
        return c["n"] >= 2

    def show(self, c):
        if c["n"] > 40:
            return None
        return "F.gauleg %s %s %s (map snd %s)" % (cf(c["a"]), cf(c["b"]), cz(c["n"]), ccos(c["n"]))


class GaulegMoments(Gauleg):
    name = "gauleg_moments"
    shard = 1
    shard_quick = 2
    mode = "moments"


class GaulegLarge(Gauleg):
    name = "gauleg_large"
    shard = 1
    mode = "large"


class GaulegMP(Gauleg):
    """agreement with the 40-digit mpmath rule (thorough tier)"""
    name = "gauleg_mpmath"
    shard = 10
    mode = "mp"
    use_mp = True

    def cases(self, ctx, round=0):
        if round != 0 or ctx.quick():
            return []
        ns = list(range(1, 27)) + [64, 100, 128, 200]
        mp_rules(ns)
        r = ctx.rng
        cs = []
        for n in ns:
            a, b = (-1.0, 1.0) if n % 3 else (r.uniform(-5, 5), r.uniform(6, 9))
            cs.append({"a": hx(a), "b": hx(b), "n": n, "mom": 0, "family": "mpmath reference"})
        return cs


# ----------------------------------------------------------------------------------------------
# polynomials: the statement's bound  |Q p - int p| <= 1e-9 (b-a) max|p|
# ----------------------------------------------------------------------------------------------
def lcm_upto(k):
    m = 1
    for i in range(1, k + 1):
        m = m * i // math.gcd(m, i)
    return m


def horner(cs, x):
    acc = 0.0
    for c in reversed(cs):
        acc = acc * x + c
    return acc


class Poly(Entry):
    """exactness of the rule gauleg(a,b,n) on random polynomials of degree <= 2n-1, n <= 30"""
    name = "poly"
    shard = 6
    shard_quick = 7

    def cases(self, ctx, round=0):
        r = ctx.rng
        cs = []
        ns = list(range(1, 31)) if round == 0 else [r.randrange(1, 31) for _ in range(10)]
        if round == 0 and ctx.quick():
            ns = [n for n in ns if n <= 8 or n % 3 == 0 or n in (20, 29)]
        per = 2
        for n in ns:
            for j in range(per):
                deg = 2 * n - 1 if j % 2 == 0 else r.randrange(0, 2 * n)
                a, b, kind = intervals(r, 1)[0] if j else (-1.0, 1.0, "unit")
                if kind in ("tiny", "huge"):
                    # keep the magnitudes of a, b moderate in exponent so that x^k stays finite in the
                    # float evaluation used to locate max|p|
                    s = 10.0 ** r.randrange(-4, 5)
                    a, b = r.uniform(-2, 2) * s, r.uniform(-2, 2) * s
                    if a == b:
                        b = a + s
                style = r.choice(["uniform", "decaying", "sparse", "legendre-like"])
                if style == "uniform":
                    co = [r.uniform(-1, 1) for _ in range(deg + 1)]
                elif style == "decaying":
                    co = [r.uniform(-1, 1) * 2.0 ** (-k) for k in range(deg + 1)]
                elif style == "sparse":
                    co = [r.uniform(-1, 1) if r.random() < 0.3 or k == deg else 0.0 for k in range(deg + 1)]
                else:
                    co = [r.uniform(-1, 1) * 10.0 ** r.randrange(-3, 4) for _ in range(deg + 1)]
                if co[-1] == 0.0:
                    co[-1] = 1.0
                cs.append({"a": hx(a), "b": hx(b), "n": n, "p": hxl(co), "family": "n<=30 deg<=2n-1 " + style})
        if round == 0:
            # narrow / wide intervals: the polynomial is given in the variable x itself, low degree so that x^k stays
            # finite; the bound 1e-9 (b-a) max|p| is relative to the width
            for k in ([2, 6, 12] if ctx.quick() else [1, 2, 4, 6, 8, 10, 12, 14]):
                for n in (2, 6):
                    w = 10.0 ** (-k)
                    a = r.choice([0.0, 1.0, -2.5])
                    co = [r.uniform(-1, 1) for _ in range(min(2 * n, 4))]
                    cs.append({"a": hx(a), "b": hx(a + w), "n": n, "p": hxl(co), "family": "narrow 1e-%d" % k})
            for k in ([3, 6] if ctx.quick() else [2, 3, 4, 6, 8]):
                for n in (2, 5):
                    w = 10.0 ** k
                    co = [r.uniform(-1, 1) * w ** (-j) for j in range(min(2 * n, 4))]
                    cs.append({"a": hx(-w / 3), "b": hx(2 * w / 3), "n": n, "p": hxl(co), "family": "wide 1e+%d" % k})
        return cs

    def impl(self, c):
        from esutil.integrate import gauleg

        def f():
            x, w = gauleg(float.fromhex(c["a"]), float.fromhex(c["b"]), c["n"])
            return [hxl(x), hxl(w)]
        return core.guarded(f)

    @staticmethod
    def tstar(c):
        a, b = float.fromhex(c["a"]), float.fromhex(c["b"])
        co = [float.fromhex(h) for h in c["p"]]
        best, bt = -1.0, a
        N = 2000
        for i in range(N + 1):
            t = a + (b - a) * (i / N)
            if not (min(a, b) <= t <= max(a, b)):
                continue
            v = abs(horner(co, t))
            if math.isfinite(v) and v > best:
                best, bt = v, t
        return bt

    def term(self, c, out):
        if out[0] != "ok":
            return "2"
        t = self.tstar(c)
        return "v_poly %s %s %s %s %s %s %s" % (cf(c["a"]), cf(c["b"]), cfl(out[1][0]), cfl(out[1][1]), cfl(c["p"]),
                                                core.cfloat(t), cz(lcm_upto(len(c["p"]))))

    def nontrivial(self, c, out):
        return c["n"] >= 2 and len(c["p"]) >= 3


# ----------------------------------------------------------------------------------------------
# integrators
# ----------------------------------------------------------------------------------------------
def _funcs():
    import numpy as np
    return {
        "sin": np.sin,
        "cos3": lambda x: np.cos(3.0 * x),
        "runge": lambda x: 1.0 / (1.0 + 25.0 * x * x),
        "gauss": lambda x: np.exp(-0.5 * x * x),
        "tanh": np.tanh,
        "poly5": lambda x: ((((0.3 * x - 1.0) * x + 0.25) * x + 2.0) * x - 0.5) * x + 1.0,
        "abs": np.abs,
        "const": lambda x: np.full(np.shape(x), 2.5),
        "atan": np.arctan,
    }


def _funcs2():
    import numpy as np
    return {
        "sincos": lambda x, y: np.sin(x) * np.cos(y),
        "gauss2": lambda x, y: np.exp(-0.5 * (x * x + y * y)),
        "x2y3": lambda x, y: x * x * y * y * y,
        "ratio": lambda x, y: 1.0 / (1.0 + x * x + y * y),
        "xonly": lambda x, y: np.tanh(x) + 0.0 * y,
    }


def mild_intervals(r, k):
    out = []
    for _ in range(k):
        kind = r.choice(["unit", "plain", "neg", "tiny", "rev", "wide"])
        if kind == "unit":
            a, b = -1.0, 1.0
        elif kind == "plain":
            a = r.uniform(-5, 5)
            b = a + r.uniform(0.1, 8)
        elif kind == "neg":
            b = -r.uniform(0.5, 20)
            a = b - r.uniform(0.1, 10)
        elif kind == "tiny":
            w = 10.0 ** r.randrange(-9, -2)
            a = r.uniform(-2, 2)
            b = a + w
        elif kind == "rev":
            a = r.uniform(-5, 5)
            b = a - r.uniform(0.1, 8)
        else:
            a = -r.uniform(10, 300)
            b = r.uniform(10, 300)
        out.append((a, b, kind))
    return out


def _with_decoys(cs):
    """sequence dimension for the stateless-looking entry points: every second case is preceded, in the same
    process, by a DECOY call that shares everything a lazily keyed cache could use as its key (same point count,
    same lengths, same end points / same range values, same object shapes) but has different contents; the real
    call is then judged as usual by the Coq model and the verified checker."""
    for i, c in enumerate(cs):
        c.setdefault("decoy", i % 2 == 1)
        # every third case: the harness, playing an earlier caller, first obtains the arrays the library RETURNS or
        # exposes for the same point counts and overwrites them in place (see _clobber)
        c.setdefault("clobber", ("scale", "zero", "reverse")[(i // 3) % 3] if i % 3 == 0 else None)
    return cs


def _rule(n):
    """the rule on [-1,1] the library computes, as private COPIES taken before anything else happens in the case,
    and sanity-checked against numpy's leggauss (a rule that is not the Gauss-Legendre rule to the statement's
    1e-9 (b-a) -- e.g. because an earlier caller's arrays were handed out again -- is reported, not used)"""
    import numpy as np
    import esutil.integrate as ig
    z, w = ig.gauleg(-1.0, 1.0, n)
    z, w = np.array(z, dtype="f8", copy=True), np.array(w, dtype="f8", copy=True)
    if n >= 1 and np.all(np.isfinite(w)):
        rz, rw = np.polynomial.legendre.leggauss(n)
        if z.shape != rz.shape or np.max(np.abs(z - rz)) > 2e-9 or np.max(np.abs(w - rw)) > 2e-9:
            raise RuntimeError("gauleg(-1, 1, %d) does not return the Gauss-Legendre rule (max node diff %.3g)" % (
                n, float(np.max(np.abs(z - rz))) if z.shape == rz.shape else float("nan")))
    return z, w


def _clobber(mode, ns, interval=None, shape2=None):
    """Ownership / aliasing: arrays handed out by the library belong to the caller.  For each point count in [ns]
    obtain gauleg(-1,1,n) (and gauleg on [interval]), the rule held by a QGauss(n) object and, for [shape2], the
    grids of a QGauss2 object; overwrite all of them IN PLACE (the ordinary idiom `x *= .5; x += .5; w *= .5`, or
    zeros, or reversed order) and drop them.  Two successive results must not share memory either.  The real call
    that follows is judged as a single call by the model and the checker."""
    import numpy as np
    import esutil.integrate as ig
    if not mode:
        return

    def spoil(*arrs):
        for a in arrs:
            if mode == "scale":
                a *= 0.5
                a += 0.5
            elif mode == "zero":
                a[...] = 0.0
            else:
                a[...] = a[..., ::-1].copy() * 3.0
    for n in ns:
        if n is None or n < 1:
            continue
        x, w = ig.gauleg(-1.0, 1.0, n)
        x2, w2 = ig.gauleg(-1.0, 1.0, n)
        if any(np.shares_memory(p, q_) for p in (x, w) for q_ in (x2, w2)) or np.shares_memory(x, w):
            raise RuntimeError("two gauleg results share memory")
        spoil(x, w)
        if interval is not None:
            spoil(*ig.gauleg(interval[0], interval[1], n))
        q1, q2 = ig.QGauss(n), ig.QGauss(n)
        if np.shares_memory(q1.xxi, q2.xxi) or np.shares_memory(q1.wii, q2.wii):
            raise RuntimeError("two QGauss objects share their rule arrays")
        spoil(q1.xxi, q1.wii)
    if shape2 is not None:
        g1, g2 = ig.QGauss2(*shape2), ig.QGauss2(*shape2)
        if any(np.shares_memory(getattr(g1, k), getattr(g2, k)) for k in ("xgrid", "ygrid", "wgrid")):
            raise RuntimeError("two QGauss2 objects share their grids")
        spoil(g1.xgrid, g1.ygrid, g1.wgrid)


# ---- input forms (follow-up round): how a range / a callable / a table is handed to the code ------------
FFORMS = {  # python kind of the integrand -> ykind of C17/Model.v
    "def": "YFunction", "lambda": "YLambda", "method": "YMethod", "partial": "YPartial",
    "callable_obj": "YCallableObject", "vectorize": "YVectorize", "ufunc": "YUfunc", "builtin": "YBuiltin"}
UFUNCS = {"sin": "sin", "tanh": "tanh", "abs": "absolute", "atan": "arctan"}     # fn name -> numpy ufunc
ARITH_FNS = ("poly5", "runge")        # identical bits for python-float and array evaluation (vectorize)
XFORMS = ("list", "tuple", "f8", "npscalars", "zerod", "intlist", "i8", "i4", "u1", "u8", "f4")
_INT_RANGE = {"intlist": (-50, 50), "i8": (-10 ** 6, 10 ** 6), "i4": (-2 ** 31, 2 ** 31 - 1), "u1": (0, 255), "u8": (0, 2 ** 40)}


def range_values(r, xform):
    """two distinct endpoints exactly representable in the form's dtype (returned as python floats);
    integer forms sit near the top of their range (x2 + x1 overflows in the dtype) and are reversed
    half of the time (x2 - x1 wraps for unsigned types)"""
    import numpy as np
    if xform in _INT_RANGE:
        lo, hi = _INT_RANGE[xform]
        if xform in ("i4", "u1"):
            a = r.randrange(hi - (hi - lo) // 3, hi)
            b = r.randrange(hi - (hi - lo) // 3, hi + 1)
        else:
            a, b = r.randrange(lo, hi), r.randrange(lo, hi + 1)
        if a == b:
            b = a - 1 if a > lo else a + 1
        return float(a), float(b)
    if xform == "f4":
        a = float(np.float32(r.uniform(-5, 5)))
        b = float(np.float32(a + r.choice([-1, 1]) * r.uniform(0.1, 8)))
        return a, b
    return None


def make_range(x1, x2, xform):
    import numpy as np
    if xform == "list":
        return [x1, x2]
    if xform == "tuple":
        return (x1, x2)
    if xform == "f8":
        return np.array([x1, x2])
    if xform == "npscalars":
        return [np.float64(x1), np.float64(x2)]
    if xform == "zerod":
        return [np.array(x1), np.array(x2)]
    if xform == "intlist":
        return [int(x1), int(x2)]
    arr = np.array([int(x1), int(x2)] if xform != "f4" else [x1, x2], dtype=xform)
    if [float(v) for v in arr] != [x1, x2]:
        raise RuntimeError("harness: range %r not representable as %s" % ((x1, x2), xform))
    return arr


def _no_underflow(cs):
    """exp(-x^2/2) integrands on ranges reaching |x| > 30 return zeros and SUBNORMAL values only: products and
    sums of subnormals carry no relative accuracy, so a bound relative to max|f| (the checkers' reading of
    the statement) is not meaningful there.  Such cases get a polynomially decaying integrand instead."""
    for c in cs:
        big = max(abs(float.fromhex(c[k])) for k in ("x1", "x2", "y1", "y2") if k in c) > 30.0
        if big and c.get("fn") == "gauss":
            c["fn"] = "runge"
        if big and c.get("fn") == "gauss2":
            c["fn"] = "ratio"
    return cs


class Func(Entry):
    """QGauss(npts).integrate([x1,x2], func), integrate(..., npts=), integrate_func, qgauss; the integrand as
    def / lambda / bound method / functools.partial / object with __call__ / numpy.vectorize / numpy ufunc /
    builtin; the range as list / tuple / arrays of several dtypes / numpy scalars / 0-d arrays"""
    name = "integrate_func"
    shard = 10
    shard_quick = 14

    def cases(self, ctx, round=0):
        r = ctx.rng
        cs = []
        names = sorted(_funcs())
        q = ctx.quick()
        for a, b, kind in mild_intervals(r, ctx.n(45, 60) if round == 0 else 40):
            n = r.choice([r.randrange(1, 10), r.randrange(1, 41), r.randrange(1, 61 if q else 201),
                          r.choice([7, 8, 9, 127, 128, 129, 130, 136, 137] if not q else [7, 8, 9, 15, 16, 17, 128, 129])])
            cs.append({"x1": hx(a), "x2": hx(b), "n": n, "fn": r.choice(names),
                       "via": r.choice(["integrate", "integrate_npts", "integrate_func", "qgauss"]),
                       "family": "func:" + kind})
        if round == 0:
            # special points: equal bounds (zero width: the result is exactly 0), signed zeros, one bound exactly 0;
            # huge widths with bounded integrands
            sp = [(0.0, 0.0), (2.5, 2.5), (-0.0, 0.0), (0.0, 3.0), (-3.0, 0.0), (-0.0, 3.0), (3.0, -0.0), (0.0, -0.0),
                  (-1e6, 1e6), (0.0, 1e9), (1e12, -1e12), (-3e15, 1e15)]
            for i, (a, b) in enumerate(sp):
                cs.append({"x1": hx(a), "x2": hx(b), "n": (1, 2, 5, 8)[i % 4], "fn": ("tanh", "atan", "runge", "const", "abs")[i % 5],
                           "via": ("integrate", "integrate_npts", "integrate_func", "qgauss")[i % 4], "family": "func:special"})
        # forms of the integrand (dispatch of QGauss.integrate) and of the range
        forms = []
        if round == 0:
            forms += [(ff, "list") for ff in sorted(FFORMS)] + [("def", xf) for xf in XFORMS]
        for _ in range(ctx.n(14, 50) if round == 0 else 10):
            forms.append((r.choice(sorted(FFORMS)), r.choice(XFORMS)))
        for fform, xform in forms:
            if fform == "ufunc":
                fn = r.choice(sorted(UFUNCS))
            elif fform == "builtin":
                fn = "abs"
            elif fform == "vectorize":
                fn = r.choice(ARITH_FNS)
            else:
                fn = r.choice(names)
            rv = range_values(r, xform)
            if rv is None:
                a, b, _k = mild_intervals(r, 1)[0]
            else:
                a, b = rv
            via = r.choice(["integrate", "integrate_npts", "qgauss", "integrate_pos"]) if fform != "def" else \
                r.choice(["integrate", "integrate_npts", "integrate_func", "qgauss", "integrate_pos"])
            cs.append({"x1": hx(a), "x2": hx(b), "n": r.choice([1, 2, 3, 5, 8, 13, 20]), "fn": fn, "via": via,
                       "fform": fform, "xform": xform, "family": "form:%s/%s" % (fform, xform)})
        return _with_decoys(_no_underflow(cs))

    def impl(self, c):
        import functools
        import numpy as np
        import esutil.integrate as ig
        f0 = _funcs()[c["fn"]]
        fform, xform = c.get("fform", "def"), c.get("xform", "list")
        rec = {}

        def func(xi):
            rec["xi"] = np.array(xi, dtype="f8", copy=True)
            y = np.array(f0(xi), dtype="f8")
            rec["ys"] = y.copy()
            rec["y_obj"], rec["xi_obj"] = y, xi       # what the integrand returned / was given: must stay untouched
            return y

        def func_kw(xi, scale=None):
            return func(xi)

        class Holder(object):
            def meth(self, xi):
                return func(xi)

            def __call__(self, xi):
                return func(xi)

        observed = True
        if fform == "def":
            f = func
        elif fform == "lambda":
            f = lambda xi: func(xi)   # noqa: E731
        elif fform == "method":
            f = Holder().meth
        elif fform == "partial":
            f = functools.partial(func_kw, scale=1.0)
        elif fform == "callable_obj":
            f = Holder()
        else:                       # objects that cannot record their argument: twin run with a recorder
            observed = False
            if fform == "ufunc":
                f = getattr(np, UFUNCS[c["fn"]])
            elif fform == "builtin":
                f = abs
            else:
                f = np.vectorize(lambda t: float(f0(t)))

        def call(fun, rng, n):
            if c["via"] == "integrate":
                return ig.QGauss(n).integrate(rng, fun)
            if c["via"] == "integrate_npts":
                return ig.QGauss().integrate(rng, fun, npts=n)
            if c["via"] == "integrate_pos":
                return ig.QGauss(None).integrate(rng, fun, n)
            if c["via"] == "integrate_func":
                return ig.QGauss(n).integrate_func(rng, fun)
            return ig.qgauss(rng, fun, n)

        def run():
            x1, x2, n = float.fromhex(c["x1"]), float.fromhex(c["x2"]), c["n"]
            zs, ws = _rule(n)
            _clobber(c.get("clobber"), [n])
            if c.get("decoy"):
                # same range values and count with another integrand; same integrand object with another range
                call(lambda xi: np.cos(xi) + 2.0, make_range(x1, x2, xform), n)
                ig.QGauss(n).integrate_func([x1 - 1.0, x2 + 2.0], lambda xi: np.array(f0(xi), dtype="f8"))
            rng_obj = make_range(x1, x2, xform)
            rng_before = repr(rng_obj)
            res = call(f, rng_obj, n)
            if repr(rng_obj) != rng_before:
                raise RuntimeError("the integrator modified the range it was given")
            if observed and (not np.array_equal(rec["y_obj"], rec["ys"], equal_nan=True)
                             or not np.array_equal(np.asarray(rec["xi_obj"], dtype="f8"), rec["xi"], equal_nan=True)):
                raise RuntimeError("the integrator modified the array the integrand returned (or was given)")
            if not observed:
                # what the callable was given cannot be recorded: record it on a twin run with a plain
                # function of the same mathematics and the plain range (the model then has to reproduce
                # the result of the ORIGINAL call from these abscissae and values)
                ig.QGauss(n).integrate_func([x1, x2], func)
            return {"zs": hxl(zs), "ws": hxl(ws), "xi": hxl(rec["xi"]), "ys": hxl(rec["ys"]), "res": hx(res)}
        return core.guarded(run)

    def term(self, c, out):
        k = FFORMS[c.get("fform", "def")]
        if out[0] != "ok":
            return "v_func_k %s %s %s [] [] [] [] (Err %s)" % (k, cf(c["x1"]), cf(c["x2"]), out[1])
        o = out[1]
        return "v_func_k %s %s %s %s %s %s %s (Ok %s)" % (k, cf(c["x1"]), cf(c["x2"]), cfl(o["zs"]), cfl(o["ws"]),
                                                          cfl(o["xi"]), cfl(o["ys"]), cf(o["res"]))

    def nontrivial(self, c, out):
        return c["n"] >= 2 and c["fn"] != "const"

    def classify(self, c, out, v):
        if v >= 2 and c.get("fform", "def") not in ("def", "lambda", "method") and c["via"] != "integrate_func":
            return "C17.kf_callable_not_function"
        if v >= 2 and c.get("xform", "list") in ("i8", "i4", "u1", "u8", "f4", "intlist"):
            return "C17.kf_input_dtype_arithmetic"
        return None


class Data(Entry):
    """QGauss(npts).integrate(xvals, yvals) on tabulated data (linear interpolation), qgauss"""
    name = "integrate_data"
    shard = 8
    shard_quick = 8

    def cases(self, ctx, round=0):
        r = ctx.rng
        cs = []
        for _ in range(ctx.n(24, 45) if round == 0 else 30):
            npt = r.choice([2, 3, r.randrange(2, 12), r.randrange(2, 60)])
            spacing = r.choice(["even", "uneven", "clustered", "negative"])
            x0 = r.uniform(-10, 10)
            if spacing == "even":
                h = r.uniform(0.01, 2)
                xs = [x0 + h * i for i in range(npt)]
            elif spacing == "uneven":
                xs = [x0]
                for _i in range(npt - 1):
                    xs.append(xs[-1] + r.uniform(0.01, 3))
            elif spacing == "clustered":
                xs = [x0]
                for _i in range(npt - 1):
                    xs.append(xs[-1] + r.choice([1e-6, 1e-3, 0.5, 4.0]) * r.uniform(0.5, 1.5))
            else:
                xs = sorted(-r.uniform(0, 50) for _i in range(npt))
            xs = sorted(set(xs))
            if len(xs) < 2:
                continue
            yk = r.choice(["random", "smooth", "line", "steps"])
            if yk == "random":
                ys = [r.uniform(-5, 5) for _ in xs]
            elif yk == "smooth":
                ys = [math.sin(0.7 * x) + 0.1 * x for x in xs]
            elif yk == "line":
                m_, q_ = r.uniform(-3, 3), r.uniform(-3, 3)
                ys = [m_ * x + q_ for x in xs]
            else:
                ys = [float(r.randrange(-2, 3)) for _ in xs]
            n = r.choice([r.randrange(1, 8), r.randrange(1, 41)])
            cs.append({"xv": hxl(xs), "yv": hxl(ys), "n": n, "via": r.choice(["integrate", "integrate_data", "qgauss"]),
                       "family": "data:%s/%s" % (spacing, yk)})
        # tables in other units: very unevenly spaced abscissae scaled by 10^k (spacings far below / above any
        # absolute tolerance a shortcut for "evenly spaced" data might use), and evenly spaced ones with a
        # relative jitter of 1e-7..1e-3 of the spacing
        for _ in range(ctx.n(10, 30) if round == 0 else 6):
            npt = r.choice([3, 4, 6, 11, 30])
            scale = r.choice([1e-12, 1e-10, 1e-9, 1e-9, 1e-8, 1e-7, 1e-5, 1e5, 1e9, 1e12])
            if r.random() < 0.6:
                xs = [r.uniform(-2, 2)]
                for _i in range(npt - 1):
                    xs.append(xs[-1] + r.choice([0.05, 0.3, 1.0, 4.0]) * r.uniform(0.5, 1.5))
                fam = "data:scaled-uneven"
            else:
                jit = 10.0 ** r.randrange(-7, -2)
                xs = [1.0 + 0.25 * i * (1.0 + jit * r.uniform(-1, 1)) for i in range(npt)]
                fam = "data:scaled-jittered"
            xs = sorted(set(x * scale for x in xs))
            if len(xs) < 3:
                continue
            ys = [r.uniform(-5, 5) for _x in xs]
            cs.append({"xv": hxl(xs), "yv": hxl(ys), "n": r.choice([2, 3, 5, 8, 13, 21]),
                       "via": r.choice(["integrate", "integrate_data", "qgauss"]), "family": fam})
        # tables far from the origin (Julian days, unix times, negative offsets): the interval is tiny relative to
        # its distance from 0, so any formulation that forms slope*x or an intercept cancels catastrophically; the
        # ordinates are rough (no smoothness helps).  Judged at the abscissae the code used, exact rational chord.
        offs = [(2.4e6, 1e-5), (1.7e9, 1e-3), (-1e6, 1e-5), (2451545.0, 1e-3), (1.0e12, 0.5), (-3.0e4, 1e-7)]
        for i in range(ctx.n(8, 30) if round == 0 else 4):
            x0, h = offs[i % len(offs)]
            npt = r.choice([2, 3, 6, 11, 24])
            xs = [x0]
            for _i in range(npt - 1):
                xs.append(xs[-1] + h * r.choice([1.0, 1.0, 2.0, 0.5, 7.0]) * r.uniform(0.8, 1.2))
            xs = sorted(set(xs))
            if len(xs) < 2:
                continue
            yk = r.choice(["random", "random", "steps", "line"])
            if yk == "random":
                ys = [r.uniform(-5, 5) for _x in xs]
            elif yk == "steps":
                ys = [float(r.randrange(-2, 3)) for _x in xs]
            else:
                ys = [1.0 + 0.37 * k for k in range(len(xs))]
            cs.append({"xv": hxl(xs), "yv": hxl(ys), "n": r.choice([1, 2, 3, 5, 8, 13, 21]),
                       "via": r.choice(["integrate", "integrate_data", "qgauss"]), "family": "data:offset %g/%g" % (x0, h)})
        cs += self.form_cases(ctx, round)
        return _with_decoys(cs)

    XDT = ("f8", "f4", "i8", "i4", "i2", "u1", "u2", ">f8", ">i4", "list", "tuple")
    YDT = ("f8", "f4", "i8", "i4", "u1", "u2", ">f8", "list", "tuple")
    LAYOUTS = ("contig", "strided", "negstride", "readonly", "column")
    _TOP = {"i8": 10 ** 6, "i4": 2 ** 31 - 1, ">i4": 2 ** 31 - 1, "i2": 2 ** 15 - 1, "u1": 255, "u2": 2 ** 16 - 1}

    def form_cases(self, ctx, round):
        """tables as integer / float32 / big-endian arrays, lists and tuples; strided, negative-stride, read-only
        and column views; long tables (2^k + 1 points).  The values are exactly representable in the dtype
        (an integer or float32 table denotes exact reals); integer abscissae sit near the top of their
        type's range (x2 + x1 overflows in the dtype) and integer ordinates decrease (differences wrap)."""
        import numpy as np
        r = ctx.rng
        cs = []
        combos = []
        if round == 0:
            combos += [(xd, "f8", "contig") for xd in self.XDT] + [("f8", yd, "contig") for yd in self.YDT]
            combos += [("f8", "f8", lay) for lay in self.LAYOUTS] + [("u1", "u1", "strided"), ("i2", "u2", "negstride"), ("f4", "f4", "readonly")]
        for _ in range(ctx.n(5, 40) if round == 0 else 8):
            combos.append((r.choice(self.XDT), r.choice(self.YDT), r.choice(self.LAYOUTS)))
        for xd, yd, lay in combos:
            npt = r.choice([2, 3, 5, 9, 17])
            if xd in self._TOP:
                top = self._TOP[xd]
                span = min(top, 200) if xd == "u1" else min(top // 2, 30000)
                xs = sorted(set(top - r.randrange(0, span) for _i in range(npt)))
            elif xd == "f4":
                xs = sorted(set(float(np.float32(r.uniform(-20, 20))) for _i in range(npt)))
            else:
                xs = sorted(set(r.uniform(-20, 20) for _i in range(npt)))
            if len(xs) < 2:
                continue
            if yd in ("i8", "i4", "u1", "u2"):
                ytop = {"i8": 10 ** 9, "i4": 2 ** 31 - 1, "u1": 255, "u2": 65535}[yd]
                ys = sorted((r.randrange(0, ytop + 1) for _i in xs), reverse=r.random() < 0.7)
            elif yd == "f4":
                ys = [float(np.float32(r.uniform(-5, 5))) for _i in xs]
            else:
                ys = [r.uniform(-5, 5) for _i in xs]
            cs.append({"xv": hxl(xs), "yv": hxl(ys), "n": r.choice([1, 2, 3, 5, 8, 13]), "xdt": xd, "ydt": yd, "layout": lay,
                       "via": r.choice(["integrate", "integrate_data", "qgauss", "integrate_pos"]),
                       "family": "form:%s/%s/%s" % (xd, yd, lay)})
        if round == 0:       # long tables: 2^k + 1 points (searchsorted / take / interpolation over many rows)
            for npt in ([1025] if ctx.quick() else [4097, 16385]):
                h = 1.0 / 1024
                xs = [-2.0 + h * i + (h / 4 if i % 3 == 1 else 0.0) for i in range(npt)]
                ys = [math.sin(0.7 * x) + 0.1 * x for x in xs]
                cs.append({"xv": hxl(xs), "yv": hxl(ys), "n": 5, "xdt": "f8", "ydt": "f8", "layout": "contig",
                           "via": "integrate", "family": "form:long table %d" % npt})
        return cs

    @staticmethod
    def make_table(vals, dt, layout):
        import numpy as np
        if dt in ("list", "tuple"):
            seq = [float(v) for v in vals]
            return seq if dt == "list" else tuple(seq)
        isint = np.dtype(dt).kind in "iu"
        base = np.array([int(v) for v in vals] if isint else vals, dtype=dt)
        if [float(v) for v in base] != [float(v) for v in vals]:
            raise RuntimeError("harness: values not representable as %s" % dt)
        if layout == "strided":
            big = np.zeros(2 * len(base), dtype=dt)
            big[::2] = base
            return big[::2]
        if layout == "negstride":
            return np.ascontiguousarray(base[::-1])[::-1]
        if layout == "readonly":
            a = base.copy()
            a.flags.writeable = False
            return a
        if layout == "column":
            big = np.zeros((len(base), 3), dtype=dt, order="C")
            big[:, 1] = base
            return big[:, 1]
        return base

    def impl(self, c):
        import numpy as np
        import esutil.integrate as ig

        def run():
            xv = self.make_table([float.fromhex(h) for h in c["xv"]], c.get("xdt", "f8"), c.get("layout", "contig"))
            yv = self.make_table([float.fromhex(h) for h in c["yv"]], c.get("ydt", "f8"), c.get("layout", "contig"))
            snap = lambda t: t.tobytes() if hasattr(t, "tobytes") else repr(t)   # noqa: E731
            keep = (snap(xv), snap(yv))
            n = c["n"]
            zs, ws = _rule(n)
            _clobber(c.get("clobber"), [n])
            if c.get("decoy"):
                # a table of the same length with the same end points (hence the same abscissae), other interior
                # points and other ordinates, integrated with the same count just before
                xd = np.array([float.fromhex(h) for h in c["xv"]])
                yd = np.array([float.fromhex(h) for h in c["yv"]])[::-1].copy()
                if len(xd) > 2:
                    xd[1:-1] = (xd[1:-1] + xd[2:]) / 2.0
                ig.QGauss(n).integrate(xd, yd)
                ig.qgauss(xd, yd * 2.0 + 1.0, n)
            # observe the abscissae the integrator hands to the interpolation (esutil.stat.interplin is looked up
            # through the module at call time): the checker judges the result at THESE abscissae
            import esutil.stat as st
            orig_interplin = st.interplin
            seen = []

            def spy(vin, xin, uin):
                seen.append(np.array(uin, dtype="f8", copy=True))
                return orig_interplin(vin, xin, uin)
            st.interplin = spy
            try:
                if c["via"] == "integrate":
                    res = ig.QGauss(n).integrate(xv, yv)
                elif c["via"] == "integrate_data":
                    res = ig.QGauss().integrate_data(xv, yv, npts=n)
                elif c["via"] == "integrate_pos":
                    res = ig.QGauss().integrate(xv, yv, n)
                else:
                    res = ig.qgauss(xv, yv, n)
            finally:
                st.interplin = orig_interplin
            if (snap(xv), snap(yv)) != keep:
                raise RuntimeError("the integrator modified its input tables")
            if len(seen) != 1 or seen[0].ndim != 1:
                raise RuntimeError("the data integrator did not call stat.interplin exactly once on a 1-d array")
            return {"zs": hxl(zs), "ws": hxl(ws), "xi": hxl(seen[0]), "res": hx(res)}
        return core.guarded(run)

    def term(self, c, out):
        k = {"list": "YList", "tuple": "YTuple"}.get(c.get("ydt", "f8"), "YArray")
        if out[0] != "ok":
            return "v_data_k %s [] [] %s %s (Err %s)" % (k, cfl(c["xv"]), cfl(c["yv"]), out[1])
        o = out[1]
        return "v_data_at %s %s %s %s %s %s (Ok %s)" % (k, cfl(o["zs"]), cfl(o["ws"]), cfl(c["xv"]), cfl(c["yv"]), cfl(o["xi"]),
                                                       cf(o["res"]))

    def nontrivial(self, c, out):
        return c["n"] >= 2 and len(c["xv"]) >= 3

    def classify(self, c, out, v):
        if v >= 2 and (c.get("xdt", "f8") not in ("f8", ">f8") or c.get("ydt", "f8") not in ("f8", ">f8", "list", "tuple")):
            return "C17.kf_input_dtype_arithmetic"
        return None


class Func2(Entry):
    """QGauss2(nx, ny).integrate_func(xrng, yrng, func)"""
    name = "qgauss2"
    shard = 8
    shard_quick = 9

    def cases(self, ctx, round=0):
        r = ctx.rng
        cs = []
        names = sorted(_funcs2())
        nmax = 12
        shapes = []
        if round == 0:
            shapes += [(1, 1), (1, 3), (4, 1), (3, 4), (4, 3), (2, 2), (5, 5), (7, 2), (2, 9), (8, 16)]
            if not ctx.quick():
                shapes += [(30, 30), (24, 31), (1, 40)]
        for _ in range(ctx.n(12, 30) if round == 0 else 30):
            shapes.append((r.randrange(1, nmax + 1), r.randrange(1, nmax + 1)))
        for nx, ny in shapes:
            (a, b, k1), (c_, d, k2) = mild_intervals(r, 2)
            cs.append({"nx": nx, "ny": ny, "x1": hx(a), "x2": hx(b), "y1": hx(c_), "y2": hx(d), "fn": r.choice(names),
                       "family": "2d:" + ("square" if nx == ny else "nx!=ny")})
        # forms of the two ranges; grids whose size sits at numpy's pairwise-summation block boundaries (8, 128)
        forms = [(xf, yf) for xf, yf in zip(XFORMS, reversed(XFORMS))] if round == 0 else []
        for _ in range(ctx.n(4, 30) if round == 0 else 4):
            forms.append((r.choice(XFORMS), r.choice(XFORMS)))
        for xf, yf in forms:
            rx, ry = range_values(r, xf), range_values(r, yf)
            (a, b, _k1), (c_, d, _k2) = mild_intervals(r, 2)
            if rx is not None:
                a, b = rx
            if ry is not None:
                c_, d = ry
            nx, ny = r.choice([(1, 7), (7, 1), (3, 3), (1, 8), (2, 4), (3, 43), (43, 3), (1, 129), (8, 16), (4, 5)])
            cs.append({"nx": nx, "ny": ny, "x1": hx(a), "x2": hx(b), "y1": hx(c_), "y2": hx(d), "fn": r.choice(names),
                       "xform": xf, "yform": yf, "family": "form2d:%s/%s" % (xf, yf)})
        return _with_decoys(_no_underflow(cs))

    def classify(self, c, out, v):
        ints = ("i8", "i4", "u1", "u8", "f4", "intlist")
        if v >= 2 and (c.get("xform", "list") in ints or c.get("yform", "list") in ints):
            return "C17.kf_input_dtype_arithmetic"
        return None

    def impl(self, c):
        import numpy as np
        import esutil.integrate as ig
        f0 = _funcs2()[c["fn"]]
        rec = {}

        def func(xg, yg):
            rec["xg"] = np.array(xg, dtype="f8", copy=True)
            rec["yg"] = np.array(yg, dtype="f8", copy=True)
            z = np.ascontiguousarray(np.array(f0(xg, yg), dtype="f8"))
            rec["zv"] = z.copy()
            return z

        def run():
            x, wx = _rule(c["nx"])
            y, wy = _rule(c["ny"])
            _clobber(c.get("clobber"), [c["nx"], c["ny"]], shape2=(c["nx"], c["ny"]))
            if c.get("decoy"):
                # same grid SIZE with the transposed shape, and the same shape with the two ranges exchanged
                ig.QGauss2(c["ny"], c["nx"]).integrate_func([float.fromhex(c["y1"]), float.fromhex(c["y2"])],
                                                            [float.fromhex(c["x1"]), float.fromhex(c["x2"])], f0)
                ig.QGauss2(c["nx"], c["ny"]).integrate_func([float.fromhex(c["x1"]) + 1.0, float.fromhex(c["x2"]) + 1.0],
                                                            [float.fromhex(c["y1"]), float.fromhex(c["y2"])], f0)
            qg = ig.QGauss2(c["nx"], c["ny"])
            res = qg.integrate_func(make_range(float.fromhex(c["x1"]), float.fromhex(c["x2"]), c.get("xform", "list")),
                                    make_range(float.fromhex(c["y1"]), float.fromhex(c["y2"]), c.get("yform", "list")), func)
            wshape = [int(k) for k in qg.wgrid.shape]
            ishape = [int(k) for k in np.broadcast_shapes(rec["zv"].shape, qg.wgrid.shape)]
            if len(wshape) != 2 or len(ishape) != 2:
                raise RuntimeError("weight grid / integrand is not 2-d: %r %r" % (wshape, ishape))
            return {"x": hxl(x), "wx": hxl(wx), "y": hxl(y), "wy": hxl(wy), "shape": list(rec["zv"].shape),
                    "wshape": wshape, "ishape": ishape,
                    "xg": hxl(rec["xg"].ravel()), "yg": hxl(rec["yg"].ravel()), "zv": hxl(rec["zv"].ravel()), "res": hx(res)}
        return core.guarded(run)

    def term(self, c, out):
        rng = "%s %s %s %s" % (cf(c["x1"]), cf(c["x2"]), cf(c["y1"]), cf(c["y2"]))
        if out[0] != "ok":
            # the model needs the rules even when the implementation failed
            import esutil.integrate as ig
            try:
                x, wx = ig.gauleg(-1.0, 1.0, c["nx"])
                y, wy = ig.gauleg(-1.0, 1.0, c["ny"])
                return "v_func2 %s %s %s %s %s [] [] [] (Err %s)" % (cfl(hxl(x)), cfl(hxl(wx)), cfl(hxl(y)), cfl(hxl(wy)), rng, out[1])
            except Exception:
                return "v_func2 [] [] [] [] %s [] [] [] (Err %s)" % (rng, out[1])
        o = out[1]
        return "v_func2s %s %s (%s, %s) (%s, %s) %s %s %s %s %s %s %s %s (Ok %s)" % (
            cz(c["nx"]), cz(c["ny"]), cz(o["wshape"][0]), cz(o["wshape"][1]), cz(o["ishape"][0]), cz(o["ishape"][1]),
            cfl(o["x"]), cfl(o["wx"]), cfl(o["y"]), cfl(o["wy"]), rng, cfl(o["xg"]), cfl(o["yg"]), cfl(o["zv"]), cf(o["res"]))

    def nontrivial(self, c, out):
        return c["nx"] >= 2 and c["ny"] >= 2


class History(Entry):
    """sequences of integrate calls with changing npts on ONE QGauss object"""
    name = "history"
    shard = 25
    shard_quick = 70

    def cases(self, ctx, round=0):
        r = ctx.rng
        cs = []
        names = sorted(_funcs())
        if round == 0:
            cs.append({"n0": 10, "ops": [0, 0], "fn": "sin", "x1": hx(0.0), "x2": hx(2.0), "kind": "func", "family": "history:rejected-count"})
            cs.append({"n0": None, "ops": [0, 0, None, 5, None], "fn": "sin", "x1": hx(0.0), "x2": hx(2.0), "kind": "func", "family": "history:rejected-count"})
            cs.append({"n0": None, "ops": [None, 4, None], "fn": "cos3", "x1": hx(-1.0), "x2": hx(2.0), "kind": "func", "family": "history:no-count"})
            cs.append({"n0": 0, "ops": [3], "fn": "sin", "x1": hx(0.0), "x2": hx(2.0), "kind": "func", "family": "history:rejected-count"})
        if round == 0:
            # SYSTEMATIC returns to earlier point counts on one object (A B A, A B C A, ...), through the
            # constructor or the keyword, function and data paths interleaved, and the arguments of the calls
            # varied the way a too coarse cache key would confuse: the same range / table OBJECT again after its
            # contents were changed in place, an equal-content copy, tables of equal length with equal end points
            pats = [("A", "B", "A"), ("A", "B", "C", "A"), ("A", "B", "A", "B", "A"), ("A", "A", "B", "B", "A"),
                    ("A", "B", None, "A", None), ("B", "A"), ("A", "B", "C", "B", "A", "C")]
            kpats = ["f", "d", "fd", "df", "ffd"]
            triples = [(4, 8, 3), (16, 5, 30)] if ctx.quick() else [(4, 8, 3), (16, 5, 30), (1, 2, 40), (9, 129, 8), (7, 14, 28)]
            k = 0
            for tr in triples:
                m = dict(zip("ABC", tr))
                for pat in pats:
                    for n0 in (None, "A", "B"):
                        k += 1
                        if ctx.quick() and k % 3 != 1:
                            continue
                        ops = [m[x] if x else None for x in pat]
                        if n0 is None and ops[0] is None:
                            continue
                        kp = kpats[k % len(kpats)]
                        a, b, _k = mild_intervals(r, 1)[0]
                        cs.append({"n0": m[n0] if n0 else None, "ops": ops, "fn": r.choice(names), "x1": hx(a), "x2": hx(b),
                                   "kind": "func", "kinds": [{"f": "func", "d": "data"}[kp[i % len(kp)]] for i in range(len(ops))],
                                   "styles": [r.choice(["kw", "pos"]) if n is not None else r.choice(["kw", "omit"]) for n in ops],
                                   "sets": [r.choice([0, 1, 2, 3]) for _n in ops],
                                   "family": "history:return %s/%s" % ("".join(x or "-" for x in pat), kp)})
        for _ in range(ctx.n(40, 80) if round == 0 else 30):
            pool = [r.randrange(1, 41) for _i in range(r.randrange(1, 4))]
            n0 = r.choice([None, r.choice(pool)])
            ops = [r.choice([None, None] + pool + [r.randrange(1, 41)]) for _i in range(r.randrange(1, 9))]
            fam = "history:valid"
            if r.random() < 0.12:
                ops[r.randrange(len(ops))] = r.choice([0, -2])
                fam = "history:rejected-count"
            a, b, _k = mild_intervals(r, 1)[0]
            c = {"n0": n0, "ops": ops, "fn": r.choice(names), "x1": hx(a), "x2": hx(b),
                 "kind": r.choice(["func", "func", "data"]), "family": fam}
            if r.random() < 0.5:
                # how each call passes npts (keyword / positional / omitted / numpy integer types) and whether
                # it integrates the function or the table: the cache must not care
                c["styles"] = [r.choice(["kw", "pos", "np64", "np32"] if n is not None else ["kw", "omit", "pos"]) for n in ops]
                c["kinds"] = [r.choice(["func", "data"]) for _n in ops]
                c["n0style"] = r.choice(["py", "np64", "np32"])
                c["family"] = fam + "/mixed"
                if r.random() < 0.5:
                    c["sets"] = [r.choice([0, 1, 2, 3]) for _n in ops]
            cs.append(c)
        return _with_decoys(cs)

    def impl(self, c):
        import numpy as np
        import esutil.integrate as ig
        from esutil import stat
        f0 = _funcs()[c["fn"]]
        x1, x2 = float.fromhex(c["x1"]), float.fromhex(c["x2"])
        if x1 == x2:
            x2 = x1 + 1.0

        def func(xi):
            return f0(xi)
        lo, hi = min(x1, x2), max(x1, x2)
        xv = np.linspace(lo, hi, 17) + 0.01 * (hi - lo) * np.sin(np.arange(17.0)) * (np.arange(17) % 16 != 0)
        xv = np.sort(xv)
        # the argument OBJECTS shared by the calls of this history (sets: 0 = as they are, 1 = contents changed
        # in place first, 2 = a different object with equal contents, 3 = another table / range of equal
        # length and equal end points)
        shared = {"xv": xv.copy(), "yv": np.array(f0(xv), dtype="f8"), "rng": [x1, x2]}
        kinds = c.get("kinds") or [c["kind"]] * len(c["ops"])
        styles = c.get("styles") or ["kw"] * len(c["ops"])
        sets = c.get("sets") or [0] * len(c["ops"])

        def conv(n, style):
            if n is None:
                return None
            return {"np64": np.int64, "np32": np.int32}.get(style, int)(n)

        def arguments(kind, st):
            if st == 1:      # same objects, contents changed in place (end points of the table kept)
                shared["yv"] *= 1.5
                shared["yv"] += 0.25
                shared["xv"][1:-1] += 0.2 * np.diff(shared["xv"])[1:] * (np.arange(15) % 2)
                shared["rng"][1] = shared["rng"][1] + 0.25 * (shared["rng"][1] - shared["rng"][0])
            if kind == "data":
                if st == 2:
                    return shared["xv"].copy(), shared["yv"].copy()
                if st == 3:
                    x3 = shared["xv"].copy()
                    x3[1:-1] = np.sort(x3[0] + (x3[-1] - x3[0]) * (0.03 + 0.94 * ((np.arange(15) * 0.6180339887) % 1.0)))
                    y3 = shared["yv"][::-1].copy()
                    y3[0], y3[-1] = shared["yv"][0], shared["yv"][-1]
                    return x3, y3
                return shared["xv"], shared["yv"]
            if st == 2:
                return list(shared["rng"]), func
            if st == 3:
                return [shared["rng"][0], shared["rng"][1]], (lambda xi: f0(xi) * 0.5 + 1.0)
            return shared["rng"], func

        def direct(kind, a0, a1, k):
            """the k-point weighted sum computed outside any QGauss object (its caches cannot touch this)"""
            z, w = _rule(k)
            if kind == "data":
                xa, ya = np.asarray(a0, dtype="f8"), np.asarray(a1, dtype="f8")
                u1, u2 = xa.min(), xa.max()
            else:
                u1, u2 = float(a0[0]), float(a0[1])
            f1 = (u2 - u1) / 2.0
            f2 = (u2 + u1) / 2.0
            xi = z * f1 + f2
            yy = stat.interplin(ya, xa, xi) if kind == "data" else a1(xi)
            return f1 * (yy * w).sum()

        def run():
            counts = sorted(set(n for n in list(c["ops"]) + [c["n0"]] if n is not None and n >= 1))
            _clobber(c.get("clobber"), counts)
            qg = ig.QGauss(conv(c["n0"], c.get("n0style", "py")))
            obs = []
            for j, (n, kind, style, st) in enumerate(zip(c["ops"], kinds, styles, sets)):
                if j == 1:
                    _clobber(c.get("clobber"), counts)     # ... and again between the calls on the object
                args = arguments(kind, st)
                try:
                    if style == "omit":
                        res = qg.integrate(args[0], args[1])
                    elif style == "pos":
                        res = qg.integrate(args[0], args[1], conv(n, style))
                    else:
                        res = qg.integrate(args[0], args[1], npts=conv(n, style))
                    k = len(qg.xxi)
                    fresh = ig.QGauss(k).integrate(args[0], args[1])
                    ref = direct(kind, args[0], args[1], k)
                    if hx(fresh) != hx(ref):
                        # a fresh OBJECT disagrees with the sum computed without any object: report against the latter
                        fresh = ref if hx(res) == hx(fresh) else fresh
                    obs.append(["ok", k, hx(res), hx(fresh)])
                except Exception as e:  # noqa
                    obs.append(["err", core.errclass(e)])
            return obs
        return core.guarded(run)

    def term(self, c, out):
        ops = "[" + "; ".join(copt(n) for n in c["ops"]) + "]"
        if out[0] != "ok":
            o = "(Err %s)" % out[1]
        else:
            o = "(Ok [" + "; ".join(("(Ok (%s, (%s, %s)))" % (cz(ob[1]), cf(ob[2]), cf(ob[3]))) if ob[0] == "ok"
                                    else "(Err %s)" % ob[1] for ob in out[1]) + "])"
        return "v_history %s %s %s" % (copt(c["n0"]), ops, o)

    def nontrivial(self, c, out):
        ns = [n for n in c["ops"] if n is not None]
        return len(set(ns)) >= 2 and len(c["ops"]) >= 3

    def show(self, c):
        return "hist_model %s %s" % (copt(c["n0"]), "[" + "; ".join(copt(n) for n in c["ops"]) + "]")


class History2(Entry):
    """ONE QGauss2(nx, ny) object reused for several ranges / integrands (returning to earlier ones, the same range
    object changed in place, another QGauss2 of a different shape built in between): every result must be what
    a fresh object returns and the object's grids must not change"""
    name = "history2"
    shard = 40
    shard_quick = 40

    def cases(self, ctx, round=0):
        r = ctx.rng
        cs = []
        names = sorted(_funcs2())
        shapes = [(3, 4), (4, 3), (1, 5), (6, 6), (2, 9), (8, 16)] if round == 0 else []
        for _ in range(ctx.n(10, 40) if round == 0 else 6):
            shapes.append((r.randrange(1, 13), r.randrange(1, 13)))
        for nx, ny in shapes:
            pat = r.choice([(0, 1, 0), (0, 1, 2, 0), (0, 0, 1, 1, 0), (0, 1, 0, 1), (2, 1, 0, 2)])
            rngs = []
            for _i in range(3):
                (a, b, _k1), (c_, d, _k2) = mild_intervals(r, 2)
                rngs.append([hx(a), hx(b), hx(c_), hx(d)])
            cs.append({"nx": nx, "ny": ny, "pat": list(pat), "rngs": rngs, "fns": [r.choice(names) for _i in range(3)],
                       "inplace": r.random() < 0.5, "other": r.random() < 0.5, "family": "history2:" + "".join(map(str, pat))})
        for c in cs:     # integrands that underflow to subnormals on wide ranges: see _no_underflow
            big = max(abs(float.fromhex(h)) for rg in c["rngs"] for h in rg) > 30.0
            c["fns"] = [("ratio" if big and f == "gauss2" else f) for f in c["fns"]]
        return _with_decoys(cs)

    def impl(self, c):
        import numpy as np
        import esutil.integrate as ig
        fs = _funcs2()

        def run():
            _clobber(c.get("clobber"), [c["nx"], c["ny"], c["ny"] + 1], shape2=(c["nx"], c["ny"]))
            qg = ig.QGauss2(c["nx"], c["ny"])
            grids = (qg.xgrid.tobytes(), qg.ygrid.tobytes(), qg.wgrid.tobytes())
            xr, yr = [0.0, 0.0], [0.0, 0.0]          # the SAME two list objects for every call when inplace
            obs = []
            for j in c["pat"]:
                v = [float.fromhex(h) for h in c["rngs"][j]]
                if c["inplace"]:
                    xr[0], xr[1], yr[0], yr[1] = v
                    ax, ay = xr, yr
                else:
                    ax, ay = [v[0], v[1]], (v[2], v[3])
                f = fs[c["fns"][j]]
                def direct(nx, ny):
                    """the tensor-product sum computed from gauleg alone (no QGauss2 object, no cache of one)"""
                    gx, wx = _rule(nx)
                    gy, wy = _rule(ny)
                    xg, yg = np.meshgrid(gx, gy)
                    xf1, xf2 = (v[1] - v[0]) / 2.0, (v[1] + v[0]) / 2.0
                    yf1, yf2 = (v[3] - v[2]) / 2.0, (v[3] + v[2]) / 2.0
                    wg = (np.ones((ny, nx)) * wx[np.newaxis, :]) * (np.ones((ny, nx)) * wy[:, np.newaxis])
                    return xf1 * yf1 * (f(xg * xf1 + xf2, yg * yf1 + yf2) * wg).sum()
                if c["other"]:
                    # a second object of another shape built and used in between (a cache keyed by nx alone, or by
                    # the number of grid points, would hand it / us the wrong grids): judged against the direct sum
                    oth = ig.QGauss2(c["nx"], c["ny"] + 1).integrate_func(ax, ay, f)
                    obs.append(["ok", c["nx"] * c["ny"], hx(oth), hx(direct(c["nx"], c["ny"] + 1))])
                res = qg.integrate_func(ax, ay, f)
                fresh = ig.QGauss2(c["nx"], c["ny"]).integrate_func([v[0], v[1]], [v[2], v[3]], f)
                ref = direct(c["nx"], c["ny"])
                if hx(fresh) != hx(ref) and hx(res) == hx(fresh):
                    fresh = ref
                same = grids == (qg.xgrid.tobytes(), qg.ygrid.tobytes(), qg.wgrid.tobytes())
                obs.append(["ok", int(qg.wgrid.size) if same else -1, hx(res), hx(fresh)])
            return obs
        return core.guarded(run)

    def term(self, c, out):
        n0 = c["nx"] * c["ny"]
        ncalls = len(c["pat"]) * (2 if c["other"] else 1)
        ops = "[" + "; ".join("None" for _j in range(ncalls)) + "]"
        if out[0] != "ok":
            o = "(Err %s)" % out[1]
        else:
            o = "(Ok [" + "; ".join("(Ok (%s, (%s, %s)))" % (cz(ob[1]), cf(ob[2]), cf(ob[3])) for ob in out[1]) + "])"
        return "v_history %s %s %s" % (copt(n0), ops, o)

    def nontrivial(self, c, out):
        return c["nx"] >= 2 and c["ny"] >= 2 and len(set(c["pat"])) >= 2


ENTRIES = [GaulegMoments(), GaulegLarge(), Gauleg(), GaulegMP(), Poly(), Func(), Data(), Func2(), History(), History2()]

TRUSTED = [
    "Coq 8.16.1 kernel (coqc, vm_compute incl. the kernel's primitive binary64 floats = host IEEE-754; no native_compute)",
    "axioms (stdlib only): ClassicalDedekindReals.sig_forall_dec, sig_not_dec, FunctionalExtensionality.functional_extensionality_dep, "
    "Classical_Prop.classic (Coq reals / Coquelicot RInt); no FloatAxioms are used: floats are only computed with and decoded by Prim2SF",
    "hand-written models C17/Model.v of cgauleg_pywrap.c, integrate/util.py, stat.interplin; tied to the working tree by bit-for-bit "
    "correspondence on every run (differential testing, bounded by the generators) and by a fail-closed translator "
    "(harness/props/c17_translate.py: C statement/expression parser + python ast) that re-emits every float/int assignment of the anchored "
    "code as Gallina and checks gen_X = F.X by reflexivity and the control skeleton (loop kinds and bounds, statement order) by comparison",
    "measured, not modelled: libm cos (Newton start values; python's math.cos = the same libm, on the arguments the model computes; "
    "the outputs are certified whatever the start values are); user integrands (their returned values are inputs)",
    "modelled, not verified: numpy float64 pairwise add.reduce, searchsorted on ascending data, min/max, elementwise IEEE arithmetic, meshgrid layout",
    "convergence of Newton's iteration for every n is NOT proved: certificates cover the n that were run; the for-all polynomial bound is in the "
    "coefficient 1-norm (moments_lift), the max|p| bound of the statement is decided exactly on sampled polynomials (n <= 30)",
    "gap between real-number models and IEEE evaluation is measured per case (exact dyadic/rational evaluation of the implementation's floats), not bounded by proof",
    "reference rules: numpy.polynomial.legendre.leggauss (eigenvalue method) and, thorough tier, a 40-digit mpmath Newton iteration",
    "python harness (harness/props/C17.py), hex-float literal printer, coqc evaluating Exec.v verdict terms",
]


# The machine is shared (16 cores, no swap): never more than MAX_COQC coqc processes of this check at a
# time, however many entries / shards are in flight (core.coq_eval starts up to 16 per call).
MAX_COQC = 14
_COQC_SEM = threading.BoundedSemaphore(MAX_COQC)
if not getattr(core.coqc_file, "_c17_limited", False):
    _coqc_file_orig = core.coqc_file

    def _coqc_file_limited(*a, **k):
        # rc 137 / -9: coqc was SIGKILLed (the kernel's OOM killer on the shared machine): not a verdict, retry
        for attempt in range(4):
            with _COQC_SEM:
                rc, txt = _coqc_file_orig(*a, **k)
            if rc not in (137, -9):
                break
            time.sleep(5 + 10 * attempt)
        return rc, txt
    _coqc_file_limited._c17_limited = True
    core.coqc_file = _coqc_file_limited


def differential_sharded(ctx, preamble, entries, replay_case=None):
    """runner.differential with a per-entry shard size (moment certificates are heavy terms).
    The real esutil is run entry by entry (python, sequential: deterministic use of ctx.rng); the
    Coq case files of the different entries are then evaluated concurrently (wall time)."""
    from concurrent.futures import ThreadPoolExecutor
    prepared = []
    for ent in entries:
        if replay_case is not None:
            if replay_case.get("entry") != ent.name:
                continue
            cases = [replay_case["case"]]
        else:
            cases = corpus_cases(ctx.pid, ent.name) + list(ent.cases(ctx, 0))
        for c in cases:
            c.setdefault("entry", ent.name)
        t0 = time.time()
        outs = [ent.impl(c) for c in cases]
        terms = [ent.term(c, o) for c, o in zip(cases, outs)]
        ctx.count("impl_s:" + ent.name, round(time.time() - t0, 1))
        prepared.append((ent, cases, outs, terms))

    def evaluate(job):
        ent, cases, outs, terms = job
        t0 = time.time()
        r = eval_terms(ctx, preamble, ent, cases, outs, terms, "d_" + ent.name)
        return r, round(time.time() - t0, 1)

    with ThreadPoolExecutor(6) as ex:
        evaluated = list(ex.map(evaluate, prepared))

    for (ent, cases, outs, terms), ((res, err), wall) in zip(prepared, evaluated):
        if err is not None:
            ctx.violation("case file of entry %s does not evaluate in Coq" % ent.name,
                          {"kind": "case-file", "entry": ent.name, "error": err[-3000:]}, found_input=False)
        failing = [(c, o, v) for c, o, v in res if v >= 2]
        disagree = [(c, o, v) for c, o, v in res if v == 1]
        for c, o, v in res:
            ctx.case([ent.name, c], ent.nontrivial(c, o), ent.family(c), sample={"entry": ent.name, "input": _short(c)})
            ctx.count("verdict:%s:%d" % (ent.name, v))
        if disagree and not failing and replay_case is None:
            for r in range(1, ent.search_rounds + 1):
                extra = list(ent.cases(ctx, r))
                if not extra:
                    break
                for c in extra:
                    c.setdefault("entry", ent.name)
                res2 = run_entry(ctx, preamble, ent, extra, "s%d_%s" % (r, ent.name))
                ctx.count("search_cases:" + ent.name, len(res2))
                failing = [(c, o, v) for c, o, v in res2 if v >= 2]
                if failing:
                    break
        # failing inputs: the smallest of every class (known-finding classes are told apart by classify())
        byclass = {}
        for c, o, v in sorted(failing, key=lambda t: (not str(t[0].get("family", "")).startswith("corpus"),
                                                      len(json.dumps(t[0], default=str)))):
            byclass.setdefault(ent.classify(c, o, v), []).append((c, o, v))
        reported = 0
        for cls, lst in sorted(byclass.items(), key=lambda kv: str(kv[0])):
            for c, o, v in lst[:3]:
                reported += 1
                shown = None
                if ent.show(c) is not None and reported <= 2:
                    shown = core.coq_show(ctx.work, preamble, ent.show(c))
                ctx.violation("%s: %s" % (ent.name, core.VERDICT_TXT[v]),
                              {"kind": "failing-input", "entry": ent.name, "case": c, "impl_output": _short(o),
                               "verdict": v, "model_output": shown, "class": cls}, found_input=True)
        if disagree and not failing:
            c, o, v = min(disagree, key=lambda t: len(json.dumps(t[0], default=str)))
            shown = core.coq_show(ctx.work, preamble, ent.show(c)) if ent.show(c) is not None else None
            ctx.violation("%s: correspondence model<->implementation broken on %d case(s); the property checker "
                          "accepted every implementation output explored" % (ent.name, len(disagree)),
                          {"kind": "correspondence", "entry": ent.name, "case": c, "impl_output": _short(o), "verdict": v,
                           "model_output": shown, "class": ent.classify(c, o, v),
                           "no_longer_checks": "correspondence %s.%s (bit-exact float model = implementation)" % (ctx.pid, ent.name)},
                          found_input=False)
        ctx.count("wall_s:" + ent.name, wall)


def _short(o):
    s = json.dumps(o, default=str)
    return o if len(s) < 4000 else s[:4000] + "...(truncated)"


def eval_terms(ctx, preamble, entry, cases, outs, terms, tag):
    """-> ([(case, out, verdict)], error text or None)"""
    if not terms:
        return [], None
    try:
        shard = getattr(entry, "shard_quick", entry.shard) if ctx.quick() else entry.shard
        vals = core.coq_eval(os.path.join(ctx.work, tag), preamble, terms, tag=tag, shard=shard, timeout=1500)
    except core.CoqEvalError as e:
        return [], str(e)
    return [(c, o, int(v.replace("%Z", "").strip("() "))) for c, o, v in zip(cases, outs, vals)], None


def run_entry(ctx, preamble, entry, cases, tag):
    outs = [entry.impl(c) for c in cases]
    terms = [entry.term(c, o) for c, o in zip(cases, outs)]
    res, err = eval_terms(ctx, preamble, entry, cases, outs, terms, tag)
    if err is not None:
        ctx.violation("case file of entry %s does not evaluate in Coq" % entry.name,
                      {"kind": "case-file", "entry": entry.name, "error": err[-3000:]}, found_input=False)
    return res


def translation_step(ctx):
    """Tie by translation (DESIGN 4.1): c17_translate re-reads cgauleg_pywrap.c, integrate/util.py and
    stat/util.py of the tree under test, checks their control skeleton and re-emits every float / int
    statement as Gallina; each  gen_X = F.X  lemma (reflexivity) is one obligation."""
    from . import c17_translate as tr
    try:
        defs, lemmas, consts = tr.translate(ctx.impl)
    except tr.TranslateError as e:
        ctx.obligation("translator reads the anchored sources (fail-closed)", False, str(e))
        ctx.violation("translator failed (fail-closed): %s" % e,
                      {"kind": "translation", "error": str(e),
                       "no_longer_checks": "T-gen tie of C17/Model.v (statements of cgauleg_pywrap.c / integrate/util.py / stat.interplin)"},
                      found_input=False)
        return
    # a section of the sources outside the translated subset fails closed ON ITS OWN: it is reported as a broken tie,
    # the other sections' ties are still checked, and the differential run below is never gated on any of this
    ctx.obligation("translator reads the anchored sources (fail-closed)", not tr.ERRORS, "; ".join("%s: %s" % e for e in tr.ERRORS)[:600])
    for sec, msg in tr.ERRORS:
        ctx.violation("translator failed (fail-closed) on %s: %s" % (sec, msg),
                      {"kind": "translation", "section": sec, "error": msg,
                       "no_longer_checks": "T-gen tie of C17/Model.v for the source section %r" % sec}, found_input=False)
    res = core.coq_lemmas(os.path.join(ctx.work, "gen"), tr.PREAMBLE + defs, [(st, pr) for st, pr, _ in lemmas],
                          shard=len(lemmas), tag="gen")
    bad = []
    for (st, pr, what), (ok, msg) in zip(lemmas, res):
        ctx.obligation("translated source statement equals the model's: %s" % what, ok, "" if ok else msg[-300:])
        if not ok:
            bad.append({"tie": what, "statement": st, "coq": msg[-600:]})
    ctx.count("translated_statements", len(lemmas))
    if bad:
        ctx.violation("source statements differ from the Coq model (%s)" % ", ".join(b["tie"] for b in bad[:6]),
                      {"kind": "translation", "no_longer_checks": [b["tie"] for b in bad], "detail": bad[:6],
                       "generated_definitions": defs[:6000]}, found_input=False)


def small_table_step(ctx):
    """C17_small_rules_exact is stated for the start values of SmallRules.cos_table: re-measure libm's cos at the
    model's arguments for n = 1..10 and compare bit for bit with the table (inside Coq)."""
    t = "[" + "; ".join("(%s, %s)" % (cz(n), ccos(n)) for n in range(1, 11)) + "]"
    try:
        vals = core.coq_eval(os.path.join(ctx.work, "smalltab"),
                             PRE + "From EsVerif.C17 Require Import SmallRules.\n", ["v_small_table cos_table %s" % t], tag="smalltab")
        ok = vals == ["0"]
        detail = "" if ok else "verdict %r" % (vals,)
    except core.CoqEvalError as e:
        ok, detail = False, str(e)[-400:]
    ctx.obligation("libm cos at the model's start-value arguments equals SmallRules.cos_table (n = 1..10): "
                   "C17_small_rules_exact applies to this machine", ok, detail)
    if not ok:
        ctx.violation("libm's cos differs from the start values C17_small_rules_exact is stated for (%s)" % detail,
                      {"kind": "contract", "no_longer_checks": "C17_small_rules_exact (SmallRules.cos_table)", "detail": detail},
                      found_input=False)


def run(ctx, replay=None):
    ctx.rule = ("corpus (repaired defects) + adversarial families of the quantifier (n = 1..40 quick / 1..200 thorough and samples to 2000; "
                "negative, tiny, huge, reversed intervals; rejected point counts; random polynomials of degree <= 2n-1 for n <= 30; "
                "smooth integrands; evenly/unevenly/clustered tabulated data; nx != ny grids; call histories with changing npts) + seeded random. "
                "Every case runs the real esutil (scratch build of the working tree) and, inside Coq, the bit-exact float model "
                "(agree) and the verified property checker on the exact values of the implementation's floats (ok). "
                "non-trivial: n >= 2 (rules), degree >= 2 (polynomials), non-constant integrand, >= 3 tabulated points, nx,ny >= 2, "
                "histories with >= 3 calls and >= 2 distinct explicit counts.  distinct by canonical JSON.")
    ctx.trusted = TRUSTED
    core.proof_step(ctx, "C17", core.ALLOW_DISCRETE + core.ALLOW_REALS + core.ALLOW_INTERVAL + core.ALLOW_FLOAT)
    translation_step(ctx)
    if replay is None:
        small_table_step(ctx)
    differential_sharded(ctx, PRE, ENTRIES, replay)
    for ent in ENTRIES:
        k = sum(v for key, v in ctx.dist.items() if key.startswith("verdict:%s:" % ent.name))
        if k:
            ctx.obligation("per-case certificates of %s (%d cases): model = implementation bit for bit, checker accepts" % (ent.name, k),
                           ctx.dist.get("verdict:%s:0" % ent.name, 0) == k)

"""C17 -- fail-closed translator of the anchored numeric code into Gallina (DESIGN.md 4.1).

On every run the float statements of

    esutil/integrate/cgauleg_pywrap.c   (the Newton/Legendre loop, the mirrored fill, EPS, pi, m)
    esutil/integrate/util.py            (gauleg's argument check, QGauss.setup, integrate_func,
                                         integrate_data, QGauss2._setup, QGauss2.integrate_func)
    esutil/stat/util.py                 (interplin)

are parsed (a small C statement/expression parser; python `ast`), their CONTROL SKELETON is compared
with the one the Coq model C17/Model.v was written for, and every arithmetic expression is re-emitted
as a Gallina term over PrimFloat / Z.  The result is a list of definitions `gen_*` and of tie lemmas

    forall args, gen_X args = F.X args            closed by  reflexivity

(one per C / python assignment) which the harness compiles against the committed model.  A changed
constant, operator, operand, operand order, loop bound, loop kind, index expression or statement
order therefore changes a statement that is re-checked; anything the parser does not recognise
raises TranslateError (the tie is reported broken; the differential run still decides the property).

Conventions: C int variables (i, j, npts) that occur in double expressions are promoted exactly
(|value| < 2^53) and become float arguments ([nf] for npts); an int (op) int sub-expression inside
a double expression is rejected (its C meaning would be integer arithmetic).  C `/` on ints is
Z.quot.  numpy arrays are applied elementwise: `self.xxi`, `yvals`, `x[xm]` ... become one float.
"""
import ast
import os
import re


class TranslateError(Exception):
    pass


# ================================================================================ C front end
_TOK = re.compile(r"""
    (?P<num>(?:[0-9]+\.[0-9]*|\.[0-9]+|[0-9]+)(?:[eE][-+]?[0-9]+)?)
  | (?P<id>[A-Za-z_][A-Za-z_0-9]*)
  | (?P<op>\+\+|--|<=|>=|==|!=|&&|\|\||[-+*/()\[\]{}=;,<>!&.?:%])
  | (?P<ws>\s+)
""", re.X)


def c_strip_comments(src):
    src = re.sub(r"/\*.*?\*/", " ", src, flags=re.S)
    return re.sub(r"//[^\n]*", " ", src)


def c_tokens(src):
    out, pos = [], 0
    while pos < len(src):
        m = _TOK.match(src, pos)
        if not m:
            raise TranslateError("C: cannot tokenise at %r" % src[pos:pos + 30])
        pos = m.end()
        if m.lastgroup != "ws":
            out.append((m.lastgroup, m.group()))
    return out


class CParser:
    """statements:  lv = e ;   for (a;c;i) {..}   do {..} while (c);   while (c) {..}
    expressions: + - * / unary-, parentheses, literals, identifiers, a[e], f(e)"""

    def __init__(self, toks):
        self.t, self.i = toks, 0

    def peek(self, k=0):
        return self.t[self.i + k][1] if self.i + k < len(self.t) else None

    def kind(self):
        return self.t[self.i][0] if self.i < len(self.t) else None

    def eat(self, s=None):
        if self.i >= len(self.t):
            raise TranslateError("C: unexpected end of input")
        k, v = self.t[self.i]
        if s is not None and v != s:
            raise TranslateError("C: expected %r, found %r" % (s, v))
        self.i += 1
        return v

    # ---- statements
    def block(self):
        self.eat("{")
        out = []
        while self.peek() != "}":
            out.append(self.stmt())
        self.eat("}")
        return out

    def stmts_until_end(self):
        out = []
        while self.i < len(self.t):
            out.append(self.stmt())
        return out

    def stmt(self):
        p = self.peek()
        if p == "for":
            self.eat()
            self.eat("(")
            init = self.assign()
            self.eat(";")
            cond = self.cond()
            self.eat(";")
            incr = self.incr()
            self.eat(")")
            return ("for", init, cond, incr, self.block())
        if p == "do":
            self.eat()
            body = self.block()
            self.eat("while")
            self.eat("(")
            c = self.cond()
            self.eat(")")
            self.eat(";")
            return ("do", body, c)
        if p == "while":
            self.eat()
            self.eat("(")
            c = self.cond()
            self.eat(")")
            return ("while", c, self.block())
        a = self.assign()
        self.eat(";")
        return a

    def assign(self):
        lv = self.lvalue()
        self.eat("=")
        return ("set", lv, self.expr())

    def lvalue(self):
        if self.kind() != "id":
            raise TranslateError("C: expected an lvalue, found %r" % self.peek())
        name = self.eat()
        if self.peek() == "[":
            self.eat()
            idx = self.expr()
            self.eat("]")
            return ("idx", name, idx)
        return ("var", name)

    def incr(self):
        if self.peek() == "++":
            self.eat()
            return ("inc", self.eat())
        name = self.eat()
        self.eat("++")
        return ("inc", name)

    def cond(self):
        a = self.expr()
        op = self.eat()
        if op not in ("<", "<=", ">", ">="):
            raise TranslateError("C: comparison operator expected, found %r" % op)
        return ("cmp", op, a, self.expr())

    # ---- expressions (C precedence, left associative)
    def expr(self):
        a = self.term()
        while self.peek() in ("+", "-"):
            op = self.eat()
            a = ("bin", op, a, self.term())
        return a

    def term(self):
        a = self.unary()
        while self.peek() in ("*", "/"):
            op = self.eat()
            a = ("bin", op, a, self.unary())
        return a

    def unary(self):
        if self.peek() == "-":
            self.eat()
            return ("neg", self.unary())
        return self.atom()

    def atom(self):
        k, p = self.kind(), self.peek()
        if p == "(":
            self.eat()
            e = self.expr()
            self.eat(")")
            return e
        if k == "num":
            self.eat()
            isint = re.fullmatch(r"[0-9]+", p) is not None
            return ("int", int(p)) if isint else ("flt", float(p))
        if k == "id":
            self.eat()
            if self.peek() == "(":
                self.eat()
                arg = self.expr()
                self.eat(")")
                return ("call", p, arg)
            if self.peek() == "[":
                self.eat()
                idx = self.expr()
                self.eat("]")
                return ("idx", p, idx)
            return ("var", p)
        raise TranslateError("C: unexpected token %r in expression" % p)


def fl(x):
    x = float(x)
    if x != x or x in (float("inf"), float("-inf")):
        raise TranslateError("non-finite literal")
    return "(%s)%%float" % x.hex()


_FOP = {"+": "PrimFloat.add", "-": "PrimFloat.sub", "*": "PrimFloat.mul", "/": "PrimFloat.div"}
_ZOP = {"+": "Z.add", "-": "Z.sub", "*": "Z.mul", "/": "Z.quot"}


class CTypes:
    def __init__(self, ints, dbls, consts, rename):
        self.ints, self.dbls, self.consts, self.rename = set(ints), set(dbls), dict(consts), dict(rename)

    def is_int(self, e):
        t = e[0]
        if t == "int":
            return True
        if t == "var":
            return e[1] in self.ints
        if t == "bin":
            return self.is_int(e[2]) and self.is_int(e[3])
        if t == "neg":
            return self.is_int(e[1])
        return False

    def fexpr(self, e, used):
        """double-typed C expression -> Gallina float term; records the variables used"""
        t = e[0]
        if t == "flt":
            return fl(e[1])
        if t == "int":          # an int literal promoted to double
            return fl(e[1])
        if t == "var":
            n = e[1]
            if n in self.consts:
                return self.consts[n]
            if n not in self.ints and n not in self.dbls:
                raise TranslateError("C: undeclared variable %r" % n)
            n = self.rename.get(n, n)
            used.append(n)
            return n
        if t == "neg":
            return "(PrimFloat.opp %s)" % self.fexpr(e[1], used)
        if t == "bin":
            if self.is_int(e[2]) and self.is_int(e[3]):
                raise TranslateError("C: integer arithmetic %r inside a double expression (not in the translated subset)" % (e,))
            return "(%s %s %s)" % (_FOP[e[1]], self.fexpr(e[2], used), self.fexpr(e[3], used))
        if t == "call" and e[1] == "fabs":
            return "(PrimFloat.abs %s)" % self.fexpr(e[2], used)
        raise TranslateError("C: expression form %r is not in the translated subset" % (e,))

    def zexpr(self, e, used):
        t = e[0]
        if t == "int":
            return "(%d)%%Z" % e[1]
        if t == "var" and e[1] in self.ints:
            used.append(e[1])
            return e[1]
        if t == "bin":
            return "(%s %s %s)" % (_ZOP[e[1]], self.zexpr(e[2], used), self.zexpr(e[3], used))
        raise TranslateError("C: %r is not an int expression of the translated subset" % (e,))


def _decls(body, kw):
    """names (and initialisers) declared with type keyword kw in the function body"""
    out = {}
    for m in re.finditer(r"(?:^|[;{}])\s*%s\s+([^;()]*);" % kw, body):
        for item in m.group(1).split(","):
            item = item.strip()
            if not item:
                continue
            mm = re.fullmatch(r"(\*?)\s*([A-Za-z_]\w*)\s*(?:=\s*(.+))?", item)
            if not mm:
                raise TranslateError("C: cannot read declarator %r" % item)
            out[mm.group(2)] = (mm.group(1) == "*", mm.group(3))
    return out


def _expect(cond, what):
    if not cond:
        raise TranslateError("skeleton: " + what)


def translate_c(path):
    src = c_strip_comments(open(path).read())
    m = re.search(r"PyCGauleg_cgauleg\s*\([^)]*\)\s*\{", src)
    _expect(m is not None, "function PyCGauleg_cgauleg not found")
    depth, pos = 1, m.end()
    while depth and pos < len(src):
        depth += {"{": 1, "}": -1}.get(src[pos], 0)
        pos += 1
    body = src[m.end():pos - 1]
    dd, di, dl, dn = _decls(body, "double"), _decls(body, "int"), _decls(body, "long"), _decls(body, "npy_intp")
    ints = set(di) | set(dn) | set(dl)
    arrays = {n for n, (ptr, _) in dd.items() if ptr}
    dbls = {n for n, (ptr, _) in dd.items() if not ptr}
    _expect({"i", "j", "m"} <= set(di) and "npts" in dn, "int i, j, m / npy_intp npts declarations")
    _expect({"x", "w"} <= arrays, "double *x, *w declarations")
    _expect({"x1", "x2", "xm", "xl", "z1", "z", "p1", "p2", "p3", "pp", "pi", "EPS", "abszdiff"} <= dbls, "double declarations")
    _expect(re.search(r"PyArg_ParseTuple\s*\(\s*args\s*,\s*\(char\s*\*\)\s*\"ddl\"\s*,\s*&x1\s*,\s*&x2\s*,\s*&npts_long\s*\)", body) is not None,
            "argument parsing (x1, x2, npts)")
    _expect(re.search(r"npts\s*=\s*npts_long\s*;", body) is not None, "npts = npts_long")
    for arr, var in (("x", "xarray"), ("w", "warray")):
        _expect(re.search(r"%s\s*=\s*PyArray_ZEROS\s*\(\s*1\s*,\s*&npts\s*,\s*NPY_FLOAT64\s*,\s*0\s*\)" % var, body) is not None,
                "%s = PyArray_ZEROS(1,&npts,NPY_FLOAT64,0)" % var)
        _expect(re.search(r"\b%s\s*=\s*\(\s*double\s*\*\s*\)\s*PyArray_DATA\s*\(\s*%s\s*\)" % (arr, var), body) is not None,
                "%s = PyArray_DATA(%s)" % (arr, var))
    _expect(re.search(r"PyTuple_SetItem\s*\(\s*output_tuple\s*,\s*0\s*,\s*xarray\s*\)", body) is not None
            and re.search(r"PyTuple_SetItem\s*\(\s*output_tuple\s*,\s*1\s*,\s*warray\s*\)", body) is not None, "returned tuple (x, w)")
    pp_init = dd["pp"][1]
    _expect(pp_init is not None and re.fullmatch(r"[0-9.eE+-]+", pp_init) is not None, "pp has a literal initialiser")

    s0 = re.search(r"\bEPS\s*=", body)
    s1 = re.search(r"\boutput_tuple\s*=\s*PyTuple_New", body)
    _expect(s0 is not None and s1 is not None and s0.start() < s1.start(), "numeric part delimiters")
    prog = CParser(c_tokens(body[s0.start():s1.start()])).stmts_until_end()

    def setvar(st, name):
        _expect(st[0] == "set" and st[1] == ("var", name), "assignment to %s expected, found %r" % (name, st[:2]))
        return st[2]

    def lit(e, what):
        _expect(e[0] in ("flt", "int"), "%s is a literal" % what)
        return float(e[1])

    _expect(len(prog) == 7, "7 top-level statements in the numeric part (found %d)" % len(prog))
    EPS = lit(setvar(prog[0], "EPS"), "EPS")
    PI = lit(setvar(prog[1], "pi"), "pi")
    e_m, e_xm, e_xl = setvar(prog[2], "m"), setvar(prog[3], "xm"), setvar(prog[4], "xl")
    z1_init = lit(setvar(prog[5], "z1"), "initial z1")
    outer = prog[6]
    _expect(outer[0] == "for" and outer[1][:2] == ("set", ("var", "i")) and outer[1][2][0] == "int"
            and outer[2][0] == "cmp" and outer[2][1] in ("<=", "<") and outer[2][2] == ("var", "i") and outer[2][3] == ("var", "m")
            and outer[3] == ("inc", "i"),
            "outer loop  for (i=<int>; i <=|< m; ++i)   [first value, comparison and bound are translated]")
    ob = outer[4]
    if len(ob) == 7 and ob[1][0] == "set" and ob[1][1] == ("var", "abszdiff") and ob[2][0] == "while":
        raise TranslateError("skeleton: Newton loop is  abszdiff = fabs(z-z1); while (abszdiff > EPS) {...}  -- the UNREPAIRED form "
                             "(never entered for npts=1: weight inf); the model describes the repaired do {...} while loop")
    _expect(len(ob) == 6, "outer loop body: z=cos(..); do-while; 4 array writes (found %d statements)" % len(ob))
    e_z = setvar(ob[0], "z")
    _expect(e_z[0] == "call" and e_z[1] == "cos", "start value z = cos(...)")
    e_cosarg = e_z[2]
    dw = ob[1]
    _expect(dw[0] == "do", "Newton loop is  do { ... } while (...)  [the repaired loop]; found %r" % (dw[0],))
    _expect(dw[2][0] == "cmp" and dw[2][2] == ("var", "abszdiff") and dw[2][3] == ("var", "EPS"),
            "loop condition  abszdiff <op> EPS   [the operator is translated]")
    nb = dw[1]
    _expect(len(nb) == 7, "Newton body: p1, p2, for, pp, z1, z, abszdiff (found %d statements)" % len(nb))
    p1_init, p2_init = lit(setvar(nb[0], "p1"), "p1 init"), lit(setvar(nb[1], "p2"), "p2 init")
    inner = nb[2]
    _expect(inner[0] == "for" and inner[1][:2] == ("set", ("var", "j")) and inner[1][2][0] == "int"
            and inner[2][0] == "cmp" and inner[2][1] in ("<=", "<") and inner[2][2] == ("var", "j") and inner[2][3] == ("var", "npts")
            and inner[3] == ("inc", "j"),
            "inner loop  for (j=<int>; j <=|< npts; ++j)   [first value, comparison and bound are translated]")
    ib = inner[4]
    _expect(len(ib) == 3 and ib[0] == ("set", ("var", "p3"), ("var", "p2")) and ib[1] == ("set", ("var", "p2"), ("var", "p1")),
            "recurrence shifts p3=p2; p2=p1;")
    e_leg = setvar(ib[2], "p1")
    e_pp = setvar(nb[3], "pp")
    _expect(nb[4] == ("set", ("var", "z1"), ("var", "z")), "z1=z")
    e_znext = setvar(nb[5], "z")
    e_abs = setvar(nb[6], "abszdiff")

    def setidx(st, arr):
        _expect(st[0] == "set" and st[1][0] == "idx" and st[1][1] == arr, "write to %s[..] expected" % arr)
        return st[1][2], st[2]
    i_xlo, e_xlo = setidx(ob[2], "x")
    i_xhi, e_xhi = setidx(ob[3], "x")
    i_wlo, e_w = setidx(ob[4], "w")
    i_whi, e_wcopy = setidx(ob[5], "w")
    _expect(i_wlo == i_xlo and i_whi == i_xhi, "w is written at the same two positions as x")
    _expect(e_wcopy == ("idx", "w", i_wlo), "w[hi] = w[lo]")

    ty = CTypes(ints, dbls, {"pi": "gen_PI_C", "EPS": "gen_EPS"}, {"npts": "nf"})
    out = []           # (name, type signature, body, model term, args, proof)

    def fdef(name, args, e, model):
        used = []
        term = ty.fexpr(e, used)
        extra = sorted(set(used) - set(args))
        _expect(not extra, "%s: expression reads %r, the model's %s reads only %r" % (name, extra, model, args))
        missing = [a for a in args if a not in used]
        _expect(not missing, "%s: expression does not read %r" % (name, missing))
        out.append(("gen_" + name, " ".join("(%s : float)" % a for a in args), "float", term,
                    "F.%s %s" % (model, " ".join(args)), args, "reflexivity."))

    def const(name, v, model):
        out.append(("gen_" + name, "", "float", fl(v), "F." + model, [], "reflexivity."))

    const("EPS", EPS, "EPS")
    const("PI_C", PI, "PI_C")
    const("Z1_INIT", z1_init, "Z1_INIT")
    const("PP_INIT", float(pp_init), "PP_INIT")
    const("P1_INIT", p1_init, "P1_INIT")
    const("P2_INIT", p2_init, "P2_INIT")
    fdef("xm_of", ["x1", "x2"], e_xm, "xm_of")
    fdef("xl_of", ["x1", "x2"], e_xl, "xl_of")
    fdef("cos_arg", ["i", "nf"], e_cosarg, "cos_arg")
    fdef("leg_step", ["j", "z", "p2", "p3"], e_leg, "leg_step")
    fdef("pp_of", ["nf", "z", "p1", "p2"], e_pp, "pp_of")
    fdef("z_next", ["z1", "p1", "pp"], e_znext, "z_next")
    fdef("absdiff", ["z", "z1"], e_abs, "absdiff")
    fdef("x_lo", ["xm", "xl", "z"], e_xlo, "x_lo")
    fdef("x_hi", ["xm", "xl", "z"], e_xhi, "x_hi")
    fdef("w_of", ["xl", "z", "pp"], e_w, "w_of")
    used = []
    zm = ty.zexpr(e_m, used)
    _expect(set(used) == {"npts"}, "m depends on npts only")
    out.append(("gen_m_of", "(npts : Z)", "Z", zm, "F.m_of npts", ["npts"],
                "unfold gen_m_of, F.m_of. rewrite Z.quot_div_nonneg by lia. reflexivity.", "(0 < npts)%Z"))
    used = []
    zlo = ty.zexpr(i_xlo, used)
    _expect(set(used) == {"i"}, "low index depends on i only")
    out.append(("gen_idx_lo", "(i : Z)", "Z", zlo, "F.idx_lo i", ["i"], "reflexivity."))
    used = []
    zhi = ty.zexpr(i_xhi, used)
    _expect(set(used) == {"npts", "i"}, "high index depends on npts and i")
    out.append(("gen_idx_hi", "(npts i : Z)", "Z", zhi, "F.idx_hi npts i", ["npts", "i"], "reflexivity."))
    # ---- loop control (translated, not pinned): continuation test of the Newton loop, first values and trip counts
    fcmp = {">": "(PrimFloat.ltb %(r)s %(l)s)", "<": "(PrimFloat.ltb %(l)s %(r)s)",
            ">=": "(PrimFloat.leb %(r)s %(l)s)", "<=": "(PrimFloat.leb %(l)s %(r)s)"}
    out.append(("gen_continue_newton", "(abszdiff : float)", "bool", fcmp[dw[2][1]] % {"l": "abszdiff", "r": "gen_EPS"},
                "F.continue_newton abszdiff", ["abszdiff"], "reflexivity."))

    def trips(loop, hi_term):
        lo = loop[1][2][1]
        n = "(Z.sub %s (%d)%%Z)" % (hi_term, lo)
        return lo, ("(Z.add %s 1%%Z)" % n if loop[2][1] == "<=" else n)
    lo_i, t_i = trips(outer, "(gen_m_of npts)")
    lo_j, t_j = trips(inner, "npts")
    const("I_FIRST", float(lo_i), "I_FIRST")
    const("J_FIRST", float(lo_j), "J_FIRST")
    out.append(("gen_outer_trips", "(npts : Z)", "Z", t_i, "F.outer_trips npts", ["npts"],
                "unfold gen_outer_trips, gen_m_of, F.outer_trips, F.m_of. rewrite Z.quot_div_nonneg by lia. lia.", "(0 < npts)%Z"))
    out.append(("gen_inner_trips", "(npts : Z)", "Z", t_j, "F.inner_trips npts", ["npts"],
                "unfold gen_inner_trips, F.inner_trips. lia."))
    return out, {"EPS": EPS, "pi": PI}


# ================================================================================ python front end
def _func(tree, cls, name):
    body = tree.body
    if cls is not None:
        c = [n for n in body if isinstance(n, ast.ClassDef) and n.name == cls]
        _expect(len(c) == 1, "class %s found once" % cls)
        body = c[0].body
    f = [n for n in body if isinstance(n, ast.FunctionDef) and n.name == name]
    _expect(len(f) == 1, "def %s.%s found once" % (cls, name))
    return f[0]


def _nodoc(stmts):
    if stmts and isinstance(stmts[0], ast.Expr) and isinstance(getattr(stmts[0], "value", None), ast.Constant) \
            and isinstance(stmts[0].value.value, str):
        return stmts[1:]
    return stmts


def _dump(node):
    return ast.dump(node, annotate_fields=False, include_attributes=False)


def _same(stmts, text, what):
    """the statements are, up to formatting/comments, the python text the model was written for"""
    import textwrap
    want = [_dump(n) for n in ast.parse(textwrap.dedent(text)).body]
    got = [_dump(n) for n in stmts]
    if got != want:
        k = next((i for i, (a, b) in enumerate(zip(got, want)) if a != b), min(len(got), len(want)))
        raise TranslateError("skeleton: %s differs from the modelled code at statement %d (of %d/%d)" % (what, k + 1, len(got), len(want)))


class PyExpr:
    """python float expression -> Gallina; [names] maps source names/attributes/subscripts to arguments"""

    def __init__(self, names):
        self.names = names

    def key(self, e):
        if isinstance(e, ast.Name):
            return e.id
        if isinstance(e, ast.Attribute) and isinstance(e.value, ast.Name):
            return e.value.id + "." + e.attr
        if isinstance(e, ast.Subscript):
            return ast.unparse(e).replace(" ", "")
        if isinstance(e, ast.Call):
            return ast.unparse(e).replace(" ", "")
        return None

    def tr(self, e, used):
        k = self.key(e)
        if k is not None and k in self.names:
            used.append(self.names[k])
            return self.names[k]
        if isinstance(e, ast.Constant) and type(e.value) in (int, float):
            return fl(e.value)
        if isinstance(e, ast.BinOp):
            op = {ast.Add: "+", ast.Sub: "-", ast.Mult: "*", ast.Div: "/"}.get(type(e.op))
            if op is None:
                raise TranslateError("python: operator %s is not in the translated subset" % type(e.op).__name__)
            return "(%s %s %s)" % (_FOP[op], self.tr(e.left, used), self.tr(e.right, used))
        if isinstance(e, ast.UnaryOp) and isinstance(e.op, ast.USub):
            return "(PrimFloat.opp %s)" % self.tr(e.operand, used)
        raise TranslateError("python: expression %r is not in the translated subset" % ast.unparse(e))


def _assign_value(st, target):
    _expect(isinstance(st, ast.Assign) and len(st.targets) == 1 and ast.unparse(st.targets[0]) == target,
            "assignment to %s expected, found %r" % (target, ast.unparse(st)[:60]))
    return st.value


_EXC = {"ValueError": "EValue", "IndexError": "EIndex", "TypeError": "EType", "RuntimeError": "ERuntime", "KeyError": "EKey"}
_ZCMP = {ast.GtE: "(Z.leb %(r)s %(l)s)", ast.Gt: "(Z.ltb %(r)s %(l)s)", ast.Lt: "(Z.ltb %(l)s %(r)s)", ast.LtE: "(Z.leb %(l)s %(r)s)"}


def _exc_class(node, what):
    _expect(isinstance(node, ast.Raise) and isinstance(node.exc, ast.Call) and isinstance(node.exc.func, ast.Name)
            and node.exc.func.id in _EXC, "%s: raise <known exception class>(...)" % what)
    return _EXC[node.exc.func.id]


def _zexpr_py(e, names):
    """python int expression over the given names -> Gallina Z term"""
    k = ast.unparse(e).replace(" ", "")
    if k in names:
        return names[k]
    if isinstance(e, ast.Constant) and type(e.value) is int:
        return "(%d)%%Z" % e.value
    if isinstance(e, ast.BinOp) and type(e.op) in (ast.Add, ast.Sub):
        return "(%s %s %s)" % ("Z.add" if isinstance(e.op, ast.Add) else "Z.sub", _zexpr_py(e.left, names), _zexpr_py(e.right, names))
    raise TranslateError("python: int expression %r is not in the translated subset" % ast.unparse(e))


class QState:
    """symbolic execution of the QGauss methods that touch the cached rule (setup, __init__, the prologue of the
    integrators) into a Gallina term over the model's state record {st_npts; st_rule}.  Subset: `if X is not None:`,
    `if self.npts != X:`, `if self.npts is None: raise E(..)`, `self.npts = X`, `self.xxi = None` / `self.wii = None`
    (together: no rule), `self.xxi, self.wii = gauleg(a, b, self.npts)`, `self.setup(npts=X)`, ignorable `self.f2 = None`."""

    def __init__(self):
        self.std = None          # the interval literals passed to gauleg

    @staticmethod
    def rec(npts, rule):
        return "{| st_npts := %s; st_rule := %s |}" % (npts, rule)

    def block(self, stmts, st, env, rest):
        """st = (npts term : option Z, rule term : option T); env: python name -> ('opt', term) | ('z', term);
        rest(st) -> Gallina term for what follows"""
        if not stmts:
            return rest(st)
        h, t = stmts[0], stmts[1:]
        cont = lambda st2: self.block(t, st2, env, rest)        # noqa: E731
        if isinstance(h, ast.If) and not h.orelse:
            c = h.test
            if (isinstance(c, ast.Compare) and len(c.ops) == 1 and isinstance(c.ops[0], ast.IsNot) and isinstance(c.left, ast.Name)
                    and isinstance(c.comparators[0], ast.Constant) and c.comparators[0].value is None):
                v = c.left.id
                _expect(env.get(v, ("", ""))[0] == "opt", "`%s is not None` on an optional argument" % v)
                env2 = dict(env)
                env2[v] = ("z", v + "_v")
                return "(match %s with Some %s_v => %s | None => %s end)" % (
                    env[v][1], v, self.block(h.body, st, env2, cont), cont(st))
            if (isinstance(c, ast.Compare) and len(c.ops) == 1 and isinstance(c.ops[0], (ast.NotEq, ast.Eq))
                    and ast.unparse(c.left) == "self.npts" and isinstance(c.comparators[0], ast.Name)):
                v = c.comparators[0].id
                _expect(env.get(v, ("", ""))[0] == "z", "`self.npts != %s` with %s known to be an int here" % (v, v))
                eq = "(py_eq_optZ %s %s)" % (st[0], env[v][1])
                test = "(negb %s)" % eq if isinstance(c.ops[0], ast.NotEq) else eq
                return "(if %s then %s else %s)" % (test, self.block(h.body, st, env, cont), cont(st))
            if (isinstance(c, ast.Compare) and len(c.ops) == 1 and isinstance(c.ops[0], ast.Is) and ast.unparse(c.left) == "self.npts"
                    and isinstance(c.comparators[0], ast.Constant) and c.comparators[0].value is None and len(h.body) == 1):
                e = _exc_class(h.body[0], "guard on self.npts")
                return "(match %s with None => (%s, Some %s) | Some _ => %s end)" % (st[0], self.rec(*st), e, cont(st))
            raise TranslateError("python: condition %r is not in the translated subset" % ast.unparse(c))
        if isinstance(h, ast.Assign) and len(h.targets) == 1:
            tg = ast.unparse(h.targets[0])
            if tg == "self.npts":
                if isinstance(h.value, ast.Constant) and h.value.value is None:
                    return cont(("None", st[1]))
                _expect(isinstance(h.value, ast.Name) and env.get(h.value.id, ("", ""))[0] == "z", "self.npts = <int argument>")
                return cont(("(Some %s)" % env[h.value.id][1], st[1]))
            if tg in ("self.xxi", "self.wii") and isinstance(h.value, ast.Constant) and h.value.value is None:
                self.cleared = getattr(self, "cleared", set()) | {tg}
                return cont((st[0], "None") if self.cleared == {"self.xxi", "self.wii"} else st)
            if tg == "self.f2" and isinstance(h.value, ast.Constant) and h.value.value is None:
                return cont(st)                       # attribute never read
            if tg == "(self.xxi, self.wii)" or tg == "self.xxi, self.wii":
                v = h.value
                _expect(isinstance(v, ast.Call) and isinstance(v.func, ast.Name) and v.func.id == "gauleg" and len(v.args) == 3
                        and not v.keywords and ast.unparse(v.args[2]) == "self.npts", "self.xxi, self.wii = gauleg(a, b, self.npts)")
                lits = []
                for a in v.args[:2]:
                    neg = isinstance(a, ast.UnaryOp) and isinstance(a.op, ast.USub)
                    c0 = a.operand if neg else a
                    _expect(isinstance(c0, ast.Constant) and type(c0.value) in (int, float), "gauleg interval literal")
                    lits.append(-float(c0.value) if neg else float(c0.value))
                self.std = tuple(lits)
                _expect(st[0].startswith("(Some "), "self.npts is a known int when gauleg is called")
                k = st[0][len("(Some "):-1]
                return "(match G %s with Ok r => %s | Err e => (%s, Some e) end)" % (k, cont((st[0], "(Some r)")), self.rec(*st))
        if (isinstance(h, ast.Expr) and isinstance(h.value, ast.Call) and ast.unparse(h.value.func) == "self.setup"
                and not h.value.args and len(h.value.keywords) == 1 and h.value.keywords[0].arg == "npts"
                and isinstance(h.value.keywords[0].value, ast.Name)):
            v = h.value.keywords[0].value.id
            _expect(env.get(v, ("", ""))[0] == "opt", "self.setup(npts=<optional argument>)")
            return ("(match gen_setup G %s %s with (st1, Some e) => (st1, Some e) | (st1, None) => %s end)"
                    % (self.rec(*st), env[v][1], self.block(t, ("(st_npts st1)", "(st_rule st1)"), env, rest)))
        raise TranslateError("python: statement %r is not in the translated subset (object state)" % ast.unparse(h)[:70])


def translate_py_state(tree, out_raw):
    """QGauss.setup / __init__ / integrate / integrate_func+integrate_data prologues / qgauss -> Gallina, with ties"""
    done = lambda st: "(%s, None)" % QState.rec(*st)     # noqa: E731
    auto = ("intros; cbv beta delta [gen_setup gen_init gen_prologue_func gen_prologue_data setup q_init q_prologue q_none "
            "py_eq_optZ same_npts] ; repeat (match goal with |- context [match ?x with _ => _ end] => destruct x end; cbn); reflexivity.")
    # setup
    f = _func(tree, "QGauss", "setup")
    _expect([a.arg for a in f.args.args] == ["self", "npts"] and len(f.args.defaults) == 1
            and isinstance(f.args.defaults[0], ast.Constant) and f.args.defaults[0].value is None, "setup(self, npts=None)")
    q = QState()
    term = q.block(_nodoc(f.body), ("(st_npts st)", "(st_rule st)"), {"npts": ("opt", "npts")}, done)
    _expect(q.std is not None, "setup calls gauleg")
    out_raw.append({"def": "Definition gen_setup {T : Type} (G : Z -> result T) (st : @qstate T) (npts : option Z) : @qstate T * option err := %s." % term,
                    "stmt": "forall (T : Type) (G : Z -> result T) st npts, gen_setup G st npts = setup G st npts",
                    "proof": "intros T G [sn sr] npts; destruct npts as [n|]; [|reflexivity]; unfold gen_setup, setup, py_eq_optZ, same_npts; cbn; "
                             "destruct sn as [k|]; [destruct (Z.eqb k n)|]; cbn; try reflexivity; destruct (G n); reflexivity.",
                    "what": "gen_setup = setup (QGauss.setup, statement by statement)"})
    out_raw.append({"def": "Definition gen_STD : float * float := (%s, %s)." % (fl(q.std[0]), fl(q.std[1])),
                    "stmt": "gen_STD = (F.STD_A, F.STD_B)", "proof": "reflexivity.", "what": "gen_STD = (F.STD_A, F.STD_B)"})
    # __init__
    f = _func(tree, "QGauss", "__init__")
    _expect([a.arg for a in f.args.args] == ["self", "npts"] and len(f.args.defaults) == 1
            and isinstance(f.args.defaults[0], ast.Constant) and f.args.defaults[0].value is None, "__init__(self, npts=None)")
    q = QState()
    term = q.block(_nodoc(f.body), ("UNSET", "UNSET"), {"npts": ("opt", "npts")}, done)
    _expect("UNSET" not in term, "__init__ initialises self.npts, self.xxi and self.wii before anything reads them")
    out_raw.append({"def": "Definition gen_init {T : Type} (G : Z -> result T) (npts : option Z) : @qstate T * option err := %s." % term,
                    "stmt": "forall (T : Type) (G : Z -> result T) npts, gen_init G npts = q_init G npts",
                    "proof": "intros T G npts; unfold gen_init, q_init, q_none, gen_setup, setup, py_eq_optZ, same_npts; destruct npts as [n|]; cbn; "
                             "[destruct (G n); reflexivity | reflexivity].",
                    "what": "gen_init = q_init (QGauss.__init__)"})
    # prologues of the two integrators
    for meth, nm in (("integrate_func", "gen_prologue_func"), ("integrate_data", "gen_prologue_data")):
        f = _func(tree, "QGauss", meth)
        _expect([a.arg for a in f.args.args][0] == "self" and [a.arg for a in f.args.args][-1] == "npts" and len(f.args.defaults) == 1
                and isinstance(f.args.defaults[0], ast.Constant) and f.args.defaults[0].value is None, "%s(self, .., npts=None)" % meth)
        q = QState()
        term = q.block(_nodoc(f.body)[:2], ("(st_npts st)", "(st_rule st)"), {"npts": ("opt", "npts")}, done)
        out_raw.append({"def": "Definition %s {T : Type} (G : Z -> result T) (st : @qstate T) (npts : option Z) : @qstate T * option err := %s." % (nm, term),
                        "stmt": "forall (T : Type) (G : Z -> result T) st npts, %s G st npts = q_prologue G st npts" % nm,
                        "proof": "intros T G [sn sr] npts; unfold %s, q_prologue, gen_setup, setup, py_eq_optZ, same_npts; destruct npts as [n|]; cbn; "
                                 "[destruct sn as [k|]; [destruct (Z.eqb k n)|]; cbn; try reflexivity; destruct (G n); reflexivity | destruct sn; reflexivity]." % nm,
                        "what": "%s = q_prologue (QGauss.%s: setup, then ValueError without a count)" % (nm, meth)})
    # integrate: dispatch and forwarding of npts
    f = _func(tree, "QGauss", "integrate")
    _expect([a.arg for a in f.args.args] == ["self", "xvals", "yvals_or_func", "npts"] and len(f.args.defaults) == 1
            and isinstance(f.args.defaults[0], ast.Constant) and f.args.defaults[0].value is None, "integrate(self, xvals, yvals_or_func, npts=None)")
    b = _nodoc(f.body)
    _expect(len(b) == 1 and isinstance(b[0], ast.If) and len(b[0].body) == 1 and len(b[0].orelse) == 1
            and isinstance(b[0].body[0], ast.Return) and isinstance(b[0].orelse[0], ast.Return), "integrate: if <test>: return .. else: return ..")
    t = b[0].test
    _expect(isinstance(t, ast.Call) and isinstance(t.func, ast.Name) and t.func.id == "callable" and len(t.args) == 1
            and ast.unparse(t.args[0]) == "yvals_or_func", "dispatch test is callable(yvals_or_func)")

    def route(call):
        _expect(isinstance(call, ast.Call) and ast.unparse(call.func) in ("self.integrate_func", "self.integrate_data")
                and [ast.unparse(a) for a in call.args[:2]] == ["xvals", "yvals_or_func"], "return self.integrate_*(xvals, yvals_or_func, ..)")
        r = "RFunc" if call.func.attr == "integrate_func" else "RData"
        third = None
        if len(call.args) == 3:
            third = ast.unparse(call.args[2])
        for kw in call.keywords:
            if kw.arg == "npts":
                third = ast.unparse(kw.value)
        _expect(third in (None, "npts") and len(call.args) <= 3, "third argument is npts or omitted")
        return "(%s, %s)" % (r, "npts" if third == "npts" else "@None Z")
    term = "(if is_callable k then %s else %s)" % (route(b[0].body[0].value), route(b[0].orelse[0].value))
    out_raw.append({"def": "Definition gen_integrate_route (k : ykind) (npts : option Z) : route * option Z := %s." % term,
                    "stmt": "forall k npts, gen_integrate_route k npts = (dispatch false k, npts)",
                    "proof": "intros k npts; unfold gen_integrate_route, dispatch; destruct (is_callable k); reflexivity.",
                    "what": "gen_integrate_route = (dispatch, npts forwarded) (QGauss.integrate)"})
    # qgauss(x, y, npts): the count goes to the constructor, the call passes none
    f = _func(tree, None, "qgauss")
    _expect([a.arg for a in f.args.args] == ["x", "y", "npts"] and not f.args.defaults, "qgauss(x, y, npts)")
    b = _nodoc(f.body)
    _expect(len(b) == 2 and isinstance(b[0], ast.Assign) and isinstance(b[0].value, ast.Call) and ast.unparse(b[0].value.func) == "QGauss"
            and isinstance(b[1], ast.Return) and isinstance(b[1].value, ast.Call)
            and ast.unparse(b[1].value.func) == ast.unparse(b[0].targets[0]) + ".integrate"
            and [ast.unparse(a) for a in b[1].value.args[:2]] == ["x", "y"], "qgauss: obj = QGauss(..); return obj.integrate(x, y, ..)")

    def count_of(call, pos):
        v = None
        if len(call.args) > pos:
            v = ast.unparse(call.args[pos])
        for kw in call.keywords:
            if kw.arg == "npts":
                v = ast.unparse(kw.value)
        _expect(v in (None, "npts"), "count argument is npts or omitted")
        return "npts" if v == "npts" else "@None Z"
    term = "(%s, %s)" % (count_of(b[0].value, 0), count_of(b[1].value, 2))
    out_raw.append({"def": "Definition gen_qgauss_counts (npts : option Z) : option Z * option Z := %s." % term,
                    "stmt": "forall (T Arg Out : Type) (G : Z -> result T) (I : T -> Arg -> result Out) npts a, qgauss_fn G I npts a = "
                            "match q_init G (fst (gen_qgauss_counts npts)) with (_, Some e) => Err e "
                            "| (st, None) => snd (q_integrate G I st (snd (gen_qgauss_counts npts)) a) end",
                    "proof": "intros; reflexivity.", "what": "qgauss_fn = QGauss(count).integrate(.., no count) with gen_qgauss_counts (qgauss)"})


def translate_py(util_path, stat_path):
    out = []
    out_raw = RAW
    tree = ast.parse(open(util_path).read())

    def fdef(name, args, names, e, model):
        used = []
        term = PyExpr(names).tr(e, used)
        _expect(sorted(set(used)) == sorted(args), "%s reads %r, the model's %s reads %r" % (name, sorted(set(used)), model, args))
        out.append(("gen_" + name, " ".join("(%s : float)" % a for a in args), "float", term,
                    "F.%s %s" % (model, " ".join(args)), args, "reflexivity."))

    def _sec0():
        # ---- gauleg(x1, x2, npts): argument check, call of the extension
        g = _func(tree, None, "gauleg")
        _expect([a.arg for a in g.args.args] == ["x1", "x2", "npts"], "gauleg(x1, x2, npts)")
        _same(_nodoc(g.body), """
    if have_cgauleg:
        if npts <= 0:
            raise ValueError("npts should be > 0, got %s" % npts)
        x, w = _cgauleg.cgauleg(x1, x2, npts)
    else:
        raise ValueError("gauleg C++ extension not found")
    return x, w
    """, "gauleg wrapper")
        test = _nodoc(g.body)[0].body[0].test
        _expect(isinstance(test, ast.Compare) and len(test.ops) == 1 and isinstance(test.ops[0], ast.LtE)
                and isinstance(test.left, ast.Name) and test.left.id == "npts"
                and isinstance(test.comparators[0], ast.Constant) and type(test.comparators[0].value) is int, "npts <= <int>")
        out.append(("gen_reject_npts", "(npts : Z)", "bool", "(Z.leb npts (%d)%%Z)" % test.comparators[0].value,
                    "F.reject_npts npts", ["npts"], "reflexivity."))

    _section('gauleg wrapper', _sec0)

    def _sec1():
        # ---- qgauss, QGauss.__init__, setup, integrate and the integrators' prologues: TRANSLATED (translate_py_state)
        translate_py_state(tree, out_raw)
        out.append(("gen_REJECT_ERR", "", "err", _exc_class(_nodoc(_func(tree, None, "gauleg").body)[0].body[0].body[0], "gauleg wrapper"), "F.REJECT_ERR", [], "reflexivity."))

    _section('QGauss state methods', _sec1)

    def _sec2():
        # ---- QGauss.integrate_func
        f = _nodoc(_func(tree, "QGauss", "integrate_func").body)
        _expect(len(f) == 12, "QGauss.integrate_func has 12 statements (found %d)" % len(f))
        _same(f[2:5], """
    if len(xvals) != 2:
        raise ValueError("When integrating a function, send the " "x range [xmin,xmax] ")
    x1 = float(xvals[0])
    x2 = float(xvals[1])
    """, "QGauss.integrate_func (prologue; range ends converted to python floats)")
        fdef("f1_of", ["x1", "x2"], {"x1": "x1", "x2": "x2"}, _assign_value(f[5], "f1"), "f1_of")
        fdef("f2_of", ["x1", "x2"], {"x1": "x1", "x2": "x2"}, _assign_value(f[6], "f2"), "f2_of")
        fdef("xi_of", ["xxi", "f1", "f2"], {"self.xxi": "xxi", "f1": "f1", "f2": "f2"}, _assign_value(f[7], "xi"), "xi_of")
        _same(f[8:9], "yvals = func(xi)\n", "yvals = func(xi)")
        fdef("integrand_of", ["yvals", "wii"], {"yvals": "yvals", "self.wii": "wii"}, _assign_value(f[9], "integrand"), "integrand_of")
        _same(f[10:11], "isum = integrand.sum()\n", "isum = integrand.sum()")
        _expect(isinstance(f[11], ast.Return), "return f1 * isum")
        fdef("result_of", ["f1", "isum"], {"f1": "f1", "isum": "isum"}, f[11].value, "result_of")

    _section('QGauss.integrate_func', _sec2)

    def _sec3():
        # ---- QGauss.integrate_data
        d = _nodoc(_func(tree, "QGauss", "integrate_data").body)
        _expect(len(d) == 13, "QGauss.integrate_data has 13 statements (found %d)" % len(d))
        _same(d[2:6], """
    xvals = numpy.asarray(xvals, dtype="f8")
    yvals = numpy.asarray(yvals, dtype="f8")
    x1 = xvals.min()
    x2 = xvals.max()
    """, "QGauss.integrate_data (prologue; tables converted to float64)")
        d = d[:4] + d[6:]
        fdef("data_f1_of", ["x1", "x2"], {"x1": "x1", "x2": "x2"}, _assign_value(d[4], "f1"), "f1_of")
        fdef("data_f2_of", ["x1", "x2"], {"x1": "x1", "x2": "x2"}, _assign_value(d[5], "f2"), "f2_of")
        fdef("data_xi_of", ["xxi", "f1", "f2"], {"self.xxi": "xxi", "f1": "f1", "f2": "f2"}, _assign_value(d[6], "xi"), "xi_of")
        _same(d[7:8], "yi = stat.interplin(yvals, xvals, xi)\n", "yi = stat.interplin(yvals, xvals, xi)")
        fdef("data_integrand_of", ["yvals", "wii"], {"yi": "yvals", "self.wii": "wii"}, _assign_value(d[8], "integrand"), "integrand_of")
        _same(d[9:10], "isum = integrand.sum()\n", "isum = integrand.sum()")
        _expect(isinstance(d[10], ast.Return), "return f1 * isum")
        fdef("data_result_of", ["f1", "isum"], {"f1": "f1", "isum": "isum"}, d[10].value, "result_of")

    _section('QGauss.integrate_data', _sec3)

    def _sec4():
        # ---- QGauss2
        _same(_nodoc(_func(tree, "QGauss2", "__init__").body), "self.nx = nx\nself.ny = ny\nself._setup()\n", "QGauss2.__init__")
        s = _nodoc(_func(tree, "QGauss2", "_setup").body)
        _expect(len(s) == 8, "QGauss2._setup has 8 statements (found %d)" % len(s))
        _same(s[:5], """
    from numpy import ones, newaxis, meshgrid
    nx, ny = self.nx, self.ny
    x, wx = gauleg(-1.0, 1.0, nx)
    y, wy = gauleg(-1.0, 1.0, ny)
    self.xgrid, self.ygrid = meshgrid(x, y)
    """, "QGauss2._setup (rules and mesh: rows over y, columns over x)")
        names = {"ones((ny,nx))": "one", "wx[newaxis,:]": "wxj", "wy[:,newaxis]": "wyi"}
        pe = PyExpr(names)
        u1, u2 = [], []
        t_wx = pe.tr(_assign_value(s[5], "wxgrid"), u1)
        t_wy = pe.tr(_assign_value(s[6], "wygrid"), u2)
        _expect(sorted(u1) == ["one", "wxj"] and sorted(u2) == ["one", "wyi"],
                "weight grids are ones((ny, nx)) * wx[newaxis, :] and ones((ny, nx)) * wy[:, newaxis] (shape of the mesh)")
        u3 = []
        t_w = PyExpr({"wxgrid": "WX", "wygrid": "WY"}).tr(_assign_value(s[7], "self.wgrid"), u3)
        _expect(sorted(u3) == ["WX", "WY"], "self.wgrid = wxgrid * wygrid")
        one = fl(1.0)
        term = t_w.replace("WX", t_wx).replace("WY", t_wy).replace("one", one)
        out.append(("gen_wgrid_of", "(wxj : float) (wyi : float)", "float", term, "F.wgrid_of wxj wyi", ["wxj", "wyi"], "reflexivity."))

        q = _nodoc(_func(tree, "QGauss2", "integrate_func").body)
        _expect(len(q) == 15, "QGauss2.integrate_func has 15 statements (found %d)" % len(q))
        _same(q[:5], """
    if len(xrng) != 2 or len(yrng) != 2:
        raise ValueError("xrng and yrng should be 2-element")
    x1 = float(xrng[0])
    x2 = float(xrng[1])
    y1 = float(yrng[0])
    y2 = float(yrng[1])
    """, "QGauss2.integrate_func (prologue; range ends converted to python floats)")
        fdef("xf1_of", ["x1", "x2"], {"x1": "x1", "x2": "x2"}, _assign_value(q[5], "xf1"), "xf1_of")
        fdef("xf2_of", ["x1", "x2"], {"x1": "x1", "x2": "x2"}, _assign_value(q[6], "xf2"), "xf2_of")
        fdef("yf1_of", ["x1", "x2"], {"y1": "x1", "y2": "x2"}, _assign_value(q[7], "yf1"), "xf1_of")
        fdef("yf2_of", ["x1", "x2"], {"y1": "x1", "y2": "x2"}, _assign_value(q[8], "yf2"), "xf2_of")
        fdef("xgrid_of", ["g", "f1", "f2"], {"self.xgrid": "g", "xf1": "f1", "xf2": "f2"}, _assign_value(q[9], "xgrid"), "grid_of")
        fdef("ygrid_of", ["g", "f1", "f2"], {"self.ygrid": "g", "yf1": "f1", "yf2": "f2"}, _assign_value(q[10], "ygrid"), "grid_of")
        _same(q[11:12], "zvals = func(xgrid, ygrid)\n", "zvals = func(xgrid, ygrid)")
        fdef("integrand2_of", ["yvals", "wii"], {"zvals": "yvals", "self.wgrid": "wii"}, _assign_value(q[12], "integrand"), "integrand_of")
        _same(q[13:14], "isum = integrand.sum()\n", "isum = integrand.sum()")
        _expect(isinstance(q[14], ast.Return), "return xf1 * yf1 * isum")
        fdef("result2_of", ["xf1", "yf1", "isum"], {"xf1": "xf1", "yf1": "yf1", "isum": "isum"}, q[14].value, "result2_of")

    _section('QGauss2', _sec4)

    def _sec5():
        # ---- stat.interplin
        st = ast.parse(open(stat_path).read())
        ip = _nodoc(_func(st, None, "interplin").body)
        _expect(len(ip) == 10, "interplin has 10 statements (found %d)" % len(ip))
        _same(ip[:3], """
    v = np.atleast_1d(vin)
    x = np.atleast_1d(xin)
    u = np.atleast_1d(uin)
    """, "interplin (argument conversion)")
        _expect(isinstance(ip[9], ast.Return), "interplin returns the chord formula")
        # index selection, translated: xm = x.searchsorted(u) - 1; xm[xm >= size-1] = size-2; xm[xm < 0] = 0; xmp1 = xm + 1
        zn = {"x.searchsorted(u)": "ss", "x.size": "size", "xm": "xm"}
        t0 = _zexpr_py(_assign_value(ip[3], "xm"), zn)
        steps = []
        for wh, guard in ((ip[4], ip[5]), (ip[6], ip[7])):
            _expect(isinstance(wh, ast.Assign) and ast.unparse(wh.targets[0]) in ("(w,)", "w,") and isinstance(wh.value, ast.Call)
                    and ast.unparse(wh.value.func) == "np.where" and len(wh.value.args) == 1 and isinstance(wh.value.args[0], ast.Compare)
                    and len(wh.value.args[0].ops) == 1 and type(wh.value.args[0].ops[0]) in _ZCMP, "(w,) = np.where(xm <op> e)")
            cmp_ = wh.value.args[0]
            _expect(isinstance(guard, ast.If) and ast.unparse(guard.test).replace(" ", "") == "w.size>0" and len(guard.body) == 1 and not guard.orelse
                    and isinstance(guard.body[0], ast.Assign) and ast.unparse(guard.body[0].targets[0]) == "xm[w]", "if w.size > 0: xm[w] = e")
            cond = _ZCMP[type(cmp_.ops[0])] % {"l": _zexpr_py(cmp_.left, zn), "r": _zexpr_py(cmp_.comparators[0], zn)}
            steps.append("let xm := (if %s then %s else xm) in" % (cond, _zexpr_py(guard.body[0].value, zn)))
        out.append(("gen_interp_index_of", "(ss : Z) (size : Z)", "Z", "(let xm := %s in %s xm)" % (t0, " ".join(steps)),
                    "F.interp_index_of ss size", ["ss", "size"], "reflexivity."))
        out.append(("gen_xmp1", "(xm : Z)", "Z", _zexpr_py(_assign_value(ip[8], "xmp1"), zn), "(xm + 1)%Z", ["xm"], "reflexivity."))
        fdef("interp_formula", ["u", "x_m", "x_p", "v_m", "v_p"],
             {"u": "u", "x[xm]": "x_m", "x[xmp1]": "x_p", "v[xm]": "v_m", "v[xmp1]": "v_p"}, ip[9].value, "interp_formula")
    _section('stat.interplin', _sec5)

    return out


ERRORS = []       # (section, message) of the sections that failed closed in the last translate()


def _section(name, fn):
    """one source section: a failure is recorded and the other sections are still translated (their ties are
    still checked); the run reports every failed section as a broken tie"""
    try:
        fn()
    except TranslateError as e:
        ERRORS.append((name, str(e)))
    except (AttributeError, IndexError, KeyError, TypeError, ValueError, SyntaxError) as e:
        ERRORS.append((name, "unexpected source form (%s: %s)" % (type(e).__name__, e)))


RAW = []          # items with their own definition text / statement / proof (polymorphic state machine)


# ================================================================================ output
PREAMBLE = ("From Coq Require Import PrimFloat ZArith Lia.\nFrom EsVerif.Common Require Import Base.\n"
            "From EsVerif.C17 Require Import Model.\nLocal Open Scope Z_scope.\n"
            "(* python's == between (None or an int) and an int *)\n"
            "Definition py_eq_optZ (s : option Z) (n : Z) : bool := match s with Some k => Z.eqb k n | None => false end.\n")


def translate(impl_root):
    """-> (definitions text, [(lemma statement, proof script, what)], constants).  Raises TranslateError."""
    del RAW[:]
    del ERRORS[:]
    c_res = []
    _section("cgauleg_pywrap.c", lambda: c_res.append(translate_c(os.path.join(impl_root, "esutil", "integrate", "cgauleg_pywrap.c"))))
    c_items, consts = c_res[0] if c_res else ([], {})
    p_items = translate_py(os.path.join(impl_root, "esutil", "integrate", "util.py"),
                           os.path.join(impl_root, "esutil", "stat", "util.py"))
    defs, lemmas = [], []
    for it in c_items + p_items:
        name, sig, ty, term, model, args, proof = it[:7]
        guard = it[7] if len(it) > 7 else None
        defs.append("Definition %s %s : %s := %s." % (name, sig, ty, term))
        call = ("%s %s" % (name, " ".join(args))).strip()
        stmt = "%s = %s" % (call, model)
        if guard:
            stmt = "%s -> %s" % (guard, stmt)
        if args:
            stmt = "forall %s, %s" % (" ".join(args), stmt)
            if proof.startswith("unfold"):
                proof = "intros. " + proof
        lemmas.append((stmt, proof, "%s = %s" % (name, model.split()[0])))
    for it in RAW:
        defs.append(it["def"])
        lemmas.append((it["stmt"], it["proof"], it["what"]))
    return "\n".join(defs) + "\n", lemmas, consts


if __name__ == "__main__":
    import sys
    txt, lem, k = translate(sys.argv[1])
    print(PREAMBLE + txt)
    for st, pr, what in lem:
        print("Goal %s. Proof. %s Qed." % (st, pr))

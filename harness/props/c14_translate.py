"""T-const/T-skel for C14: read the assignment tables and constants of Binner.calc_stats out of
esutil/stat/util.py (python ast) and print them as Coq terms (kinds of coq/theories/C14/Model.v).

Fails closed: any statement or expression outside the recognised shapes raises TranslateError and
the run reports a broken tie.  Nothing is written into coq/theories: the tables are compared with
Model.v's inside Coq by the run (Exec.src_tables_agree), and Proofs.tables_are_the_model ties
Model.v's tables to the model the theorems are about.
"""
import ast
import os


class TranslateError(Exception):
    pass


def _u(node):
    return ast.unparse(node).replace(" ", "")


def _find_class_func(tree, cls, name):
    for n in tree.body:
        if isinstance(n, ast.ClassDef) and n.name == cls:
            fs = [m for m in n.body if isinstance(m, ast.FunctionDef) and m.name == name]
            if len(fs) == 1:
                return fs[0]
    raise TranslateError("%s.%s not found (or not unique)" % (cls, name))


def _is_none_test(test, attr):
    """`self.<attr> is not None`"""
    return _u(test) == "self.%sisnotNone" % attr


class _Branch:
    """symbolic reading of one branch of the loop body (single member / several members)"""

    def __init__(self, single):
        self.single = single
        self.env = {}          # local name or array name -> kind
        self.table = {}        # array name -> kind

    def expr(self, node, var):
        """kind of an expression; var = 'x' or 'y' (the variable the enclosing block is about)"""
        s = _u(node)
        if self.single:
            if s == "self.%s[w[0]]" % var:
                return "KDatum"
            if s in ("0", "0.0"):
                return "KZero"
            if s == "self.weights[w[0]]":
                return "KWeight"
            if s in ("1.0/np.sqrt(self.weights[w[0]])", "1/np.sqrt(self.weights[w[0]])"):
                return "KInvSqrtW"
            if s in ("self.x[w[0]]*self.weights[w[0]]", "self.weights[w[0]]*self.x[w[0]]"):
                return "KDatumTimesW"
        else:
            if s == "self.%s[w].mean()" % var:
                return "KMean"
            if s == "self.%s[w].std()" % var:
                return "KStd"
            if s == "np.median(self.%s[w])" % var:
                return "KMedian"
            if s == "self.weights[w].sum()":
                return "KWSum"
            if isinstance(node, ast.BinOp) and isinstance(node.op, ast.Div) and _u(node.right) == "np.sqrt(w.size)":
                if self.expr(node.left, var) == "KStd":
                    return "KErr"
        # alias: name, or array[i]
        if isinstance(node, ast.Name) and node.id in self.env:
            return self.env[node.id]
        if isinstance(node, ast.Subscript) and isinstance(node.value, ast.Name) and _u(node.slice) == "i" \
                and node.value.id in self.table and (node.value.id.lstrip("w").startswith(var) or
                                                     self.table[node.value.id] in ("KInvSqrtW", "KZero", "KWeight")):
            return self.table[node.value.id]    # a copy of the same variable's entry, or of one that depends on the weight only
        raise TranslateError("unrecognised expression in the %s-member branch: %s" %
                             ("single" if self.single else "several", ast.unparse(node)))

    def wmom_call(self, targets, call, var):
        """wm, we, ws = wmom(self.v[w], self.weights[w], sdev=True) / j1, we2 = wmom(..., calcerr=True)"""
        if not (isinstance(call.func, ast.Name) and call.func.id == "wmom" and len(call.args) == 2):
            raise TranslateError("unrecognised call: %s" % ast.unparse(call))
        if _u(call.args[0]) != "self.%s[w]" % var or _u(call.args[1]) != "self.weights[w]":
            raise TranslateError("wmom called on unexpected arguments: %s" % ast.unparse(call))
        kws = {k.arg: _u(k.value) for k in call.keywords}
        names = [t.id for t in targets]
        if kws == {"sdev": "True"} and len(names) == 3:
            kinds = ["KWMean", "KWErr", "KWStd"]
        elif kws == {"calcerr": "True"} and len(names) == 2:
            kinds = ["KWMean", "KWErr2"]
        else:
            raise TranslateError("wmom called with unexpected keywords: %s" % ast.unparse(call))
        for nme, k in zip(names, kinds):
            self.env[nme] = k

    def stmts(self, body, var="x"):
        for st in body:
            if isinstance(st, ast.If):
                if st.orelse:
                    raise TranslateError("unexpected else in the statistics loop: %s" % ast.unparse(st.test))
                if _is_none_test(st.test, "y"):
                    self.stmts(st.body, "y")
                elif _is_none_test(st.test, "weights"):
                    self.stmts(st.body, var)
                else:
                    raise TranslateError("unexpected condition in the statistics loop: %s" % ast.unparse(st.test))
            elif isinstance(st, ast.Assign) and len(st.targets) == 1:
                tg = st.targets[0]
                if isinstance(tg, ast.Tuple) and all(isinstance(e, ast.Name) for e in tg.elts) \
                        and isinstance(st.value, ast.Call):
                    self.wmom_call(tg.elts, st.value, var)
                elif isinstance(tg, ast.Subscript) and isinstance(tg.value, ast.Name) and _u(tg.slice) == "i":
                    if tg.value.id in self.table:
                        raise TranslateError("%s[i] assigned twice" % tg.value.id)
                    self.table[tg.value.id] = self.expr(st.value, var)
                else:
                    raise TranslateError("unrecognised assignment: %s" % ast.unparse(st))
            else:
                raise TranslateError("unrecognised statement in the statistics loop: %s" % ast.unparse(st))


UK = ["mean", "std", "err", "median"]
WK = ["mean", "std", "err", "err2"]


def _tables(br):
    t = br.table
    need = ["x" + k for k in UK] + ["y" + k for k in UK] + ["whist"] + ["wx" + k for k in WK] + ["wy" + k for k in WK]
    missing = [k for k in need if k not in t]
    extra = [k for k in t if k not in need]
    if missing or extra:
        raise TranslateError("per-bin arrays assigned in the loop differ from the expected set: missing %s extra %s" % (missing, extra))
    xu, yu = [t["x" + k] for k in UK], [t["y" + k] for k in UK]
    xw, yw = [t["wx" + k] for k in WK], [t["wy" + k] for k in WK]
    if xu != yu or xw != yw:
        raise TranslateError("the second variable is not treated like the first: %s vs %s, %s vs %s" % (xu, yu, xw, yw))
    return xu, t["whist"], xw


def _num(node):
    if isinstance(node, ast.Constant) and isinstance(node.value, (int, float)) and not isinstance(node.value, bool):
        return node.value
    if isinstance(node, ast.UnaryOp) and isinstance(node.op, ast.USub):
        return -_num(node.operand)
    raise TranslateError("not a numeric literal: %s" % ast.unparse(node))


def extract(src):
    tree = ast.parse(src)
    f = _find_class_func(tree, "Binner", "calc_stats")
    loops = [n for n in ast.walk(f) if isinstance(n, ast.For) and _u(n.iter) == "range(nhist)"]
    if len(loops) != 1:
        raise TranslateError("expected exactly one `for i in range(nhist)` loop, found %d" % len(loops))
    body = loops[0].body
    if not (len(body) == 1 and isinstance(body[0], ast.If) and _u(body[0].test) == "revind[i]!=revind[i+1]"
            and not body[0].orelse):
        raise TranslateError("loop body is not `if revind[i] != revind[i + 1]:`")
    inner = body[0].body
    if not (len(inner) == 2 and isinstance(inner[0], ast.Assign) and _u(inner[0]) == "w=revind[revind[i]:revind[i+1]]"
            and isinstance(inner[1], ast.If) and _u(inner[1].test) == "w.size==1"):
        raise TranslateError("expected `w = revind[revind[i]:revind[i+1]]` followed by `if w.size == 1:`")
    single, many = _Branch(True), _Branch(False)
    single.stmts(inner[1].body)
    many.stmts(inner[1].orelse)
    su, swh, sw = _tables(single)
    mu, mwh, mw = _tables(many)
    # constants
    sent = wh0 = cf = None
    for n in ast.walk(f):
        if isinstance(n, ast.Assign) and len(n.targets) == 1:
            t, v = _u(n.targets[0]), n.value
            if t == "xmean" and isinstance(v, ast.BinOp) and isinstance(v.op, ast.Sub) and _u(v.left) == "np.zeros(nhist)":
                sent = -_num(v.right)
            elif t == "whist[:]":
                wh0 = _num(v)
            elif t == "center" and isinstance(v, ast.BinOp) and isinstance(v.op, ast.Add) and _u(v.left) == "low" \
                    and isinstance(v.right, ast.BinOp) and isinstance(v.right.op, ast.Mult) \
                    and _u(v.right.right) == "self['binsize']":
                cf = _num(v.right.left)
    if sent is None or wh0 is None or cf is None:
        raise TranslateError("constants not found: sentinel=%r whist0=%r center factor=%r" % (sent, wh0, cf))
    # every other per-bin array must start as a copy of xmean (hence carry the sentinel)
    for n in ast.walk(f):
        if isinstance(n, ast.Assign) and len(n.targets) == 1 and isinstance(n.targets[0], ast.Name):
            nm = n.targets[0].id
            if nm in ("xstd", "xerr", "xmedian", "ymean", "ystd", "yerr", "ymedian", "whist", "wxmean", "wxstd", "wxerr",
                      "wxerr2", "wymean", "wystd", "wyerr", "wyerr2") and _u(n.value) != "xmean.copy()":
                raise TranslateError("%s is not initialised as xmean.copy(): %s" % (nm, ast.unparse(n.value)))
    return {"single_u": su, "single_whist": swh, "single_w": sw, "many_u": mu, "many_whist": mwh, "many_w": mw,
            "sentinel": sent, "whist0": wh0, "center_factor": cf}


def coq_term(c):
    from fractions import Fraction

    def q(v):
        fr = Fraction(v)
        return "(%d # %d)%%Q" % (fr.numerator, fr.denominator)

    def lst(l):
        return "[" + "; ".join(l) + "]"
    return "if src_tables_agree %s %s %s %s %s %s %s %s (%s)%%float then 0 else 1" % (
        lst(c["single_u"]), c["single_whist"], lst(c["single_w"]), lst(c["many_u"]), c["many_whist"], lst(c["many_w"]),
        q(c["sentinel"]), q(c["whist0"]), float(c["center_factor"]).hex())


def read(impl_dir):
    p = os.path.join(impl_dir, "esutil", "stat", "util.py")
    try:
        src = open(p).read()
    except OSError as e:
        raise TranslateError("cannot read %s: %s" % (p, e))
    try:
        return extract(src)
    except SyntaxError as e:
        raise TranslateError("util.py does not parse: %s" % e)

# ----------------------------------------------------------------------------- control skeleton
ERRS = {"ValueError": "EValue", "IndexError": "EIndex", "RuntimeError": "ERuntime", "TypeError": "EType", "KeyError": "EKey"}


def _raise_class(st):
    if isinstance(st, ast.Raise) and isinstance(st.exc, ast.Call) and isinstance(st.exc.func, ast.Name) \
            and st.exc.func.id in ERRS:
        return ERRS[st.exc.func.id]
    raise TranslateError("expected `raise <Error>(...)`, found: %s" % ast.unparse(st))


def _body(fn):
    """statements of a function without its docstring"""
    b = fn.body
    if b and isinstance(b[0], ast.Expr) and isinstance(b[0].value, ast.Constant) and isinstance(b[0].value.value, str):
        b = b[1:]
    return b


def _not_none(test):
    """`<name> is not None` -> name"""
    if isinstance(test, ast.Compare) and len(test.ops) == 1 and isinstance(test.ops[0], ast.IsNot) \
            and isinstance(test.comparators[0], ast.Constant) and test.comparators[0].value is None:
        return _u(test.left)
    return None


KW = {"nperbin": "KwNperbin", "binsize": "KwBinsize", "nbin": "KwNbin"}


def _fexpr(node, names):
    """float expression of the edge computation -> Model.fexpr"""
    s = _u(node)
    if s in names:
        return names[s]
    if isinstance(node, ast.Constant) and isinstance(node.value, (int, float)) and not isinstance(node.value, bool):
        return "(FConst (%s)%%float)" % float(node.value).hex()
    if isinstance(node, ast.BinOp) and isinstance(node.op, (ast.Add, ast.Mult)):
        return "(%s %s %s)" % ("FAdd" if isinstance(node.op, ast.Add) else "FMul", _fexpr(node.left, names), _fexpr(node.right, names))
    raise TranslateError("unrecognised edge expression: %s" % ast.unparse(node))


def extract_skel(src):
    tree = ast.parse(src)
    sk = {}
    # ---- Binner.__init__: the two length errors
    init = _find_class_func(tree, "Binner", "__init__")
    lens = []
    for n in ast.walk(init):
        if isinstance(n, ast.If) and _u(n.test) in ("self.y.size!=self.x.size", "self.weights.size!=self.x.size"):
            if len(n.body) != 1 or n.orelse:
                raise TranslateError("unexpected length check in Binner.__init__")
            lens.append((_u(n.test), _raise_class(n.body[0])))
    if [t for t, _ in lens] != ["self.y.size!=self.x.size", "self.weights.size!=self.x.size"]:
        raise TranslateError("Binner.__init__: expected the y and the weights length checks, found %s" % lens)
    sk["len_errors"] = "(%s, %s)" % (lens[0][1], lens[1][1])
    # ---- dohist
    dh = _body(_find_class_func(tree, "Binner", "dohist"))
    defaults = {a.arg: _u(d) for a, d in zip(_find_class_func(tree, "Binner", "dohist").args.args[1:],
                                             _find_class_func(tree, "Binner", "dohist").args.defaults)}
    if defaults != {"binsize": "None", "nbin": "None", "nperbin": "None", "min": "None", "max": "None", "rev": "False",
                    "mergelast": "True", "calc_stats": "True"}:
        raise TranslateError("dohist defaults changed: %s" % defaults)
    if len(dh) != 5:
        raise TranslateError("dohist: expected 5 statements, found %d" % len(dh))
    sk["clear_first"] = _u(dh[0]) == "self.clear()"
    sk["y_forces_rev"] = isinstance(dh[1], ast.If) and _not_none(dh[1].test) == "self.y" and _u(dh[1].body[0]) == "rev=True" \
        and len(dh[1].body) == 1 and not dh[1].orelse
    sk["limits_first"] = _u(dh[2]) == "self._get_minmax_and_indices(min=min,max=max)"
    chain = dh[3]
    if not (isinstance(chain, ast.If) and _not_none(chain.test) == "nperbin"
            and _u(chain.body[0]) == "self._hist_by_num(nperbin,mergelast=mergelast)" and len(chain.body) == 1
            and len(chain.orelse) == 1 and isinstance(chain.orelse[0], ast.If)):
        raise TranslateError("dohist: keyword chain does not start with `if nperbin is not None: self._hist_by_num(...)`")
    second = chain.orelse[0]
    if not (_u(second.test) in ("nbinisnotNoneorbinsizeisnotNone", "binsizeisnotNoneornbinisnotNone")
            and _u(second.body[0]) == "self._hist_by_binsize_or_nbin(binsize,nbin,rev)" and len(second.body) == 1
            and len(second.orelse) == 1):
        raise TranslateError("dohist: second link of the keyword chain changed: %s" % ast.unparse(second.test))
    sk["none_error"] = _raise_class(second.orelse[0])
    if not (isinstance(dh[4], ast.If) and _u(dh[4].test) == "calc_stats" and _u(dh[4].body[0]) == "self.calc_stats()"
            and len(dh[4].body) == 1 and not dh[4].orelse):
        raise TranslateError("dohist: expected `if calc_stats: self.calc_stats()` last")
    # ---- _hist_by_binsize_or_nbin: which of binsize / nbin is looked at first
    hb = _body(_find_class_func(tree, "Binner", "_hist_by_binsize_or_nbin"))
    c0 = hb[0]
    order = ["nperbin"]
    if not isinstance(c0, ast.If):
        raise TranslateError("_hist_by_binsize_or_nbin does not start with the keyword test")
    k1 = _not_none(c0.test)
    if k1 not in ("binsize", "nbin") or len(c0.orelse) != 1 or not isinstance(c0.orelse[0], ast.If):
        raise TranslateError("_hist_by_binsize_or_nbin: unexpected first test %s" % ast.unparse(c0.test))
    k2 = _not_none(c0.orelse[0].test)
    if {k1, k2} != {"binsize", "nbin"}:
        raise TranslateError("_hist_by_binsize_or_nbin: unexpected second test")
    order += [k1, k2]
    sk["binner_order"] = "[" + "; ".join(KW[k] for k in order) + "]"
    for branch, key in ((c0, k1), (c0.orelse[0], k2)):
        txt = [_u(t) for t in branch.body]
        want = (["binsize=float(binsize)", "nbin=np.int64((self.dmax-self.dmin)/binsize)+1"] if key == "binsize"
                else ["nbin=int(nbin)", "binsize=float(self.dmax-self.dmin)/nbin"])
        if txt != want:
            raise TranslateError("_hist_by_binsize_or_nbin: the %s branch computes %s" % (key, txt))
    # ---- _do_hist: weights force the reverse indices
    doh = _body(_find_class_func(tree, "Binner", "_do_hist"))
    sk["w_forces_rev"] = _u(doh[0]) == "dorev=rev" and isinstance(doh[1], ast.If) and _not_none(doh[1].test) == "self.weights" \
        and [_u(t) for t in doh[1].body] == ["dorev=True"] and not doh[1].orelse
    # ---- histogram(): default bin size, nbin drops it, more implies rev
    hf = [n for n in tree.body if isinstance(n, ast.FunctionDef) and n.name == "histogram"]
    if len(hf) != 1:
        raise TranslateError("top-level histogram not found")
    hf = hf[0]
    hd = {a.arg: d for a, d in zip(hf.args.args[-len(hf.args.defaults):], hf.args.defaults)}
    if _u(hd["nbin"]) != "None" or _u(hd["nperbin"]) != "None" or _u(hd["mergelast"]) != "True" or _u(hd["rev"]) != "False" \
            or _u(hd["more"]) != "False":
        raise TranslateError("histogram defaults changed")
    sk["hist_default_bs"] = "(%s)%%float" % float(_num(hd["binsize"])).hex()
    hb2 = _body(hf)
    sk["hist_nbin_over_bs"] = isinstance(hb2[0], ast.If) and _not_none(hb2[0].test) == "nbin" \
        and [_u(t) for t in hb2[0].body] == ["binsize=None"] and not hb2[0].orelse
    sk["more_forces_rev"] = isinstance(hb2[1], ast.If) and _u(hb2[1].test) == "more" \
        and [_u(t) for t in hb2[1].body] == ["rev=True"] and not hb2[1].orelse
    # ---- calc_stats: the tests on keys and the edges
    cs = _body(_find_class_func(tree, "Binner", "calc_stats"))
    if not (isinstance(cs[0], ast.If) and _u(cs[0].test) == "'hist'notinself" and len(cs[0].body) == 1):
        raise TranslateError("calc_stats does not start with the 'hist' test")
    sk["no_hist_error"] = _raise_class(cs[0].body[0])
    edge_if = [n for n in cs if isinstance(n, ast.If) and _u(n.test) == "'nperbin'inself"]
    if len(edge_if) != 1:
        raise TranslateError("calc_stats: `if \"nperbin\" in self` not found")
    e = edge_if[0]
    sk["num_skips_edges"] = len(e.body) == 1 and isinstance(e.body[0], ast.Pass)
    est = [t for t in e.orelse if isinstance(t, ast.Assign)]
    etxt = [_u(t.targets[0]) for t in est]
    if etxt != ["low", "low", "high", "center", "self[xpref+'low']", "self[xpref+'high']", "self[xpref+'center']"] \
            or _u(est[0].value) != "np.arange(nhist,dtype='f8')" or len(est) != len(e.orelse):
        raise TranslateError("calc_stats: edge block changed: %s" % etxt)
    sk["edges"] = "(%s, %s, %s)" % (
        _fexpr(est[1].value, {"self.dmin": "FDmin", "low": "FIdx", "self['binsize']": "FBs"}),
        _fexpr(est[2].value, {"low": "FLow", "self['binsize']": "FBs"}),
        _fexpr(est[3].value, {"low": "FLow", "self['binsize']": "FBs"}))
    for t, want in zip(est[4:], ("low", "high", "center")):
        if _u(t.value) != want:
            raise TranslateError("calc_stats stores %s under %s" % (ast.unparse(t.value), ast.unparse(t.targets[0])))
    rev_if = [n for n in cs if isinstance(n, ast.If) and _u(n.test) == "'rev'inself"]
    sk["stats_iff_rev"] = len(rev_if) == 1 and not rev_if[0].orelse and cs[-1] is rev_if[0]
    singles = [n for n in ast.walk(rev_if[0]) if isinstance(n, ast.If) and isinstance(n.test, ast.Compare)
               and _u(n.test.left) == "w.size"] if rev_if else []
    if len(singles) != 1 or not isinstance(singles[0].test.ops[0], ast.Eq):
        raise TranslateError("calc_stats: the single-member test changed")
    sk["single_size"] = "%d" % _num(singles[0].test.comparators[0])
    # ---- _hist_by_num / _merge_last: when the last bin is merged
    hn = _body(_find_class_func(tree, "Binner", "_hist_by_num"))
    last = hn[-1]
    sk["merge_if_last_differs"] = isinstance(last, ast.If) and _u(last.test) == "hist[-1]!=nperbinandmergelast" \
        and [_u(t) for t in last.body] == ["self._merge_last()"] and not last.orelse
    ml = _body(_find_class_func(tree, "Binner", "_merge_last"))
    guard = [n for n in ml if isinstance(n, ast.If)]
    if not (len(guard) == 1 and isinstance(guard[0].test, ast.Compare) and _u(guard[0].test.left) == "nbin"
            and isinstance(guard[0].test.ops[0], ast.Lt) and len(guard[0].body) == 1 and isinstance(guard[0].body[0], ast.Return)):
        raise TranslateError("_merge_last: guard `if nbin < K: return` not found")
    sk["merge_min"] = "%d" % _num(guard[0].test.comparators[0])
    # ---- _get_minmax_and_indices: the empty selection
    gm = _find_class_func(tree, "Binner", "_get_minmax_and_indices")
    es = [n for n in ast.walk(gm) if isinstance(n, ast.If) and _u(n.test) == "w.size==0"]
    if len(es) != 1 or len(es[0].body) != 1:
        raise TranslateError("_get_minmax_and_indices: the empty-selection test changed")
    sk["empty_sel_error"] = _raise_class(es[0].body[0])
    # ---- (P) statement sequences that are pinned, not translated: the remap loop and _merge_last's slicing
    pins = {
        "_hist_by_num": ["ind=np.arange(self['wsort'].size)", "inds=ind", "bsize=float(nperbin)", "indmax=ind[-1]", "indmin=0",
                         "nbin=np.int64((indmax-indmin)/bsize)+1", "f8ind=np.atleast_1d(ind).astype(np.float64)",
                         "hist,rev=self._do_hist(f8ind,0,inds,bsize,nbin,True)", "self['low']=np.zeros(nbin,dtype='f8')",
                         "self['high']=np.zeros(nbin,dtype='f8')",
                         "foriinrange(nbin):\nifrev[i]!=rev[i+1]:\nw=rev[rev[i]:rev[i+1]]\nw=self['wsort'][w]\nrev[rev[i]:rev[i+1]]=w\n"
                         "self['low'][i]=self.x[w[0]]\nself['high'][i]=self.x[w[-1]]",
                         "self['hist']=hist", "self['rev']=rev", "self['nperbin']=nperbin"],
        "_merge_last": ["rev=self['rev']", "nbin=self['hist'].size", None, "hist=self['hist'][0:nbin-1]", "low=self['low'][0:nbin-1]",
                        "high=self['high'][0:nbin-1]", "hist[-1]=self['hist'][-2]+self['hist'][-1]", "low[-1]=self['low'][-2]",
                        "high[-1]=self['high'][-1]", "r2=rev[0:rev.size-1]", "r2[nbin-1]=rev[nbin]", "r2[nbin:]=rev[nbin+1:]",
                        "r2[0:nbin]-=1", "self['hist']=hist", "self['rev']=r2", "self['low']=low", "self['high']=high"],
    }
    for name, want in pins.items():
        got = [_u(t) for t in _body(_find_class_func(tree, "Binner", name))]
        if name == "_hist_by_num":
            got = got[:-1]
        if len(got) != len(want) or any(w is not None and g != w for g, w in zip(got, want)):
            raise TranslateError("%s: the statement sequence changed (pinned, not translated)" % name)
    return sk


def skel_term(sk):
    b = lambda v: "true" if v else "false"      # noqa
    return ("if src_skel_agrees (mkSkel %s %s %s %s %s %s %s %s %s %s %s %s %s %s %s %s %s %s) then 0 else 1" % (
        b(sk["clear_first"]), b(sk["y_forces_rev"]), b(sk["w_forces_rev"]), b(sk["limits_first"]), sk["binner_order"],
        sk["none_error"], sk["hist_default_bs"], b(sk["hist_nbin_over_bs"]), b(sk["more_forces_rev"]), sk["edges"],
        b(sk["num_skips_edges"]), b(sk["stats_iff_rev"]), sk["no_hist_error"], sk["single_size"], sk["merge_min"],
        b(sk["merge_if_last_differs"]), sk["len_errors"], sk["empty_sel_error"]))


def read_skel(impl_dir):
    p = os.path.join(impl_dir, "esutil", "stat", "util.py")
    try:
        return extract_skel(open(p).read())
    except OSError as e:
        raise TranslateError("cannot read %s: %s" % (p, e))
    except SyntaxError as e:
        raise TranslateError("util.py does not parse: %s" % e)
    except (IndexError, KeyError, AttributeError) as e:
        raise TranslateError("util.py no longer has the expected shape (%s: %s)" % (type(e).__name__, e))

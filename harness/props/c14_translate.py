"""T-const/T-skel for C14: read the assignment tables and constants of Binner.calc_stats out of
esutil/stat/util.py (python ast) and print them as Coq terms (kinds of coq/theories/C14/Model.v).

Fails closed: any statement or expression outside the recognised shapes raises TranslateError and
the run reports a broken tie.  Nothing is written into coq/theories: the tables are compared with
Model.v's inside Coq by the run (Exec.src_tables_agree), and Proofs.tables_are_the_model ties
Model.v's tables to the model the theorems are about.
"""
import ast
import os


class TranslateError(Exception):
    pass


def _u(node):
    return ast.unparse(node).replace(" ", "")


def _find_class_func(tree, cls, name):
    for n in tree.body:
        if isinstance(n, ast.ClassDef) and n.name == cls:
            fs = [m for m in n.body if isinstance(m, ast.FunctionDef) and m.name == name]
            if len(fs) == 1:
                return fs[0]
    raise TranslateError("%s.%s not found (or not unique)" % (cls, name))


def _is_none_test(test, attr):
    """`self.<attr> is not None`"""
    return _u(test) == "self.%sisnotNone" % attr


class _Branch:
    """symbolic reading of one branch of the loop body (single member / several members)"""

    def __init__(self, single):
        self.single = single
        self.env = {}          # local name or array name -> kind
        self.table = {}        # array name -> kind

    def expr(self, node, var):
        """kind of an expression; var = 'x' or 'y' (the variable the enclosing block is about)"""
        s = _u(node)
        if self.single:
            if s == "self.%s[w[0]]" % var:
                return "KDatum"
            if s in ("0", "0.0"):
                return "KZero"
            if s == "self.weights[w[0]]":
                return "KWeight"
            if s in ("1.0/np.sqrt(self.weights[w[0]])", "1/np.sqrt(self.weights[w[0]])"):
                return "KInvSqrtW"
            if s in ("self.x[w[0]]*self.weights[w[0]]", "self.weights[w[0]]*self.x[w[0]]"):
                return "KDatumTimesW"
        else:
            if s == "self.%s[w].mean()" % var:
                return "KMean"
            if s == "self.%s[w].std()" % var:
                return "KStd"
            if s == "np.median(self.%s[w])" % var:
                return "KMedian"
            if s == "self.weights[w].sum()":
                return "KWSum"
            if isinstance(node, ast.BinOp) and isinstance(node.op, ast.Div) and _u(node.right) == "np.sqrt(w.size)":
                if self.expr(node.left, var) == "KStd":
                    return "KErr"
        # alias: name, or array[i]
        if isinstance(node, ast.Name) and node.id in self.env:
            return self.env[node.id]
        if isinstance(node, ast.Subscript) and isinstance(node.value, ast.Name) and _u(node.slice) == "i" \
                and node.value.id in self.table and (node.value.id.lstrip("w").startswith(var) or
                                                     self.table[node.value.id] in ("KInvSqrtW", "KZero", "KWeight")):
            return self.table[node.value.id]    # a copy of the same variable's entry, or of one that depends on the weight only
        raise TranslateError("unrecognised expression in the %s-member branch: %s" %
                             ("single" if self.single else "several", ast.unparse(node)))

    def wmom_call(self, targets, call, var):
        """wm, we, ws = wmom(self.v[w], self.weights[w], sdev=True) / j1, we2 = wmom(..., calcerr=True)"""
        if not (isinstance(call.func, ast.Name) and call.func.id == "wmom" and len(call.args) == 2):
            raise TranslateError("unrecognised call: %s" % ast.unparse(call))
        if _u(call.args[0]) != "self.%s[w]" % var or _u(call.args[1]) != "self.weights[w]":
            raise TranslateError("wmom called on unexpected arguments: %s" % ast.unparse(call))
        kws = {k.arg: _u(k.value) for k in call.keywords}
        names = [t.id for t in targets]
        if kws == {"sdev": "True"} and len(names) == 3:
            kinds = ["KWMean", "KWErr", "KWStd"]
        elif kws == {"calcerr": "True"} and len(names) == 2:
            kinds = ["KWMean", "KWErr2"]
        else:
            raise TranslateError("wmom called with unexpected keywords: %s" % ast.unparse(call))
        for nme, k in zip(names, kinds):
            self.env[nme] = k

    def stmts(self, body, var="x"):
        for st in body:
            if isinstance(st, ast.If):
                if st.orelse:
                    raise TranslateError("unexpected else in the statistics loop: %s" % ast.unparse(st.test))
                if _is_none_test(st.test, "y"):
                    self.stmts(st.body, "y")
                elif _is_none_test(st.test, "weights"):
                    self.stmts(st.body, var)
                else:
                    raise TranslateError("unexpected condition in the statistics loop: %s" % ast.unparse(st.test))
            elif isinstance(st, ast.Assign) and len(st.targets) == 1:
                tg = st.targets[0]
                if isinstance(tg, ast.Tuple) and all(isinstance(e, ast.Name) for e in tg.elts) \
                        and isinstance(st.value, ast.Call):
                    self.wmom_call(tg.elts, st.value, var)
                elif isinstance(tg, ast.Subscript) and isinstance(tg.value, ast.Name) and _u(tg.slice) == "i":
                    if tg.value.id in self.table:
                        raise TranslateError("%s[i] assigned twice" % tg.value.id)
                    self.table[tg.value.id] = self.expr(st.value, var)
                else:
                    raise TranslateError("unrecognised assignment: %s" % ast.unparse(st))
            else:
                raise TranslateError("unrecognised statement in the statistics loop: %s" % ast.unparse(st))


UK = ["mean", "std", "err", "median"]
WK = ["mean", "std", "err", "err2"]


def _tables(br):
    t = br.table
    need = ["x" + k for k in UK] + ["y" + k for k in UK] + ["whist"] + ["wx" + k for k in WK] + ["wy" + k for k in WK]
    missing = [k for k in need if k not in t]
    extra = [k for k in t if k not in need]
    if missing or extra:
        raise TranslateError("per-bin arrays assigned in the loop differ from the expected set: missing %s extra %s" % (missing, extra))
    xu, yu = [t["x" + k] for k in UK], [t["y" + k] for k in UK]
    xw, yw = [t["wx" + k] for k in WK], [t["wy" + k] for k in WK]
    if xu != yu or xw != yw:
        raise TranslateError("the second variable is not treated like the first: %s vs %s, %s vs %s" % (xu, yu, xw, yw))
    return xu, t["whist"], xw


def _num(node):
    if isinstance(node, ast.Constant) and isinstance(node.value, (int, float)) and not isinstance(node.value, bool):
        return node.value
    if isinstance(node, ast.UnaryOp) and isinstance(node.op, ast.USub):
        return -_num(node.operand)
    raise TranslateError("not a numeric literal: %s" % ast.unparse(node))


def extract(src):
    tree = ast.parse(src)
    f = _find_class_func(tree, "Binner", "calc_stats")
    loops = [n for n in ast.walk(f) if isinstance(n, ast.For) and _u(n.iter) == "range(nhist)"]
    if len(loops) != 1:
        raise TranslateError("expected exactly one `for i in range(nhist)` loop, found %d" % len(loops))
    body = loops[0].body
    if not (len(body) == 1 and isinstance(body[0], ast.If) and _u(body[0].test) == "revind[i]!=revind[i+1]"
            and not body[0].orelse):
        raise TranslateError("loop body is not `if revind[i] != revind[i + 1]:`")
    inner = body[0].body
    if not (len(inner) == 2 and isinstance(inner[0], ast.Assign) and _u(inner[0]) == "w=revind[revind[i]:revind[i+1]]"
            and isinstance(inner[1], ast.If) and _u(inner[1].test) == "w.size==1"):
        raise TranslateError("expected `w = revind[revind[i]:revind[i+1]]` followed by `if w.size == 1:`")
    single, many = _Branch(True), _Branch(False)
    single.stmts(inner[1].body)
    many.stmts(inner[1].orelse)
    su, swh, sw = _tables(single)
    mu, mwh, mw = _tables(many)
    # constants
    sent = wh0 = cf = None
    for n in ast.walk(f):
        if isinstance(n, ast.Assign) and len(n.targets) == 1:
            t, v = _u(n.targets[0]), n.value
            if t == "xmean" and isinstance(v, ast.BinOp) and isinstance(v.op, ast.Sub) and _u(v.left) == "np.zeros(nhist)":
                sent = -_num(v.right)
            elif t == "whist[:]":
                wh0 = _num(v)
            elif t == "center" and isinstance(v, ast.BinOp) and isinstance(v.op, ast.Add) and _u(v.left) == "low" \
                    and isinstance(v.right, ast.BinOp) and isinstance(v.right.op, ast.Mult) \
                    and _u(v.right.right) == "self['binsize']":
                cf = _num(v.right.left)
    if sent is None or wh0 is None or cf is None:
        raise TranslateError("constants not found: sentinel=%r whist0=%r center factor=%r" % (sent, wh0, cf))
    # every other per-bin array must start as a copy of xmean (hence carry the sentinel)
    for n in ast.walk(f):
        if isinstance(n, ast.Assign) and len(n.targets) == 1 and isinstance(n.targets[0], ast.Name):
            nm = n.targets[0].id
            if nm in ("xstd", "xerr", "xmedian", "ymean", "ystd", "yerr", "ymedian", "whist", "wxmean", "wxstd", "wxerr",
                      "wxerr2", "wymean", "wystd", "wyerr", "wyerr2") and _u(n.value) != "xmean.copy()":
                raise TranslateError("%s is not initialised as xmean.copy(): %s" % (nm, ast.unparse(n.value)))
    return {"single_u": su, "single_whist": swh, "single_w": sw, "many_u": mu, "many_whist": mwh, "many_w": mw,
            "sentinel": sent, "whist0": wh0, "center_factor": cf}


def coq_term(c):
    from fractions import Fraction

    def q(v):
        fr = Fraction(v)
        return "(%d # %d)%%Q" % (fr.numerator, fr.denominator)

    def lst(l):
        return "[" + "; ".join(l) + "]"
    return "if src_tables_agree %s %s %s %s %s %s %s %s (%s)%%float then 0 else 1" % (
        lst(c["single_u"]), c["single_whist"], lst(c["single_w"]), lst(c["many_u"]), c["many_whist"], lst(c["many_w"]),
        q(c["sentinel"]), q(c["whist0"]), float(c["center_factor"]).hex())


def read(impl_dir):
    p = os.path.join(impl_dir, "esutil", "stat", "util.py")
    try:
        src = open(p).read()
    except OSError as e:
        raise TranslateError("cannot read %s: %s" % (p, e))
    try:
        return extract(src)
    except SyntaxError as e:
        raise TranslateError("util.py does not parse: %s" % e)

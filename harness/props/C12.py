"""C12 — HTM matching returns exactly the pairs within the search radius (DESIGN.md section 7, C12).

Per case the REAL esutil is run (HTM.match / Matcher.match / read_pairs) and Coq evaluates
  agree = the model of Matcher::match (C12/Model.v), fed with the real code's own triangle ids
          (lookup_id), circle covers (intersect) and distances, returns the same rows (up to the
          order of equal distances, which std::sort leaves open);
  ok    = the verified checker C12.Spec.check_match accepts the implementation's rows against
          TRUE separations computed independently with 60 digits (harness/props/c12_oracle.py).
Distances are exchanged as exact integers in units of 1e-9 * 2^-E degree.
"""
import hashlib
import json
import math
import os
import re
import subprocess
import sys
import tempfile
import time
from fractions import Fraction

from .. import core
from ..core import cbool
from ..runner import Entry, differential
from . import c12_translate

PRE = ("From Coq Require Import Uint63.\nFrom EsVerif.Common Require Import Base.\n"
       "From EsVerif.C12 Require Import Model Spec Exec.\nOpen Scope uint63_scope.\n")
ORACLE = os.path.join(os.path.dirname(os.path.abspath(__file__)), "c12_oracle.py")
TOL = 1e-9                       # degrees; the only tolerance the property text grants
COST = 8000.0                    # radius[deg] * 2^depth is kept below this (size of the id lists)

# ----------------------------------------------------------------------------
# exact unit conversion
# ----------------------------------------------------------------------------


def _expo(x):
    """smallest E >= 0 with x * 2^E an integer (x a finite float)"""
    return Fraction(float(x)).denominator.bit_length() - 1


def _units(x, E):
    fr = Fraction(float(x)) * (10 ** 9 << E)
    assert fr.denominator == 1, (x, E)
    return fr.numerator


def _units_dec(s, E):
    """decimal string (oracle) -> nearest integer number of units"""
    return round(Fraction(s) * (10 ** 9 << E))


def zl(n):
    """small (possibly negative) integer as a plain Z literal"""
    return "(%d)" % n if n < 0 else "%d" % n


_B = 1 << 62


def limbs(n):
    """non-negative integer -> little-endian limbs in base 2^62 (primitive integer literals)"""
    assert n >= 0, n
    out = []
    while True:
        out.append(n % _B)
        n //= _B
        if n == 0:
            break
    return "[" + ";".join(map(str, out)) + "]"


def zlist(xs):
    return "(zls [" + "; ".join(limbs(x) for x in xs) + "])"


def zmat(m):
    return "(zmat [" + "; ".join("[" + "; ".join(limbs(x) for x in r) + "]" for r in m) + "])"


# ----------------------------------------------------------------------------
# true separations: independent oracle (mpmath, 60 digits, tooling interpreter)
# ----------------------------------------------------------------------------

_ORACLE_CACHE = {}
_ORACLE_NOTE = []


def _okey(c):
    return hashlib.sha1(json.dumps([c["ra1"], c["dec1"], c["ra2"], c["dec2"]]).encode()).hexdigest()


def _fallback_oracle(p):
    """extended-precision (x87, 64-bit mantissa) evaluation; used only when the tooling
    interpreter is unavailable (a note is then written into the evidence)"""
    import numpy as np
    L = np.longdouble
    pi = L("3.14159265358979323846264338327950288")

    def unit(ra, dec):
        r, d = L(ra) * pi / 180, L(dec) * pi / 180
        return (np.cos(d) * np.cos(r), np.cos(d) * np.sin(r), np.sin(d))
    rows = []
    for a1, d1 in zip(p["ra1"], p["dec1"]):
        x1, y1, z1 = unit(a1, d1)
        row = []
        for a2, d2 in zip(p["ra2"], p["dec2"]):
            if a1 == a2 and d1 == d2:
                row.append("0")
                continue
            x2, y2, z2 = unit(a2, d2)
            cx, cy, cz_ = y1 * z2 - z1 * y2, z1 * x2 - x1 * z2, x1 * y2 - y1 * x2
            ang = np.arctan2(np.sqrt(cx * cx + cy * cy + cz_ * cz_), x1 * x2 + y1 * y2 + z1 * z2) * 180 / pi
            row.append(np.format_float_scientific(ang, precision=22, unique=False))
        rows.append(row)
    return rows


def oracle_fill(cases, workdir):
    todo, seen = [], set()
    for c in cases:
        k = _okey(c)
        if k not in _ORACLE_CACHE and k not in seen and len(c["ra1"]) == len(c["dec1"]) and len(c["ra2"]) == len(c["dec2"]):
            seen.add(k)
            todo.append((k, {"ra1": c["ra1"], "dec1": c["dec1"], "ra2": c["ra2"], "dec2": c["dec2"]}))
    if not todo:
        return
    os.makedirs(workdir, exist_ok=True)
    fin = tempfile.mktemp(prefix="oracle_in_", suffix=".json", dir=workdir)
    fout = fin.replace("oracle_in_", "oracle_out_")
    json.dump([p for _, p in todo], open(fin, "w"))
    res = None
    try:
        env = {k: v for k, v in os.environ.items() if not k.startswith("PYTHON")}
        r = subprocess.run(["python3-vt", ORACLE, fin, fout, str(core.NCPU)], env=env, timeout=3000,
                           stdout=subprocess.PIPE, stderr=subprocess.STDOUT, text=True)
        if r.returncode == 0:
            res = json.load(open(fout))
        else:
            _ORACLE_NOTE.append("mpmath oracle failed: " + r.stdout[-300:])
    except Exception as e:  # noqa
        _ORACLE_NOTE.append("mpmath oracle unavailable: %s" % e)
    if res is None:
        _ORACLE_NOTE.append("fallback oracle (x87 extended precision) used for %d problems" % len(todo))
        res = [_fallback_oracle(p) for _, p in todo]
    for (k, _), m in zip(todo, res):
        _ORACLE_CACHE[k] = m
    for f in (fin, fout):
        if os.path.exists(f):
            os.unlink(f)


def oracle(c, workdir=None):
    k = _okey(c)
    if k not in _ORACLE_CACHE:
        oracle_fill([c], workdir or tempfile.gettempdir())
    return _ORACLE_CACHE[k]


# ----------------------------------------------------------------------------
# point generators (all randomness from ctx.rng)
# ----------------------------------------------------------------------------

def _norm(ra, dec):
    dec = max(-90.0, min(90.0, dec))
    ra = ra % 360.0
    return float(ra), float(dec)


def sph_uniform(r):
    return _norm(r.uniform(0, 360), math.degrees(math.asin(r.uniform(-1, 1))))


def cap_point(r, ra0, dec0, size):
    """a point within `size` degrees of (ra0, dec0) (roughly uniform in the cap)"""
    th = size * math.sqrt(r.random())
    ph = r.uniform(0, 2 * math.pi)
    if abs(dec0) == 90.0:
        return _norm(math.degrees(ph), dec0 - math.copysign(th, dec0))
    if size < 0.5 and abs(dec0) < 85:
        return _norm(ra0 + th * math.sin(ph) / math.cos(math.radians(dec0)), dec0 + th * math.cos(ph))
    d0, t = math.radians(dec0), math.radians(th)
    sd = math.sin(d0) * math.cos(t) + math.cos(d0) * math.sin(t) * math.cos(ph)
    sd = max(-1.0, min(1.0, sd))
    dec = math.asin(sd)
    ra = math.radians(ra0) + math.atan2(math.sin(ph) * math.sin(t) * math.cos(d0), math.cos(t) - math.sin(d0) * sd)
    return _norm(math.degrees(ra), math.degrees(dec))


def logu(r, lo, hi):
    return 10 ** r.uniform(math.log10(lo), math.log10(hi))


def max_depth_for(rad):
    rad = max(rad, 1e-3)
    return max(1, min(13, int(math.floor(math.log2(COST / rad)))))


FAMILIES = ["uniform", "cap", "npole", "spole", "seam", "duplicates", "self", "edges", "deepedge", "tiny",
            "antipodal", "radius0", "perpoint", "threshold", "dtypes", "reprows"]
LAYOUTS = ["plain", "swapped", "strided", "negstride", "list"]


def _radec(v):
    n = math.sqrt(sum(x * x for x in v))
    v = [x / n for x in v]
    return _norm(math.degrees(math.atan2(v[1], v[0])), math.degrees(math.asin(max(-1.0, min(1.0, v[2])))))


def find_edge(r, depth):
    """a point X (unit vector) on an edge between two triangles of the given depth, located by
    bisection of the real lookup_id along a random arc, and the unit tangent t of that arc at X
    (t crosses the edge).  Generic edges of deep triangles, not only the great circles of the
    root triangles."""
    import numpy as np
    import esutil.htm as htm
    h = htm.HTM(depth)

    def lid(v):
        a, d = _radec(v)
        return int(h.lookup_id(np.array([a]), np.array([d]))[0])
    size = math.radians(90.0 / 2 ** depth)
    for _ in range(200):
        A = list(_vec(*sph_uniform(r)))
        w = _vec(*sph_uniform(r))
        t = [A[1] * w[2] - A[2] * w[1], A[2] * w[0] - A[0] * w[2], A[0] * w[1] - A[1] * w[0]]
        nt = math.sqrt(sum(x * x for x in t))
        if nt < 1e-3:
            continue
        t = [x / nt for x in t]
        B = [A[i] * math.cos(2 * size) + t[i] * math.sin(2 * size) for i in range(3)]
        ia, ib = lid(A), lid(B)
        if ia == ib:
            continue
        for _ in range(60):
            M = [A[i] + B[i] for i in range(3)]
            nm = math.sqrt(sum(x * x for x in M))
            M = [x / nm for x in M]
            if lid(M) == ia:
                A = M
            else:
                B = M
        # tangent at A towards B, re-orthogonalised
        dt = sum(t[i] * A[i] for i in range(3))
        t = [t[i] - dt * A[i] for i in range(3)]
        nt = math.sqrt(sum(x * x for x in t))
        return A, [x / nt for x in t]
    raise RuntimeError("no triangle edge found at depth %d" % depth)


def repeat_rows(r, pts1, rad):
    """runs of bit-identical consecutive first-set rows, each row of a run with its own radius
    (clearly smaller / equal / clearly larger than the previous row's, exactly 0 now and then):
    state carried from one row to the next must not leak"""
    base = rad if isinstance(rad, list) else [rad] * len(pts1)
    pts, rads = [], []
    for p_, rd in zip(pts1, base):
        k = r.choice([1, 2, 2, 3, 4])
        mults = [r.choice([0.0, 0.05, 0.3, 1.0, 1.0, 3.0, 8.0]) for _ in range(k)]
        order = r.choice(["up", "down", "any"])
        if order == "up":
            mults.sort()
        elif order == "down":
            mults.sort(reverse=True)
        for m in mults:
            pts.append(p_)
            rads.append(min(180.0, max(rd, 1e-6) * m))
        if len(pts) >= 24:
            break
    return pts, rads


def gen_problem(r, fam, big=False):
    """returns dict(ra1, dec1, ra2, dec2, radius (float | list), scale)"""
    if fam == "reprows":
        p = gen_problem(r, r.choice(["cap", "cap", "seam", "npole", "duplicates", "uniform", "dtypes"]), big)
        p.pop("fixdepth", None)
        pts, rads = repeat_rows(r, list(zip(p["ra1"], p["dec1"])), p["radius"])
        p["ra1"], p["dec1"], p["radius"] = [a for a, _ in pts], [d for _, d in pts], rads
        if len(rads) == 1:
            p["radius"] = rads[0]
        p["scale"] = max(rads)
        return p
    n1 = r.randrange(1, 14 if not big else 26)
    n2 = r.randrange(1, 50 if not big else 121)
    pts1, pts2, rad = [], [], None
    fixdepth = None
    if fam == "uniform":
        pts1 = [sph_uniform(r) for _ in range(n1)]
        pts2 = [sph_uniform(r) for _ in range(n2)]
        rad = r.choice([logu(r, 1, 180), r.uniform(20, 180), 90.0, 180.0, 179.999999])
    elif fam in ("cap", "npole", "spole", "seam", "duplicates", "self", "perpoint"):
        size = logu(r, 1e-4, 30)
        if fam == "npole":
            c0 = (r.uniform(0, 360), 90.0)
        elif fam == "spole":
            c0 = (r.uniform(0, 360), -90.0)
        elif fam == "seam":
            c0 = (r.choice([0.0, 360.0 - size / 3, size / 3]), r.uniform(-80, 80))
        else:
            c0 = sph_uniform(r)
        pts1 = [cap_point(r, c0[0], c0[1], size) for _ in range(n1)]
        pts2 = [cap_point(r, c0[0], c0[1], size) for _ in range(n2)]
        if fam in ("npole", "spole"):
            pole = c0[1]
            pts1[r.randrange(n1)] = (float(r.choice([0.0, 90.0, 123.25, 359.0])), pole)
            pts2[r.randrange(n2)] = (float(r.choice([0.0, 45.0, 270.0])), pole)
            if n2 > 2:
                pts2[r.randrange(n2)] = (pts1[0][0], pole)
        if fam == "seam":
            d = r.uniform(-80, 80)
            pts1[r.randrange(n1)] = (r.choice([0.0, 360.0]), d)
            pts2[r.randrange(n2)] = (r.choice([0.0, 360.0]), d)
            if n2 > 2:
                pts2[r.randrange(n2)] = (360.0 - size * r.random() * 0.1, d)
        if fam == "duplicates":
            for _ in range(r.randrange(1, 2 + n2 // 2)):
                pts2[r.randrange(n2)] = pts2[r.randrange(n2)]
            for _ in range(r.randrange(1, 1 + n1)):
                pts1[r.randrange(n1)] = pts2[r.randrange(n2)]
        if fam == "self":
            pts1 = [cap_point(r, c0[0], c0[1], size) for _ in range(max(2, min(n1 + n2 // 4, 30 if not big else 60)))]
            if r.random() < 0.4 and len(pts1) > 2:
                pts1[r.randrange(len(pts1))] = pts1[0]
            pts2 = list(pts1)
        rad = max(1e-6, size * logu(r, 0.05, 2.5))
        if fam == "perpoint":
            n1 = len(pts1)
            rad = [r.choice([0.0, 1e-6, size * logu(r, 0.05, 2.5), size * logu(r, 0.05, 2.5), min(180.0, size * 4)])
                   for _ in range(n1)]
            if n1 == 1:
                rad = [rad[0]]
    elif fam == "edges":
        # both sides of edges of the root triangles (equator, meridians 0/90/180/270) and of the
        # first subdivision (great circles through the edge mid-points), tiny offsets and radii
        off = logu(r, 1e-7, 1e-2)
        kind = r.choice(["equator", "meridian", "mid"])
        base = []
        for _ in range(n1 + n2):
            s = r.choice([-1, 1]) * off * r.uniform(0.1, 1.0)
            t = r.uniform(0, 1)
            if kind == "equator":
                base.append(_norm(r.choice([10.0, 45.0, 90.0, 200.0, 359.5]) + off * r.uniform(-1, 1), s))
            elif kind == "meridian":
                base.append(_norm(r.choice([0.0, 90.0, 180.0, 270.0]) + s, r.choice([-40.0, 33.0, 60.0, 0.0]) + off * r.uniform(-1, 1)))
            else:
                # points on the great circle arc from (45,0) to (90,45)/(0,45), displaced across it
                a = (45.0, 0.0)
                b = r.choice([(90.0, 45.0), (0.0, 45.0)])
                va = _vec(*a)
                vb = _vec(*b)
                v = [va[i] * (1 - t) + vb[i] * t for i in range(3)]
                nrm = math.sqrt(sum(x * x for x in v))
                v = [x / nrm for x in v]
                p = (math.degrees(math.atan2(v[1], v[0])) % 360.0, math.degrees(math.asin(v[2])))
                base.append(_norm(p[0] + s, p[1] + off * r.uniform(-1, 1)))
        pts1, pts2 = base[:n1], base[n1:]
        rad = max(1e-6, off * logu(r, 0.3, 3))
    elif fam == "deepedge":
        # points on both sides of an edge between two triangles of the depth that is used, at
        # offsets comparable with the radius (which goes down to 1e-6 degree)
        fixdepth = r.randrange(1, 14)
        rad = logu(r, 1e-6, min(1e-1, COST / 2 ** fixdepth / 4))
        if r.random() < 0.25:
            rad = r.choice([1e-6, 2e-6, 1e-5])
        X, t = find_edge(r, fixdepth)
        e = [X[1] * t[2] - X[2] * t[1], X[2] * t[0] - X[0] * t[2], X[0] * t[1] - X[1] * t[0]]   # along the edge
        rr = math.radians(rad)
        n1, n2 = min(n1, 8), min(n2, 20)

        def pt(side):
            u = side * r.uniform(0.0, 0.7) * rr
            w = r.uniform(-0.5, 0.5) * rr
            return _radec([X[i] + u * t[i] + w * e[i] for i in range(3)])
        pts1 = [pt(r.choice([-1, 1])) for _ in range(n1)]
        pts2 = [pt(r.choice([-1, 1])) for _ in range(n2)]
        if r.random() < 0.5:
            pts2[r.randrange(n2)] = pts1[r.randrange(n1)]
    elif fam == "dtypes":
        # coordinates that integer / float32 arrays denote exactly (an integer or float32 input
        # denotes an exact real): whole degrees on a grid, or float32-representable points of a cap
        import numpy as np
        if r.random() < 0.55:
            ra0, dec0 = r.randrange(12, 348), r.randrange(-78, 79)
            if r.random() < 0.2:
                ra0, dec0 = r.choice([(8, 0), (350, 0), (90, 84), (180, -84)])
            w = r.choice([2, 5, 9])
            pts1 = [(float(ra0 + r.randrange(-w, w + 1)), float(dec0 + r.randrange(-w // 2, w // 2 + 1))) for _ in range(n1)]
            pts2 = [(float(ra0 + r.randrange(-w, w + 1)), float(dec0 + r.randrange(-w // 2, w // 2 + 1))) for _ in range(n2)]
            rad = float(r.choice([0, 1, 2, 3, w, 2 * w])) if r.random() < 0.7 else r.choice([0.5, 1.5, 2.25, w + 0.5])
            if r.random() < 0.3 and n1 > 1:
                rad = [float(r.choice([0, 1, 2, w])) for _ in range(n1)]
            kinds = INT_FORMS + ["plain", "f4"]
        else:
            size = logu(r, 1e-2, 30)
            c0 = sph_uniform(r)
            f32 = lambda t: float(np.float32(t))
            pts1 = [tuple(map(f32, cap_point(r, c0[0], c0[1], size))) for _ in range(n1)]
            pts2 = [tuple(map(f32, cap_point(r, c0[0], c0[1], size))) for _ in range(n2)]
            pts1 = [(a if a < 360.0 else 0.0, d) for a, d in pts1]
            pts2 = [(a if a < 360.0 else 0.0, d) for a, d in pts2]
            rad = f32(max(1e-3, size * logu(r, 0.05, 2.5)))
            kinds = F4_FORMS + ["plain", "list"]
    elif fam == "tiny":
        c0 = sph_uniform(r)
        if r.random() < 0.3:
            c0 = (c0[0], r.choice([89.9999, -89.9999, 0.0, 45.0]))
        size = logu(r, 1e-7, 1e-4)
        pts1 = [cap_point(r, c0[0], c0[1], size) for _ in range(n1)]
        pts2 = [cap_point(r, c0[0], c0[1], size) for _ in range(n2)]
        rad = max(1e-6, size * logu(r, 0.2, 2.5))
    elif fam == "antipodal":
        pts1 = [sph_uniform(r) for _ in range(n1)]
        size = logu(r, 1e-6, 5)
        pts2 = []
        for _ in range(n2):
            a, d = pts1[r.randrange(n1)]
            pts2.append(cap_point(r, (a + 180.0) % 360.0, -d, size))
        rad = r.choice([180.0, 180.0 - size * r.random(), 179.999999, 179.9, 180.0 - 1e-7])
    elif fam == "radius0":
        c0 = sph_uniform(r)
        size = logu(r, 1e-5, 10)
        pts2 = [cap_point(r, c0[0], c0[1], size) for _ in range(n2)]
        pts1 = [pts2[r.randrange(n2)] if r.random() < 0.7 else cap_point(r, c0[0], c0[1], size) for _ in range(n1)]
        rad = 0.0
    elif fam == "threshold":
        # second-set points on the meridian of a first-set point at separation rad +- delta,
        # delta a little beyond the 1e-9 degree band in which pairs are unconstrained
        rad = r.choice([logu(r, 1e-6, 1e-2), logu(r, 1e-2, 30), 1.0, 1e-6, 2.0 / 3600])
        pts1, pts2 = [], []
        for _ in range(n1):
            pts1.append((r.uniform(0, 360), r.uniform(-55, 55)))
        for _ in range(n2):
            a, d = pts1[r.randrange(n1)]
            delta = r.choice([-1, 1]) * r.choice([3e-9, 1e-8, 1e-7, 1e-6, rad * 0.5])
            pts2.append((a, d + r.choice([-1, 1]) * (rad + delta)))
    else:
        raise ValueError(fam)
    if fam not in ("threshold", "dtypes", "deepedge", "edges") and len(pts1) >= 3 and r.random() < 0.15:
        # empty first and last group: the first and the last first-set point are moved to the antipode of the
        # first second-set point (the groups in between keep their rows)
        far = _norm(pts2[0][0] + 180.0, -pts2[0][1])
        if (max(rad) if isinstance(rad, list) else rad) < 60:
            pts1[0], pts1[-1] = far, far
    if fam in ("duplicates", "perpoint", "self") and r.random() < 0.5 and fam != "self":
        pts1, rad = repeat_rows(r, pts1, rad)
        if len(rad) == 1:
            rad = rad[0]
    if fam == "radius0" and r.random() < 0.3:
        rad = -0.0                      # exactly zero, with the other sign
    scale = max(rad) if isinstance(rad, list) else rad
    out = {"ra1": [p[0] for p in pts1], "dec1": [p[1] for p in pts1],
           "ra2": [p[0] for p in pts2], "dec2": [p[1] for p in pts2], "radius": rad, "scale": scale}
    if fixdepth is not None:
        out["fixdepth"] = fixdepth
    if fam == "self" and r.random() < 0.5:
        out["alias"] = True          # the SAME array objects are passed for both sets
    if fam == "dtypes":
        out["formkinds"] = kinds
    return out


def _vec(ra, dec):
    a, d = math.radians(ra), math.radians(dec)
    return (math.cos(d) * math.cos(a), math.cos(d) * math.sin(a), math.sin(d))


def gen_config(r, p, fam):
    n2 = len(p["ra2"])
    dmax = max_depth_for(p["scale"])
    depth = r.choice([r.randrange(1, dmax + 1), dmax, min(dmax, 10)])
    if p.get("fixdepth"):
        depth = min(dmax, p.pop("fixdepth"))
    k = r.choice([-1, 0, 1, 1, 2, r.randrange(3, 7), n2 + 5, n2 + 5, 2 ** 40, -(2 ** 40)])
    cfg = {"depth": depth, "maxmatch": k, "via": r.choice(["htm", "matcher"]),
           "layout": r.choice(LAYOUTS + ["plain"]), "family": fam}
    # one input form per argument (forms that denote the values exactly)
    kinds = p.pop("formkinds", None)
    if kinds or r.random() < 0.4:
        forms = {}
        for name in ("ra1", "dec1", "ra2", "dec2", "radius"):
            x = p[name] if isinstance(p[name], list) else [p[name]]
            cand = list(kinds or ANY_FORMS)
            if len(x) == 1:
                cand += LEN1_FORMS
            cand = [f for f in cand if form_ok(x, f)] or ["plain"]
            forms[name] = r.choice(cand)
        cfg["forms"] = forms
    kwf = {}
    if k == 1 and r.random() < 0.5:
        kwf["maxmatch"] = "omit"
    elif r.random() < 0.15:
        kwf["maxmatch"] = "positional"      # (a numpy integer is rejected by SWIG with TypeError: outside the statement)
    if r.random() < 0.2:
        kwf["file"] = "none"
    if r.random() < 0.1:
        kwf["verbose"] = True
    if kwf:
        cfg["kw"] = kwf
    return cfg


# ----------------------------------------------------------------------------
# driving the real code
# ----------------------------------------------------------------------------

INT_FORMS = ["i4", "i8", ">i4", ">i8", "i2", "u2", "intlist", "i8s"]
F4_FORMS = ["f4", ">f4", "f4s"]
# arrays with more than one dimension (shape (1, n): a row x[None, :]; shape (n, 1): a column).  Before
# fixes/C12/0004 (flattening in Matcher / Matcher.match; /repo 4f9f37b) a row made the C code read beyond
# the buffer (witness: corpus/C12/fixed-2d-shape.json)
FORMS_2D = True
ANY_FORMS = ["plain", "swapped", "strided", "negstride", "list", "tuple", "readonly"] + (["row2d", "col2d"] if FORMS_2D else [])
LEN1_FORMS = ["scalar", "zerod", "pyint"]


def _strided(a, fill):
    import numpy as np
    b = np.full(3 * len(a) + 2, fill, dtype=a.dtype)
    v = b[1:1 + 3 * len(a):3]
    v[...] = a
    assert len(a) < 2 or not v.flags["C_CONTIGUOUS"]
    return v


def form_ok(x, form):
    """does the form denote exactly the values x (no rounding, no overflow, no wrap)?"""
    import numpy as np
    a = np.array(x, dtype="f8")
    if form in ANY_FORMS or form in ("row2d", "col2d"):
        return True
    if form in ("scalar", "zerod"):
        return len(x) == 1
    if form == "pyint":
        return len(x) == 1 and float(x[0]) == int(x[0])
    if form in INT_FORMS:
        if not np.all(a == np.round(a)):
            return False
        if form == "intlist":
            return True
        dt = np.dtype(form.rstrip("s"))
        info = np.iinfo(dt)
        return bool(np.all(a >= info.min) and np.all(a <= info.max))
    if form in F4_FORMS:
        return bool(np.all(a.astype("f4").astype("f8") == a))
    return False


def _mk(x, layout):
    """the values x in the requested input form; falls back to a float64 array when the form
    cannot denote them exactly"""
    import numpy as np
    a = np.array(x, dtype="f8")
    if not form_ok(x, layout):
        return a
    if layout == "swapped":
        return a.astype(">f8")
    if layout == "strided":
        return _strided(a, 777.0)
    if layout == "negstride":
        return a[::-1].copy()[::-1]
    if layout == "list":
        return [float(t) for t in x]
    if layout == "tuple":
        return tuple(float(t) for t in x)
    if layout == "readonly":
        a.setflags(write=False)
        return a
    if layout == "row2d":
        return a[None, :]
    if layout == "col2d":
        return a[:, None]
    if layout == "scalar":
        return float(x[0])
    if layout == "zerod":
        return np.array(float(x[0]))
    if layout == "pyint":
        return int(x[0])
    if layout == "intlist":
        return [int(t) for t in x]
    if layout in INT_FORMS or layout in F4_FORMS:
        dt = np.dtype(layout.rstrip("s"))
        b = a.astype(dt)
        return _strided(b, 77) if layout.endswith("s") else b
    return a


def _inputs(c, layout=None):
    """(ra1, dec1, ra2, dec2, radius) in the forms of the case: `forms` (one per argument) when
    present and no layout is forced, else one layout for all"""
    forms = c.get("forms") if layout is None else None
    lay = layout or c.get("layout", "plain")

    def f(name):
        return forms.get(name, lay) if forms else lay
    rad = c["radius"]
    if isinstance(rad, list):
        radv = _mk(rad, f("radius"))
    else:
        radv = _mk([rad], f("radius")) if forms else float(rad)     # one value: python float / int / 0-d / length-1 container
    return (_mk(c["ra1"], f("ra1")), _mk(c["dec1"], f("dec1")), _mk(c["ra2"], f("ra2")), _mk(c["dec2"], f("dec2")), radv)


def _rows(res):
    m1, m2, d = res
    assert m1.dtype.kind == "i" and m2.dtype.kind == "i" and d.dtype.kind == "f"
    return [[int(a), int(b), float(x)] for a, b, x in zip(m1, m2, d)]


def run_match(c, depth=None, via=None, layout=None, file=None, again=False):
    """one call of the real code.  c["kw"]: how the optional arguments are passed (maxmatch omitted
    when it is the default 1, positional, file=None given explicitly, verbose=True);
    c["reuse"]: 1 = another query on the same Matcher first; 2 = additionally the caller reuses
    (overwrites) the buffers the Matcher was built from, and the query is made twice.
    again=True: the call is made twice with the SAME argument objects, the second answer counts."""
    import numpy as np
    import esutil.htm as htm
    ra1, dec1, ra2, dec2, rad = _inputs(c, layout)
    if c.get("alias") and c["ra1"] == c["ra2"] and c["dec1"] == c["dec2"]:
        ra2, dec2 = ra1, dec1        # aliasing: one object is both the first and the second set
    depth = depth or c["depth"]
    kwf = c.get("kw") or {}
    kw = {"maxmatch": c["maxmatch"]}
    if kwf.get("maxmatch") == "omit" and c["maxmatch"] == 1:
        kw = {}
    if kwf.get("maxmatch") == "npint":
        kw = {"maxmatch": np.int64(c["maxmatch"])}
    if file is not None:
        kw["file"] = file
    elif kwf.get("file") == "none":
        kw["file"] = None
    if (via or c["via"]) == "htm":
        h = htm.HTM(depth)
        if kwf.get("verbose"):
            kw["verbose"] = True
        if again:
            h.match(ra1, dec1, ra2, dec2, rad, **kw)
        return h.match(ra1, dec1, ra2, dec2, rad, **kw)
    m = htm.Matcher(depth, ra2, dec2)
    reuse = int(c.get("reuse") or 0)
    if reuse:
        # a query with other data in between must not change the answer
        ra2b, dec2b = _mk(c["ra2"], "plain"), _mk(c["dec2"], "plain")
        m.match(ra2b, dec2b, 0.5 * (c["scale"] + 1e-6), maxmatch=1)
    if reuse >= 2 and ra2 is not ra1 and dec2 is not dec1:
        # the caller fills the buffers it built the Matcher from with the next chunk of its data
        # (not when the same objects are also the first set of this very query)
        for arr in (ra2, dec2):
            if isinstance(arr, np.ndarray) and arr.flags.writeable and arr.ndim == 1:
                arr[...] = arr[::-1].copy() if arr.size > 1 else arr + 1
        m.match(ra1, dec1, rad, **kw)
    if again:
        m.match(ra1, dec1, rad, **kw)
    if kwf.get("maxmatch") == "positional" and file is None:
        return m.match(ra1, dec1, rad, c["maxmatch"])
    return m.match(ra1, dec1, rad, **kw)


_PAD = {}


def cover_pad(impl_root):
    """constant by which Matcher::match pads the radius of the cap it covers (T-const style
    extraction from the source the scratch build was made of; 0 when the source has none)"""
    if impl_root not in _PAD:
        pad = 0.0
        try:
            src = open(os.path.join(impl_root, "esutil", "htm", "htmc.cc")).read()
            m = re.search(r"#define\s+MATCH_COVER_PAD_DEGREES\s+([0-9.eE+-]+)", src)
            if m:
                pad = float(m.group(1))
        except OSError:
            pass
        _PAD[impl_root] = pad
    return _PAD[impl_root]


def cover_radius(rad, pad):
    if pad == 0.0:
        return rad
    p = rad + pad
    return 180.0 if p >= 180.0 else p


def rad_list(c):
    return c["radius"] if isinstance(c["radius"], list) else [c["radius"]]


def rad_of(c, i):
    rl = rad_list(c)
    return rl[0] if len(rl) == 1 else rl[i]


def index_oracles(c, depth, impl_root):
    """the parts of the computation the model does not contain, taken from the real code:
    triangle ids of the second set, circle covers of the first set (occupied ids only, in the
    order flist+plist), and whether the full id lists were duplicate-free"""
    import numpy as np
    import esutil.htm as htm
    h = htm.HTM(depth)
    n1 = len(c["ra1"])
    tri = [int(t) for t in h.lookup_id(np.array(c["ra2"], dtype="f8"), np.array(c["dec2"], dtype="f8"))] if c["ra2"] else []
    occ = set(tri)
    pad = cover_pad(impl_root)
    cover, dupfree, ntri = [], True, 0
    for i in range(n1):
        ids = h.intersect(float(c["ra1"][i]), float(c["dec1"][i]), cover_radius(float(rad_of(c, i)), pad))
        ntri += int(ids.size)
        if np.unique(ids).size != ids.size:
            dupfree = False
        cover.append([int(t) for t in ids if int(t) in occ])
    return tri, cover, dupfree, ntri


def code_distances(c):
    """the code's own distance for every pair: a 180-degree match returns them all"""
    import numpy as np
    import esutil.htm as htm
    n1, n2 = len(c["ra1"]), len(c["ra2"])
    d = [[None] * n2 for _ in range(n1)]
    if n1 and n2:
        m1, m2, dd = htm.HTM(1).match(np.array(c["ra1"], dtype="f8"), np.array(c["dec1"], dtype="f8"),
                                      np.array(c["ra2"], dtype="f8"), np.array(c["dec2"], dtype="f8"),
                                      180.0, maxmatch=0)
        for a, b, x in zip(m1, m2, dd):
            d[int(a)][int(b)] = float(x)
    return d


def same_pairs(c):
    return [(i, j) for i in range(len(c["ra1"])) for j in range(len(c["ra2"]))
            if c["ra1"][i] == c["ra2"][j] and c["dec1"][i] == c["dec2"][j]]


# ----------------------------------------------------------------------------
# Coq term printers
# ----------------------------------------------------------------------------

def scale_exp(c, floats):
    E = 0
    for x in floats:
        if x is not None:
            E = max(E, _expo(x))
    for x in rad_list(c):
        E = max(E, _expo(x))
    return E


def c_k(c):
    """maxmatch of the case as a Coq term: the model's default when the call omits the argument"""
    if (c.get("kw") or {}).get("maxmatch") == "omit" and c["maxmatch"] == 1:
        return "default_maxmatch"
    return zl(c["maxmatch"])


def c_rows(rows, E):
    return "[" + "; ".join("rowl %d %d %s" % (a, b, limbs(_units(x, E))) for a, b, x in rows) + "]"


def c_same(c):
    return "[" + "; ".join("pr %d %d" % p for p in same_pairs(c)) + "]"


def c_dtrue(c, E, workdir=None):
    return zmat([[_units_dec(s, E) for s in row] for row in oracle(c, workdir)])


def c_rads(c, E):
    return zlist([_units(x, E) for x in rad_list(c)])


def rows_printable(rows):
    return all(a >= 0 and b >= 0 and x == x and abs(x) != float("inf") for a, b, x in rows)


def stats(c):
    """(inside, outside, biggest group) by the true separations, beyond the tolerance"""
    D = oracle(c)
    ins = outs = 0
    big = 0
    for i, row in enumerate(D):
        r_ = rad_of(c, i)
        g = 0
        for s in row:
            x = float(s)
            if x < r_ - TOL:
                ins += 1
                g += 1
            elif x > r_ + TOL:
                outs += 1
        big = max(big, g)
    return ins, outs, big


# ----------------------------------------------------------------------------
# entries
# ----------------------------------------------------------------------------

class Base(Entry):
    ctx = None
    per_family_quick = 10
    per_family_thorough = 60

    def problems(self, ctx, round, nq, nt, fams=FAMILIES):
        r = ctx.rng
        cs = []
        for fam in fams:
            for t in range(ctx.n(nq, nt)):
                p = gen_problem(r, fam, big=(not ctx.quick() and t % 6 == 5))
                p.update(gen_config(r, p, fam))
                cs.append(p)
        return cs

    def prepare(self, ctx, cs):
        self.ctx = ctx
        oracle_fill(cs, ctx.work)
        for n_ in _ORACLE_NOTE:
            if n_ not in ctx.notes:
                ctx.notes.append(n_)
        return cs

    def family(self, c):
        return c.get("family", self.name)

    def nontrivial(self, c, out):
        if len(c["ra1"]) != len(c["dec1"]) or len(c["ra2"]) != len(c["dec2"]):
            return False
        ins, outs, big = stats(c)
        return ins >= 1 and outs >= 1


class Match(Base):
    """one call; full model (with the real code's ids, covers and distances) + checker"""
    name = "match"

    def cases(self, ctx, round=0):
        cs = self.problems(ctx, round, 12 if round == 0 else 6, 50 if round == 0 else 30)
        if round == 0:
            # corners: empty sets, single points, scalars
            cs.append(dict(ra1=[], dec1=[], ra2=[1.0, 2.0], dec2=[3.0, 4.0], radius=1.0, scale=1.0, depth=7,
                           maxmatch=0, via="htm", layout="plain", family="empty"))
            cs.append(dict(ra1=[1.0], dec1=[3.0], ra2=[], dec2=[], radius=1.0, scale=1.0, depth=7,
                           maxmatch=1, via="matcher", layout="plain", family="empty"))
            cs.append(dict(ra1=[200.0], dec1=[24.3], ra2=[200.0], dec2=[24.3], radius=0.0, scale=0.0, depth=10,
                           maxmatch=1, via="htm", layout="scalar", family="scalar"))
            cs.append(dict(ra1=[], dec1=[], ra2=[], dec2=[], radius=2.0, scale=2.0, depth=5,
                           maxmatch=0, via="matcher", layout="list", family="empty"))
            cs.append(dict(ra1=[], dec1=[], ra2=[10.0], dec2=[-3.0], radius=[], scale=0.0, depth=5,
                           maxmatch=2, via="htm", layout="plain", family="empty"))
            cs.append(dict(ra1=[200], dec1=[24], ra2=[200, 201], dec2=[24, 24], radius=1, scale=1.0, depth=8,
                           maxmatch=1, via="matcher", layout="plain", family="scalar", kw={"maxmatch": "omit"},
                           forms={"ra1": "pyint", "dec1": "zerod", "ra2": "intlist", "dec2": "i4", "radius": "pyint"}))
        for c in cs:
            c["reuse"] = ctx.rng.choice([0, 1, 2, 2]) if c["via"] == "matcher" else 0
        return self.prepare(ctx, cs)

    def impl(self, c):
        def f():
            return _rows(run_match(c))
        res = core.guarded(f)
        root = os.environ.get("VERIF_IMPL", "")
        try:
            tri, cover, dupfree, ntri = index_oracles(c, c["depth"], root)
            dcode = code_distances(c)
            err = None
        except Exception as e:  # noqa
            tri, cover, dupfree, ntri, dcode, err = [], [], False, 0, [], "%s: %s" % (type(e).__name__, e)
        return {"res": res, "tri": tri, "cover": cover, "dupfree": dupfree, "ntri": ntri, "dcode": dcode,
                "oracle_error": err}

    def term(self, c, out):
        n1, n2 = len(c["ra1"]), len(c["ra2"])
        res = out["res"]
        rows = res[1] if res[0] == "ok" else []
        if not rows_printable(rows) or out.get("oracle_error"):
            return "3"          # negative index / non-finite distance / the index functions raised
        dcode = out["dcode"]
        D = oracle(c)
        # a pair the 180-degree run did not return has no measured code distance; use the
        # float nearest the true one (counted; has not happened)
        holes = 0
        dc = []
        for i in range(n1):
            row = []
            for j in range(n2):
                x = dcode[i][j] if dcode and dcode[i][j] is not None else None
                if x is None:
                    holes += 1
                    x = float(D[i][j])
                row.append(x)
            dc.append(row)
        if holes and self.ctx:
            self.ctx.count("code-distance-holes", holes)
        E = scale_exp(c, [x for r_ in dc for x in r_] + [x for _, _, x in rows])
        outs = "(Ok %s)" % c_rows(rows, E) if res[0] == "ok" else "(Err %s)" % res[1]
        return "v_match %d %d %d %d %s %s %s %s %s %s %d %s %s" % (
            n1, n1, n2, n2, zlist(out["tri"]), zmat(out["cover"]),
            zmat([[_units(x, E) for x in r_] for r_ in dc]), c_dtrue(c, E),
            c_rads(c, E), c_k(c), E, c_same(c), outs)

    def show(self, c):
        return None


class Variants(Base):
    """the same problem under other depths / Matcher object vs one-shot / input layouts:
    every output must satisfy the statement and all must agree up to ties"""
    name = "variants"

    def cases(self, ctx, round=0):
        r = ctx.rng
        cs = self.problems(ctx, round, 4 if round == 0 else 2, 22 if round == 0 else 8)
        for c in cs:
            dmax = max_depth_for(c["scale"])
            if ctx.quick():
                depths = sorted(set([1, dmax, r.randrange(1, dmax + 1), min(dmax, 13)]))
            else:
                depths = list(range(1, dmax + 1))
            vs = [{"depth": d, "via": r.choice(["htm", "matcher"]), "layout": "plain"} for d in depths]
            lays = LAYOUTS + ["tuple", "readonly"] + (["row2d", "col2d"] if FORMS_2D else [])
            vs += [{"depth": c["depth"], "via": v, "layout": lay} for v in ("htm", "matcher") for lay in r.sample(lays, 2)]
            vs.append({"depth": c["depth"], "via": r.choice(["htm", "matcher"]), "layout": r.choice(lays), "again": True})
            c.pop("forms", None)      # every variant states its own layout
            c["variants"] = vs
        return self.prepare(ctx, cs)

    def impl(self, c):
        outs = []
        for v in c["variants"]:
            outs.append(core.guarded(lambda v=v: _rows(run_match(c, depth=v["depth"], via=v["via"], layout=v["layout"],
                                                                 again=bool(v.get("again"))))))
        return {"outs": outs}

    def term(self, c, out):
        n1, n2 = len(c["ra1"]), len(c["ra2"])
        lists = [o[1] if o[0] == "ok" else None for o in out["outs"]]
        E = scale_exp(c, [x for l in lists if l is not None for _, _, x in l])
        if any(l is None or not rows_printable(l) for l in lists):
            return "3"          # a variant raised on valid input
        # identical row lists get identical verdicts: print each distinct output once
        uniq = []
        for l in lists:
            if l not in uniq:
                uniq.append(l)
        if self.ctx:
            self.ctx.count("variants:outputs", len(lists))
            self.ctx.count("variants:distinct-outputs", len(uniq))
        lists = uniq
        return "v_variants %d %d %s %s %s %d %s [%s]" % (
            n1, n2, c_dtrue(c, E), c_rads(c, E), c_k(c), E, c_same(c),
            "; ".join(c_rows(l, E) for l in lists))


_READERS = {}


def _reader(depth):
    import esutil.htm as htm
    if depth not in _READERS:
        _READERS[depth] = htm.HTM(depth)
    return _READERS[depth]


class FileRT(Base):
    """file= output read back with read_pairs against the in-memory call"""
    name = "file"

    def cases(self, ctx, round=0):
        cs = self.problems(ctx, round, 4 if round == 0 else 2, 18 if round == 0 else 6)
        return self.prepare(ctx, cs)

    def impl(self, c):
        import esutil.htm as htm
        d = tempfile.mkdtemp(prefix="c12file.", dir=core.SCRATCH_ROOT)
        fn = os.path.join(d, "pairs.txt")
        try:
            import pathlib
            # file name as str or as pathlib.Path (check_filename applies str()); HTM.read is the
            # documented alias of read_pairs and must return the same table
            fnarg = pathlib.Path(fn) if (len(c["ra1"]) + len(c["ra2"])) % 2 else fn
            mem = core.guarded(lambda: _rows(run_match(c)))
            if len(c["ra2"]) >= 2 and not c.get("tile"):
                # history: the same path first holds the pairs of the problem with second-set points 0 and 1
                # exchanged (same number of rows, normally the same byte size) and is read once
                c2 = dict(c, ra2=[c["ra2"][1], c["ra2"][0]] + list(c["ra2"][2:]), dec2=[c["dec2"][1], c["dec2"][0]] + list(c["dec2"][2:]))
                c2.pop("forms", None)
                core.guarded(lambda: (run_match(c2, file=fnarg), htm.read_pairs(fnarg), htm.HTM(c["depth"]).read(fnarg)))
            cnt = core.guarded(lambda: int(run_match(c, file=fnarg)))
            size = os.path.getsize(fn) if os.path.exists(fn) else -1

            def rd():
                import numpy as np
                t = htm.read_pairs(fnarg)
                t2 = _reader(c["depth"]).read(fnarg, verbose=False)     # one HTM object reads the files of all cases
                if t.dtype != t2.dtype or t.shape != t2.shape or not np.array_equal(t, t2):
                    raise RuntimeError("HTM.read and read_pairs differ")
                return [[int(a), int(b), float(x)] for a, b, x in zip(t["i1"], t["i2"], t["d12"])]
            back = core.guarded(rd)
        finally:
            import shutil
            shutil.rmtree(d, ignore_errors=True)
        return {"mem": mem, "count": cnt, "file": back, "bytes": size}

    def term(self, c, out):
        n1, n2 = len(c["ra1"]), len(c["ra2"])
        if out["mem"][0] != "ok" or out["count"][0] != "ok" or out["file"][0] != "ok":
            return "3"
        mem, back, cnt = out["mem"][1], out["file"][1], out["count"][1]
        if not rows_printable(mem) or not rows_printable(back):
            return "3"
        rt = {}
        for _, _, x in mem:
            rt[x] = float("%.16g" % x)      # glibc printf and strtod are correctly rounded, as are python's
        E = scale_exp(c, [x for _, _, x in mem] + [x for _, _, x in back] + list(rt.values()))
        rtm = "[" + "; ".join("(zl %s, zl %s)" % (limbs(_units(a, E)), limbs(_units(b, E))) for a, b in sorted(rt.items())) + "]"
        return "v_file %d %d %s %s %s %d %s %s %s %s %s" % (
            n1, n2, c_dtrue(c, E), c_rads(c, E), c_k(c), E, c_same(c),
            c_rows(mem, E), c_rows(back, E), zl(cnt), rtm)


BLOCKS = [65536, 1 << 20, 4 << 20, 16 << 20]        # block sizes a reader might plausibly use


class FileLong(Entry):
    """pair files larger than any plausible reader block: all pairs of two small grids (indices stay
    small) at radius 180, written with file= and read back with read_pairs / HTM.read.
    judge = full:    every row goes through Coq (v_file_long), up to 65792 rows;
    judge = sampled: files of 1.4 MB and 4.4 MB (quick, thorough) and 17 MB (thorough), i.e. several blocks of
                     64 KiB, 1 MiB, 4 MiB, 16 MiB: the complete comparison with the in-memory rows is
                     decided here on exact values; Coq judges the count, the first and last rows and
                     the rows around every block boundary (v_file_sampled)."""
    name = "file_long"

    def cases(self, ctx, round=0):
        if round:
            return []
        r = ctx.rng
        sizes = ([(231, 229, "sampled"), (411, 409, "sampled")] if ctx.quick()
                 else [(129, 128, "full"), (257, 256, "full"), (231, 229, "sampled"), (411, 409, "sampled"), (811, 809, "sampled")])
        cs = []
        for n1, n2, judge in sizes:
            ra0, dec0 = r.uniform(20, 340), r.uniform(-50, 50)
            cs.append({"ra1": [ra0 + 0.01 * i for i in range(n1)], "dec1": [dec0 + 0.003 * (i % 7) for i in range(n1)],
                       "ra2": [ra0 + 0.01 * j + 0.004 for j in range(n2)], "dec2": [dec0 - 0.002 * (j % 5) for j in range(n2)],
                       "radius": 180.0, "scale": 180.0, "depth": r.choice([1, 3]), "maxmatch": r.choice([0, -1, n2 + 1]),
                       "via": r.choice(["htm", "matcher"]), "layout": "plain", "judge": judge,
                       "family": "longfile:%s:%d" % (judge, n1 * n2)})
        return cs

    def impl(self, c):
        out = FileRT.impl(self, c)
        if c.get("judge") != "sampled":
            return out
        if out["mem"][0] != "ok" or out["file"][0] != "ok" or out["count"][0] != "ok":
            # keep the replay small: the first rows and the row counts are enough to see what happened
            for k_ in ("mem", "file"):
                if out[k_][0] == "ok":
                    out["n" + k_] = len(out[k_][1])
                    out[k_] = ("ok", out[k_][1][:20])
            return out
        mem, back = out["mem"][1], out["file"][1]
        ok, why = True, ""
        if len(mem) != len(back):
            ok, why = False, "%d rows in memory, %d rows read back" % (len(mem), len(back))
        else:
            for n, ((a, b, x), (a2, b2, x2)) in enumerate(zip(mem, back)):
                if a != a2 or b != b2 or float("%.16g" % x) != x2:
                    ok, why = False, "row %d: memory %r, file %r" % (n, (a, b, x), (a2, b2, x2))
                    break
        # byte offset of every row as fprintf("%ld %ld %.16g\n") writes it
        pos, offs = 0, []
        for a, b, x in mem:
            offs.append(pos)
            pos += len("%d %d %.16g\n" % (a, b, x))
        idx = set(range(min(3, len(mem)))) | set(range(max(0, len(mem) - 3), len(mem)))
        import bisect
        for B in BLOCKS:
            ks = list(range(1, pos // B + 1))
            if len(ks) > 24:
                ks = ks[:16] + ks[-8:]
            for k_ in ks:
                n = bisect.bisect_right(offs, k_ * B) - 1          # the row that contains byte k*B
                idx.update(t for t in (n - 1, n, n + 1) if 0 <= t < len(mem))
        idx = sorted(idx)
        return {"mem": ("ok", [mem[t] for t in idx if t < len(mem)]), "file": ("ok", [back[t] for t in idx if t < len(back)]),
                "count": out["count"], "bytes": out["bytes"], "predicted_bytes": pos, "nrows": len(mem), "nback": len(back),
                "full_ok": ok, "why": why, "positions": len(idx)}

    def term(self, c, out):
        if out["mem"][0] != "ok" or out["count"][0] != "ok" or out["file"][0] != "ok":
            return "3"
        mem, back, cnt = out["mem"][1], out["file"][1], out["count"][1]
        nrows = out.get("nrows", len(mem))
        if not rows_printable(mem) or not rows_printable(back) or nrows != len(c["ra1"]) * len(c["ra2"]):
            return "3"          # a 180-degree match without limit returns every pair
        if c.get("judge") == "sampled" and not out["full_ok"]:
            return "3"          # the complete comparison failed (out["why"])
        rts = [float("%.16g" % x) for _, _, x in mem]
        E = scale_exp(c, [x for _, _, x in mem] + [x for _, _, x in back] + rts)

        def chunks(items):
            # a list literal nests as deep as it is long (parser stack): concatenate literals of 1000
            items = list(items)
            return "(concat [" + "; ".join("[" + "; ".join(items[k:k + 1000]) + "]" for k in range(0, len(items), 1000)) + "])"

        def rws(rows):
            return chunks("rowi %d %d %s" % (a, b, limbs(_units(x, E))) for a, b, x in rows)
        if c.get("judge") == "sampled":
            return "v_file_sampled %s %s %s %s %s" % (rws(mem), rws(back), chunks(limbs(_units(x, E)) for x in rts), zl(nrows), zl(cnt))
        return "v_file_long %s %s %s %s" % (rws(mem), rws(back), chunks(limbs(_units(x, E)) for x in rts), zl(cnt))

    def nontrivial(self, c, out):
        return True


def _group_rows(rows):
    g = {}
    for a, b, x in rows:
        g.setdefault(a, []).append((b, x))
    return g


class Long(Base):
    """long inputs (2^k - 1, 2^k, 2^k + 1 ... 10^5 points): a small problem whose first or second
    set is repeated to the long length.  The small problem goes through the model and the
    verified checker in Coq as in `match`; that the long run is exactly the repetition of the
    small run is decided here on exact integers / bit-identical floats (verdict 3 otherwise)."""
    name = "long"

    def cases(self, ctx, round=0):
        if round:
            return []
        r = ctx.rng
        lens = ([1025, 4097, 16385, 65537] if ctx.quick()
                else [1023, 1024, 1025, 4095, 4096, 4097, 8193, 16384, 16385, 32769, 65536, 65537, 100003])
        cs = []
        for n, L in enumerate(lens):
            fam = r.choice(["cap", "seam", "duplicates", "npole", "perpoint", "dtypes"])
            p = gen_problem(r, fam)
            which = 1 + n % 2
            # keep the small problem small: the long output has (long / small) times its rows
            p["ra1"], p["dec1"] = p["ra1"][:6], p["dec1"][:6]
            p["ra2"], p["dec2"] = p["ra2"][:9], p["dec2"][:9]
            if isinstance(p["radius"], list):
                p["radius"] = p["radius"][:len(p["ra1"])]
                if len(p["radius"]) == 1 and which == 1:
                    p["radius"] = p["radius"][0]
                p["scale"] = max(p["radius"]) if isinstance(p["radius"], list) else p["radius"]
            p.pop("fixdepth", None)
            p.update(gen_config(r, p, fam))
            p["family"] = "long%d:%s" % (which, fam)
            p["tile"] = {"which": which, "len": L}
            if which == 2:
                p["maxmatch"] = r.choice([0, -1])      # which of several identical points is cut is not specified
                p.get("kw", {}).pop("maxmatch", None)
            p["reuse"] = 0
            cs.append(p)
        return self.prepare(ctx, cs)

    @staticmethod
    def long_case(c):
        L, which = c["tile"]["len"], c["tile"]["which"]
        d = dict(c)

        def rep(x):
            return [x[i % len(x)] for i in range(L)]
        if which == 1:
            d["ra1"], d["dec1"] = rep(c["ra1"]), rep(c["dec1"])
            if isinstance(c["radius"], list):
                d["radius"] = rep(c["radius"])
        else:
            d["ra2"], d["dec2"] = rep(c["ra2"]), rep(c["dec2"])
        return d

    def impl(self, c):
        out = Match.impl(self, c)
        big = core.guarded(lambda: _rows(run_match(self.long_case(c))))
        out["long_ok"], out["long_rows"], out["why"] = self.compare(c, out["res"], big)
        return out

    @staticmethod
    def compare(c, small, big):
        if small[0] != "ok" or big[0] != "ok":
            return (small[0] != "ok" and big[0] != "ok" and small[1] == big[1]), 0, "error classes %r / %r" % (small[1], big[1])
        L, which = c["tile"]["len"], c["tile"]["which"]
        gs, gb = _group_rows(small[1]), _group_rows(big[1])
        n1, n2 = len(c["ra1"]), len(c["ra2"])
        if [a for a, _, _ in big[1]] != sorted(a for a, _, _ in big[1]):
            return False, len(big[1]), "first-set indices not in input order"
        if which == 1:
            for i in range(L):
                if gb.get(i, []) != gs.get(i % n1, []):
                    return False, len(big[1]), "group of long point %d differs from group of small point %d" % (i, i % n1)
            return (set(gb) <= set(range(L))), len(big[1]), "index out of range"
        for i in range(n1):
            exp = sorted((x, j) for j, x in gs.get(i, []) for _ in range((L - j + n2 - 1) // n2))
            got = gb.get(i, [])
            if [x for _, x in got] != sorted(x for _, x in got):
                return False, len(big[1]), "group %d not sorted by separation" % i
            if len(set(j for j, _ in got)) != len(got) or any(not (0 <= j < L) for j, _ in got):
                return False, len(big[1]), "group %d: repeated or invalid second-set index" % i
            if sorted((x, j % n2) for j, x in got) != exp:
                return False, len(big[1]), "group %d is not the repetition of the small group" % i
        return (set(gb) <= set(range(n1))), len(big[1]), "index out of range"

    def term(self, c, out):
        if not out["long_ok"]:
            return "3"
        if self.ctx:
            self.ctx.count("long:rows", out["long_rows"])
        return Match.term(self, c, out)


class Sequence(Base):
    """history: several calls in ONE process on ONE HTM object (kind htm) or ONE Matcher object (kind
    matcher), passing the SAME argument objects whose contents are changed in place between the
    calls (numpy buffers or python lists), then different objects with equal contents, other
    option values, and the first contents again.  All steps have the same sizes and the same first
    and last second-set point, so that a cache keyed on object identity, sizes or end points
    collides.  Every step is judged as a call of its own (model + verified checker) and against
    the same call made alone on fresh objects."""
    name = "sequence"

    def cases(self, ctx, round=0):
        r = ctx.rng
        cs = []
        fams = ["cap", "duplicates", "perpoint", "reprows", "seam", "npole", "dtypes", "cap", "self", "tiny", "reprows", "perpoint"]
        for n in range(ctx.n(12, 48) if round == 0 else 4):
            fam = fams[n % len(fams)]
            p0 = gen_problem(r, fam)
            p0.pop("fixdepth", None)
            p0.pop("formkinds", None)
            p0["ra1"], p0["dec1"] = p0["ra1"][:10], p0["dec1"][:10]
            p0["ra2"], p0["dec2"] = p0["ra2"][:24], p0["dec2"][:24]
            if isinstance(p0["radius"], list):
                p0["radius"] = p0["radius"][:len(p0["ra1"])]
            n1, n2 = len(p0["ra1"]), len(p0["ra2"])
            sc = max(rad_list(p0) + [1e-6])
            p0["scale"] = sc
            depth = r.choice([r.randrange(1, max_depth_for(sc * 8) + 1), max_depth_for(sc * 8)])
            k0 = r.choice([0, -1, 1, 2, n2 + 3])

            def step(ra1, dec1, ra2, dec2, radius, k, **kw):
                d = {"ra1": list(ra1), "dec1": list(dec1), "ra2": list(ra2), "dec2": list(dec2),
                     "radius": list(radius) if isinstance(radius, list) else radius, "maxmatch": k, "depth": depth,
                     "scale": max((radius if isinstance(radius, list) else [radius]) + [1e-6]), "family": "seq:" + fam}
                d.update(kw)
                return d
            # B: the second set moved in place, first and last point kept
            ra2b, dec2b = list(p0["ra2"]), list(p0["dec2"])
            for j in range(1, max(1, n2 - 1)):
                if r.random() < 0.7:
                    ra2b[j], dec2b[j] = _norm(ra2b[j] + r.uniform(-2, 2) * sc, dec2b[j] + r.uniform(-2, 2) * sc)
            mid = list(range(1, max(1, n2 - 1)))
            r.shuffle(mid)
            perm = [0] + mid + ([n2 - 1] if n2 > 1 else [])
            ra2b, dec2b = [ra2b[j] for j in perm], [dec2b[j] for j in perm]
            # C: the first set reversed, per-point radii reversed and rescaled (a scalar radius is rescaled)
            ra1c, dec1c = p0["ra1"][::-1], p0["dec1"][::-1]
            if isinstance(p0["radius"], list):
                radc = [min(180.0, x * r.choice([0.0, 0.3, 1.0, 2.5])) for x in p0["radius"][::-1]]
            else:
                radc = min(180.0, p0["radius"] * r.choice([0.3, 2.5]))
            kc = r.choice([0, 1, 2, 3])
            steps = [
                step(p0["ra1"], p0["dec1"], p0["ra2"], p0["dec2"], p0["radius"], k0),
                step(p0["ra1"], p0["dec1"], ra2b, dec2b, p0["radius"], k0),
                step(ra1c, dec1c, ra2b, dec2b, radc, k0),
                step(ra1c, dec1c, ra2b, dec2b, radc, k0, newobj=True),
                step(ra1c, dec1c, ra2b, dec2b, radc, kc),
                step(p0["ra1"], p0["dec1"], p0["ra2"], p0["dec2"], p0["radius"], k0),
            ]
            cs.append({"steps": steps, "kind": r.choice(["htm", "htm", "matcher"]), "buf": r.choice(["array", "array", "list"]),
                       "depth": depth, "family": "seq:" + fam, "maxmatch": k0})
        for c in cs:
            oracle_fill(c["steps"], ctx.work)
        self.ctx = ctx
        return cs

    def impl(self, c):
        import numpy as np
        import esutil.htm as htm
        st0 = c["steps"][0]
        aslist = c["buf"] == "list"

        def mkbuf(x):
            return [float(t) for t in x] if aslist else np.array(x, dtype="f8")

        def fill(buf, x):
            if aslist:
                buf[:] = [float(t) for t in x]
            else:
                buf[...] = np.array(x, dtype="f8")
        bufs = {k: mkbuf(st0[k]) for k in ("ra1", "dec1", "ra2", "dec2")}
        radbuf = mkbuf(st0["radius"]) if isinstance(st0["radius"], list) else None
        h = htm.HTM(c["depth"])
        m, mkey = None, None
        outs = []
        for st in c["steps"]:
            if st.get("newobj"):
                args = {k: mkbuf(st[k]) for k in ("ra1", "dec1", "ra2", "dec2")}
                rad = mkbuf(st["radius"]) if isinstance(st["radius"], list) else float(st["radius"])
            else:
                for k in ("ra1", "dec1", "ra2", "dec2"):
                    fill(bufs[k], st[k])
                if radbuf is not None and isinstance(st["radius"], list):
                    fill(radbuf, st["radius"])
                    rad = radbuf
                else:
                    rad = st["radius"] if not isinstance(st["radius"], list) else mkbuf(st["radius"])
                args = bufs

            def call():
                nonlocal m, mkey
                if c["kind"] == "htm":
                    res = h.match(args["ra1"], args["dec1"], args["ra2"], args["dec2"], rad, maxmatch=st["maxmatch"])
                else:
                    key = (tuple(st["ra2"]), tuple(st["dec2"]))
                    if m is None or key != mkey:        # the Matcher is rebuilt (from the same buffer objects) when the second set changed
                        m, mkey = htm.Matcher(c["depth"], args["ra2"], args["dec2"]), key
                    res = m.match(args["ra1"], args["dec1"], rad, maxmatch=st["maxmatch"])
                rows = _rows(res)
                # ownership: the caller overwrites the RETURNED arrays; the next calls must not see that
                for arr in res:
                    if isinstance(arr, np.ndarray) and arr.flags.writeable:
                        arr[...] = -7
                return rows
            hist = core.guarded(call)

            def alone():
                a = {k: np.array(st[k], dtype="f8") for k in ("ra1", "dec1", "ra2", "dec2")}
                rd = np.array(st["radius"], dtype="f8") if isinstance(st["radius"], list) else float(st["radius"])
                return _rows(htm.HTM(c["depth"]).match(a["ra1"], a["dec1"], a["ra2"], a["dec2"], rd, maxmatch=st["maxmatch"]))
            fresh = core.guarded(alone)
            root = os.environ.get("VERIF_IMPL", "")
            try:
                tri, cover, dupfree, ntri = index_oracles(st, c["depth"], root)
                dcode, err = code_distances(st), None
            except Exception as e:  # noqa
                tri, cover, dupfree, ntri, dcode, err = [], [], False, 0, [], "%s: %s" % (type(e).__name__, e)
            outs.append({"res": hist, "fresh": fresh, "tri": tri, "cover": cover, "dupfree": dupfree, "ntri": ntri,
                         "dcode": dcode, "oracle_error": err})
        return {"steps": outs}

    def term(self, c, out):
        ts = []
        for st, o in zip(c["steps"], out["steps"]):
            ts.append(Match.term(self, st, o))
            ts.append(Variants.term(self, st, {"outs": [o["res"], o["fresh"]]}))
        return "vseq [%s]" % "; ".join("(%s)" % t for t in ts)

    def nontrivial(self, c, out):
        return any(Base.nontrivial(self, st, None) for st in c["steps"])

    def family(self, c):
        return c.get("family", self.name)


class Cover(Base):
    """run-time monitor of hypothesis H_cover (real intersect / lookup_id against true separations)"""
    name = "cover_contract"

    def cases(self, ctx, round=0):
        cs = self.problems(ctx, round, 5 if round == 0 else 2, 26 if round == 0 else 8)
        return self.prepare(ctx, cs)

    def impl(self, c):
        tri, cover, dupfree, ntri = index_oracles(c, c["depth"], os.environ.get("VERIF_IMPL", ""))
        return {"tri": tri, "cover": cover, "dupfree": dupfree, "ntri": ntri}

    def term(self, c, out):
        n1, n2 = len(c["ra1"]), len(c["ra2"])
        E = scale_exp(c, [])
        return "v_cover %d %d %s %s %d %s %s %s" % (n1, n2, c_dtrue(c, E), c_rads(c, E), E,
                                                   zlist(out["tri"]), zmat(out["cover"]), cbool(out["dupfree"]))


class Reject(Entry):
    """argument normalisation: mismatched sizes raise ValueError (the property is silent; model = code)"""
    name = "sizes"

    def cases(self, ctx, round=0):
        r = ctx.rng
        cs = []
        for via in ("htm", "matcher"):
            for kind in ("dec1", "dec2", "radius2", "radius_n1+1", "ok1", "okn"):
                n1, n2 = r.randrange(2, 6), r.randrange(2, 6)
                c = {"kind": kind, "via": via, "n1": n1, "n2": n2, "family": "sizes:" + kind}
                cs.append(c)
        return cs if round == 0 else []

    @staticmethod
    def _shape(c):
        n1, n2 = c["n1"], c["n2"]
        n1dec = n1 + 1 if c["kind"] == "dec1" else n1
        n2dec = n2 + 1 if c["kind"] == "dec2" else n2
        nrad = {"radius2": n1 + 2, "radius_n1+1": n1 + 1, "ok1": 1, "okn": n1}.get(c["kind"], 1)
        return n1, n1dec, n2, n2dec, nrad

    def impl(self, c):
        import numpy as np
        import esutil.htm as htm
        n1, n1dec, n2, n2dec, nrad = self._shape(c)

        def f():
            ra1, dec1 = np.linspace(10, 11, n1), np.linspace(80, 81, n1dec)      # far from the second set
            ra2, dec2 = np.linspace(200, 201, n2), np.linspace(-5, -4, n2dec)
            rad = np.full(nrad, 0.01)
            if c["via"] == "htm":
                res = htm.HTM(6).match(ra1, dec1, ra2, dec2, rad, maxmatch=0)
            else:
                res = htm.Matcher(6, ra2, dec2).match(ra1, dec1, rad, maxmatch=0)
            return _rows(res)
        return core.guarded(f)

    def term(self, c, out):
        n1, n1dec, n2, n2dec, nrad = self._shape(c)
        outs = "(Ok %s)" % c_rows(out[1], 0) if out[0] == "ok" else "(Err %s)" % out[1]
        big = 10 ** 12
        return "v_match %d %d %d %d %s %s %s %s %s 0 0 [] %s" % (
            n1, n1dec, n2, n2dec, zlist(range(n2)), zmat([[] for _ in range(n1)]),
            zmat([[big] * n2 for _ in range(n1)]), zmat([[big] * n2 for _ in range(n1)]), zlist([10] * nrad), outs)

    def nontrivial(self, c, out):
        return False


ENTRIES = [Match(), Sequence(), Variants(), FileRT(), FileLong(), Long(), Cover(), Reject()]


# ----------------------------------------------------------------------------
# kernel-checked certificates about the true separation (style R): per sampled pair, Interval
# proves bounds on the haversine, C12_separation_certificate_sound turns them into bounds on
# [true_sep] (acos of the dot product).  Two statements per pair:
#   audit:    the oracle's value D is within 1e-12 degree of the true separation   (about the oracle)
#   reported: the separation the code reports is within 1e-9 degree of the true one (about esutil)
# ----------------------------------------------------------------------------

CERT_PRE = ("From Coq Require Import Reals Lra.\nFrom Interval Require Import Tactic.\n"
            "From EsVerif.C12 Require Import SepModel SepCert.\nOpen Scope R_scope.\n"
            "Ltac side := first [ left; lra | right; split; [ lra | unfold havs, hav, rad; interval with (i_prec 120) ] ].\n"
            "Ltac cert := apply sep_between_intro; side.\n")
AUDIT_TOL = Fraction(1, 10 ** 12)
REPORT_TOL = Fraction(1, 10 ** 9)


def cfr(fr):
    fr = Fraction(fr)
    n, d = fr.numerator, fr.denominator
    body = "%d" % abs(n) if d == 1 else "%d / %d" % (abs(n), d)
    return "(%s%s)" % ("- " if n < 0 else "", body)


def sep_stmt(c, i, j, lo, hi):
    return "sep_between %s %s %s %s %s %s" % (core.cR(c["ra1"][i]), core.cR(c["dec1"][i]), core.cR(c["ra2"][j]),
                                             core.cR(c["dec2"][j]), cfr(lo), cfr(hi))


def cert_pairs(r, c, D, limit):
    n1, n2 = len(c["ra1"]), len(c["ra2"])
    allp = [(i, j) for i in range(n1) for j in range(n2)]
    if len(allp) <= limit:
        return allp
    near = sorted(allp, key=lambda p: abs(float(D[p[0]][p[1]]) - rad_of(c, p[0])))[:2]
    nz = [p for p in allp if float(D[p[0]][p[1]]) > 0]
    ext = ([min(nz, key=lambda p: float(D[p[0]][p[1]])), max(nz, key=lambda p: float(D[p[0]][p[1]]))] if nz else [])
    rnd = [allp[r.randrange(len(allp))] for _ in range(max(0, limit - 4))]
    out = []
    for p_ in near + ext + rnd:
        if p_ not in out:
            out.append(p_)
    return out[:limit]


def certify(ctx, replay=None):
    t0 = time.time()
    r = ctx.rng
    if replay is not None:
        problems = [dict(replay["case"])]
    else:
        problems = [c for c in corpus_all("sepcert")]
        for fam in FAMILIES:
            for _ in range(ctx.n(1, 3)):
                p = gen_problem(r, fam)
                p.update(gen_config(r, p, fam))
                problems.append(p)
    oracle_fill(problems, ctx.work)
    items, lemmas = [], []
    for c in problems:
        D = oracle(c, ctx.work)
        try:
            dcode = code_distances(c)
        except Exception as e:  # noqa
            ctx.violation("sepcert: a 180-degree match raised %s" % type(e).__name__,
                          {"kind": "failing-input", "entry": "sepcert", "case": c, "error": str(e)}, found_input=True)
            continue
        pairs = c.get("pairs") or cert_pairs(r, c, D, 12 if c.get("family", "").startswith("corpus") or replay is not None else ctx.n(2, 5))
        for (i, j) in pairs:
            d = dcode[i][j]
            Dq = Fraction(D[i][j])
            items.append((c, i, j, d, Dq))
            lemmas.append((sep_stmt(c, i, j, Dq - AUDIT_TOL, Dq + AUDIT_TOL), "cert."))
            if d is None or d != d or abs(d) == float("inf"):
                lemmas.append(("False", "fail."))
            else:
                lemmas.append((sep_stmt(c, i, j, Fraction(d) - REPORT_TOL, Fraction(d) + REPORT_TOL), "cert."))
    res = core.coq_lemmas(os.path.join(ctx.work, "sepcert"), CERT_PRE, lemmas, shard=16, tag="sep")
    bad = []
    for k, (c, i, j, d, Dq) in enumerate(items):
        ok_a, ok_r = res[2 * k][0], res[2 * k + 1][0]
        fam = c.get("family", "?")
        one = {"ra1": [c["ra1"][i]], "dec1": [c["dec1"][i]], "ra2": [c["ra2"][j]], "dec2": [c["dec2"][j]],
               "radius": 180.0, "scale": 180.0, "pairs": [[0, 0]], "family": fam}
        ctx.case(["sepcert", one["ra1"], one["dec1"], one["ra2"], one["dec2"]], Dq != 0, "cert:" + fam,
                 sample={"entry": "sepcert", "input": one, "impl_output": {"d12": d, "oracle": str(float(Dq))}})
        ctx.count("cert:audit:%s" % ("ok" if ok_a else "FAILED"))
        ctx.count("cert:reported:%s" % ("ok" if ok_r else "FAILED"))
        if not ok_a:
            ctx.obligation("oracle audit (mpmath value within 1e-12 deg of true_sep) pair %d" % k, False, res[2 * k][1])
            ctx.violation("sepcert: the separation oracle could not be certified by Interval on a pair (defect of the "
                          "harness' assumptions, not necessarily of esutil)",
                          {"kind": "oracle-audit", "entry": "sepcert", "case": one, "oracle": str(Dq), "log": res[2 * k][1][-800:],
                           "no_longer_checks": "trust in harness/props/c12_oracle.py"}, found_input=False)
        if not ok_r:
            bad.append((k, one, d, Dq))
    ctx.obligation("sepcert: %d pairs, oracle audited to 1e-12 deg and reported separation certified to 1e-9 deg by Interval" % len(items),
                   all(res[2 * k][0] and res[2 * k + 1][0] for k in range(len(items))))
    # a reported separation that could not be certified: certify the opposite
    if bad:
        ref = []
        for k, one, d, Dq in bad[:20]:
            if d is None or d != d or abs(d) == float("inf"):
                ref += [("False", "fail."), ("False", "fail.")]
                continue
            eps = REPORT_TOL * Fraction(1001, 1000)
            ref.append((sep_stmt(one, 0, 0, Fraction(d) + eps, 181), "cert."))     # true separation is larger
            ref.append((sep_stmt(one, 0, 0, -1, Fraction(d) - eps), "cert."))      # true separation is smaller
        rr = core.coq_lemmas(os.path.join(ctx.work, "sepref"), CERT_PRE, ref, shard=8, tag="ref")
        for n_, (k, one, d, Dq) in enumerate(bad[:20]):
            certain = rr[2 * n_][0] or rr[2 * n_ + 1][0]
            ctx.violation("sepcert: reported separation %r differs from the true one (%.17g) by more than 1e-9 degree%s" % (
                d, float(Dq), " [kernel-checked]" if certain else " [not certified either way]"),
                {"kind": "failing-input", "entry": "sepcert", "case": one, "impl_output": {"d12": d}, "true": str(Dq),
                 "certified": bool(certain), "class": None}, found_input=bool(certain))
            break
    ctx.count("wall_s:sepcert", round(time.time() - t0, 1))


class Watchdog:
    """A forked watcher process: when one call of the real code does not return within `limit`
    seconds (the C++ code holds the GIL, so neither a signal handler nor a thread could notice),
    it writes the replay of that case, prints the VIOLATION line and kills the run, which ./check
    then also reports as a died process."""

    def __init__(self, ctx, limit):
        self.path = os.path.join(ctx.work, "heartbeat.json")
        self.limit = limit
        self.idle()
        sys.stdout.flush()
        pid = os.fork()
        if pid == 0:
            try:
                self._watch(ctx, os.getppid())
            finally:
                os._exit(0)
        self.pid = pid

    def _put(self, obj):
        tmp = self.path + ".tmp"
        with open(tmp, "w") as f:
            json.dump(obj, f, default=str)
        os.replace(tmp, self.path)

    def beat(self, entry, case):
        self._put({"t": time.time(), "entry": entry, "case": case})

    def idle(self):
        self._put({"t": time.time(), "idle": True})

    def stop(self):
        try:
            os.kill(self.pid, 15)
            os.waitpid(self.pid, 0)
        except OSError:
            pass

    def _report(self, ctx, hb, what):
        # the run is gone or about to be killed: print the violations it has recorded so far (their
        # replay files are on disk), which its own final report would have printed, then this case
        rd = os.path.join(core.VERIF, "replays")
        for f in sorted(os.listdir(rd)):
            fp = os.path.join(rd, f)
            if f.startswith(ctx.pid + "-") and os.path.getmtime(fp) >= ctx.t0:
                try:
                    r_ = json.load(open(fp))
                    print("VIOLATION property=%s replay=%s%s\n  -> %s" % (
                        ctx.pid, fp, "" if r_.get("failing_input_found") else " no-failing-input-found", str(r_.get("what"))[:300]))
                except (OSError, ValueError):
                    pass
        ctx.violations = []
        ctx.violation(what, {"kind": "failing-input", "entry": hb["entry"], "case": hb["case"], "impl_output": "no return",
                             "class": None}, found_input=True)
        print("VIOLATION property=%s replay=%s\n  -> %s" % (ctx.pid, ctx.violations[0]["replay"], what))
        sys.stdout.flush()

    def _watch(self, ctx, parent):
        while True:
            time.sleep(2)
            try:
                hb = json.load(open(self.path))
            except (OSError, ValueError):
                return                      # the run finished and removed its work directory
            try:
                os.kill(parent, 0)
                alive = os.getppid() == parent
            except OSError:
                alive = False
            if not alive:
                # the run died (segmentation fault, out-of-memory kill) -- during a call of the real code?
                if not hb.get("idle"):
                    self._report(ctx, hb, "%s: the process died while the implementation was executing this case" % hb["entry"])
                return
            if hb.get("idle") or time.time() - hb["t"] <= self.limit:
                continue
            self._report(ctx, hb, "%s: the implementation did not return within %d s on this case" % (hb["entry"], self.limit))
            try:
                os.kill(parent, 9)
            except OSError:
                pass
            return

    def wrap(self, entries):
        for ent in entries:
            if getattr(ent, "_watched", False):
                continue
            orig = ent.impl

            def impl(c, ent=ent, orig=orig):
                self.beat(ent.name, c)
                try:
                    return orig(c)
                finally:
                    self.idle()
            ent.impl = impl
            ent._watched = True


def extra_theorems(ctx, module, allow, nmin, what, assumptions_in_quick=True):
    """build C12/<module>.vo and check Print Assumptions of each of its theorems; one obligation per theorem.
    assumptions_in_quick=False: in the quick tier the obligations are the successful build only (no axiom can be
    declared in the development: grep_forbidden), Print Assumptions is run in the thorough tier."""
    thms = core.theorems_in(os.path.join(core.COQDIR, "theories", "C12", module + ".v"))
    ok, log = core.coq_make(["theories/C12/%s.vo" % module])
    ctx.checker_cmds.append("make -C coq theories/C12/%s.vo && coqc Print Assumptions <each theorem>" % module)
    if not ok:
        for t in thms:
            ctx.obligation("C12.%s" % t, False, "build failed")
        ctx.violation("proof obligations of C12/%s.v do not build: %s" % (module, what),
                      {"kind": "proof-build", "theorems": thms, "log_tail": log[-3000:], "no_longer_checks": what},
                      found_input=False)
        return False
    if ctx.quick() and not assumptions_in_quick:
        for t in thms:
            ctx.obligation("C12.%s (built; Print Assumptions in the thorough tier)" % t, True)
        return len(thms) >= nmin
    res, bad, raw = core.assumptions(ctx.work, "C12." + module, thms, allow)
    badthm = set(t for t, _ in bad)
    axs = set()
    for t in thms:
        ctx.obligation("C12.%s" % t, t not in badthm)
        axs.update((res or {}).get(t, []))
    ctx.assumptions_txt.append("Print Assumptions over %d theorems of C12/%s.v: %s" % (
        len(thms), module, ("axioms used: " + ", ".join(sorted(axs))) if axs else "all closed under the global context"))
    if bad or len(thms) < nmin:
        ctx.violation("theorem of C12/%s.v missing or depending on an axiom outside the allow-list: %s" % (module, bad[:3]),
                      {"kind": "assumptions", "bad": bad, "theorems": thms}, found_input=False)
        return False
    return True


def corpus_all(entry_name):
    from ..runner import corpus_cases
    return corpus_cases("C12", entry_name)

TRUSTED = [
    "Coq 8.16.1 kernel (coqc, vm_compute; no native_compute).  The 19 theorems of C12/Properties.v, the 10 of "
    "C12/DeepProperties.v and the 7 of C12/TieProperties.v are closed under the global context (no axioms); the 3 of "
    "C12/SepNumProperties.v use the reals axioms plus the primitive-float specifications (two constants bounded by Interval); "
    "the 6 of C12/SepProperties.v use only the standard "
    "library's axioms of the reals (ClassicalDedekindReals.sig_forall_dec, sig_not_dec, functional_extensionality_dep, "
    "Classical_Prop.classic); the per-case interval lemmas additionally the primitive-float/int specifications used by Interval",
    "hand-written model C12/Model.v of Matcher::init_hmap / Matcher::match (htmc.cc) and HTM.match / Matcher.match / read_pairs "
    "(htm.py); tied to the code (a) by the correspondence run on every check (differential testing, bounded by the generators) and "
    "(b) by harness/props/c12_translate.py, which regenerates C12/Gen.v (distance filter, sort comparator, emit guard, maxmatch "
    "truncation, radius selection, all 8 for-headers, the candidate row, fprintf format and columns, the size checks with their exception class, the defaults of maxmatch/file, the delegation calls argument by argument, read_pairs dtype/delimiter and its empty-file test) and "
    "C12/GenR.v (NPY_PI/D2R/R2D, the whole body of gcirc, MATCH_COVER_PAD_DEGREES and match_cover_cosine) from the source of the "
    "tree under check, fail-closed; TieProperties.v / SepProperties.v are re-proved against them.  The translator itself "
    "(regex/ast pattern matching, ~500 lines python) is trusted",
    "assumed, not proved (hypothesis H_cover of the theorems): the JHU HTM library -- lookupID and SpatialDomain::intersect "
    "(circle cover) -- every point within the radius lies in a listed triangle, ids duplicate-free; monitored on every case by "
    "the cover_contract entry and, end to end, by the verified checker on the real output against brute-force true separations",
    "assumed (sort_contract): std::sort returns a permutation sorted by d12 (tie order unspecified; model = code is compared up "
    "to the order of equal distances); distances finite (no NaN coordinates)",
    "gcirc: its FORMULA (translated from the source) is proved equal to the true great-circle separation over R "
    "(C12_gcirc_is_true_separation; atan2 for y >= 0 is modelled by SepModel.atan2u); binary64 rounding and libm "
    "(sin/cos/sqrt/atan2 in long double/double) are not modelled: the values the real code computes are read off a 180-degree "
    "match, compared on every returned row with the true separation (tolerance 1e-9 degree, the band the property leaves "
    "unconstrained) and, on a sample of pairs per run, certified to be within 1e-9 degree of true_sep by kernel-checked Interval "
    "lemmas (sepcert); printf(\"%.16g\")/strtod (file round trip) are represented by python's correctly rounded conversions",
    "true separations: harness/props/c12_oracle.py (mpmath, 60 significant digits, float64 inputs taken exactly), run by the "
    "tooling interpreter; exchanged with Coq as exact integers in units of 1e-9*2^-E degree; audited on a sample of pairs per run "
    "(value within 1e-12 degree of true_sep, by Interval + C12_separation_certificate_sound)",
    "python harness (harness/props/C12.py), literal printers, coqc evaluating Exec.v verdict terms; numpy's astype('f8') "
    "conversion of byte-swapped / strided inputs is exercised, not modelled",
]


def run(ctx, replay=None):
    ctx.rule = ("corpus + adversarial families (uniform, caps 1e-4..30 deg, both poles, seam, duplicates, self-matching, triangle "
                "edges with tiny offsets, edges of triangles of the depth in use located by bisection of lookup_id, tiny separations, near-antipodal, radius 0, per-point radii, separations just beyond "
                "the 1e-9 deg band around the radius) x depths 1..13 x maxmatch in {-1,0,1,2,k,>n2} x {HTM.match, Matcher} x "
                "{plain, byte-swapped, strided, negative-stride, list} inputs; every case is run on the real esutil and inside "
                "Coq (model = implementation up to ties?  verified checker on the implementation's rows against 60-digit true "
                "separations).  non-trivial: at least one pair inside and one outside the radius beyond the tolerance.  "
                "distinct by canonical JSON.  In addition a family-balanced sample of pairs is certified by Interval lemmas "
                "against true_sep = acos(u1.u2): oracle value within 1e-12 deg, reported separation within 1e-9 deg (cert:* keys).")
    ctx.trusted = TRUSTED
    # 1. decisions, loop headers, size checks, file format (Gen.v) and the distance formula, the
    #    constants and the searched cap (GenR.v) are regenerated from the source of the tree under check
    try:
        summary, changed = c12_translate.regenerate(ctx.impl, core.COQDIR)
        ctx.obligation("C12/Gen.v + GenR.v regenerated from esutil/htm/htmc.cc, htmc.h, htm.py (filter %r, comparator %r, "
                       "format %r, cover pad %s)%s" % (summary["keep"], summary["before"], summary["format"], summary["pad"],
                                                       " [changed]" if changed else ""), True)
    except c12_translate.TranslateError as e:
        ctx.obligation("C12/Gen.v + GenR.v regenerated from the source", False, str(e))
        ctx.violation("translation of the matcher's decisions / gcirc failed: %s" % e,
                      {"kind": "translation", "error": str(e),
                       "no_longer_checks": "tie of C12/Gen.v, GenR.v (hence C12_source_*, C12_gcirc_*) to esutil/htm"},
                      found_input=False)
    # 2. theorems.  Properties.v (general theorems, independent of the regenerated files) and
    #    TieProperties.v (model = regenerated source text) closed under the global context;
    #    SepProperties.v (real numbers) may use the axioms of the standard library of reals only
    core.proof_step(ctx, "C12", core.ALLOW_DISCRETE)
    extra_theorems(ctx, "TieProperties", core.ALLOW_DISCRETE, 7,
                   "tie of C12/Model.v to the regenerated C12/Gen.v (decisions, loops, size checks, file format of the source)")
    extra_theorems(ctx, "DeepProperties", core.ALLOW_DISCRETE, 10,
                   "C12/DeepProperties.v (verified sort inside the model, H_cover satisfiable, history, rejections, checker decides, monitor sound, file rows meet the statement)")
    extra_theorems(ctx, "SepNumProperties", core.ALLOW_INTERVAL, 3,
                   "C12/SepNumProperties.v over the regenerated C12/GenR.v (cap robust to rounding with the source's pad; conditioning of the atan2 form)",
                   assumptions_in_quick=False)
    extra_theorems(ctx, "SepProperties", core.ALLOW_REALS, 6,
                   "C12/SepProperties.v over the regenerated C12/GenR.v (gcirc is the true separation; every point within the radius lies in the searched cap)")
    # 3. the real code against the model and the verified checker (a call that does not return is
    #    reported with its case by the watchdog)
    wd = Watchdog(ctx, ctx.n(120, 300))
    try:
        wd.wrap(ENTRIES)
        if replay is not None and replay.get("entry") == "sepcert":
            core.coq_make(["theories/C12/SepCert.vo"])
            certify(ctx, replay)
            return
        differential(ctx, PRE, ENTRIES, replay)
    finally:
        wd.stop()
    # 4. kernel-checked separations on a sample (needs SepProofs.vo, which needs GenR.v to build)
    if replay is None:
        ok, log = core.coq_make(["theories/C12/SepCert.vo"])
        if ok:
            certify(ctx)
        else:
            ctx.obligation("C12/SepCert.vo builds", False, log[-500:])
            ctx.violation("C12/SepCert.v does not build", {"kind": "proof-build", "log_tail": log[-3000:]}, found_input=False)
    for n_ in _ORACLE_NOTE:
        if n_ not in ctx.notes:
            ctx.notes.append(n_)

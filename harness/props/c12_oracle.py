"""Independent high-precision oracle for great-circle separations (C12).

Run as a script by the tooling interpreter (python3-vt, which has mpmath):
    python3-vt c12_oracle.py IN.json OUT.json
IN  = [{"ra1": [...], "dec1": [...], "ra2": [...], "dec2": [...]}, ...]   (float64 degrees)
OUT = [[["<decimal string, degrees, >= 40 significant digits>", ...] per second point] per first point] per problem

The separation is atan2(|a x b|, a.b) of the two unit vectors evaluated with 60 significant
digits (the float64 inputs are taken as exact); bit-identical coordinates give exactly "0".
Nothing of esutil is imported here.
"""
import json
import sys


def solve(problems):
    import mpmath as mp
    mp.mp.dps = 60

    def unit(ra, dec):
        r = mp.radians(mp.mpf(ra))
        d = mp.radians(mp.mpf(dec))
        c = mp.cos(d)
        return (c * mp.cos(r), c * mp.sin(r), mp.sin(d))

    out = []
    for p in problems:
        v1 = [unit(a, b) for a, b in zip(p["ra1"], p["dec1"])]
        v2 = [unit(a, b) for a, b in zip(p["ra2"], p["dec2"])]
        rows = []
        for i, (x1, y1, z1) in enumerate(v1):
            row = []
            for j, (x2, y2, z2) in enumerate(v2):
                if p["ra1"][i] == p["ra2"][j] and p["dec1"][i] == p["dec2"][j]:
                    row.append("0")
                    continue
                cx = y1 * z2 - z1 * y2
                cy = z1 * x2 - x1 * z2
                cz = x1 * y2 - y1 * x2
                s = mp.sqrt(cx * cx + cy * cy + cz * cz)
                c = x1 * x2 + y1 * y2 + z1 * z2
                row.append(mp.nstr(mp.degrees(mp.atan2(s, c)), 45, strip_zeros=False))
            rows.append(row)
        out.append(rows)
    return out


def _worker(chunk):
    return solve(chunk)


def main():
    problems = json.load(open(sys.argv[1]))
    nproc = int(sys.argv[3]) if len(sys.argv) > 3 else 1
    if nproc > 1 and len(problems) > 8:
        import multiprocessing as mpc
        k = max(1, len(problems) // (nproc * 4))
        chunks = [problems[i:i + k] for i in range(0, len(problems), k)]
        with mpc.Pool(nproc) as pool:
            res = pool.map(_worker, chunks)
        out = [x for r in res for x in r]
    else:
        out = solve(problems)
    json.dump(out, open(sys.argv[2], "w"))


if __name__ == "__main__":
    main()

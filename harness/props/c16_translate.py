"""Translator for C16: regenerates coq/theories/C16/Gen.v from the SOURCE of esutil/numpy_util.py and
esutil/recfile/Util.py of the tree under check (python `ast` -> Gallina), on every run.

What is translated (whole function bodies, statement by statement, into Gallina definitions written against
the primitives of C16/Ext.v; C16/Tie.v proves `generated definition = hand model of C16/Model.v / Ext.v`):

  numpy_util.is_big_endian / is_little_endian, recfile.Util.is_little_endian
        the machine flag (`if np.little_endian: m = .. else: m = ..`), where the order letter is read from
        (`.dtype[.base].byteorder`), the returned boolean expression: which letters are tested directly and
        which only together with the machine flag ('=' ...)
  numpy_util.to_native / to_big_endian / to_little_endian, recfile.Util.to_native_inplace
        flag initialisation, the `array.dtype.names is None` split, the predicate applied to a plain array,
        the field scan (`for fname in names: if <test>(array[fname]): flag = v; break`: tested predicate,
        negation, value set, break), the swap condition as a boolean expression, the call of byteswap with
        its positional / keyword arguments, `array` vs `array.copy()` in the no-swap branch, keyword defaults
  numpy_util.byteswap
        `array.byteswap(<arg>)`, the `keep_dtype` test, assignment to `.dtype` (same object) vs `.view(...)`
        (new object), the argument of `newbyteorder`
  recfile.Util.to_native
        `newbyteorder("=")`, the dtype comparison, `return array` (same object) vs `astype` (converted copy)
  numpy_util.descr_to_native, recfile.Util.remove_dtype_byteorder
        which component of a descriptor entry is sliced, from which position, how the entry is rebuilt

Anything outside the statement / expression subset below raises TranslateError (fail closed): the caller then
writes the reference Gen.v (so that Gen.v never keeps the text of some other tree) and reports a broken tie.
Gen.v is rewritten only when its text changes (atomic rename)."""
import ast
import os


class TranslateError(Exception):
    pass


ORD = {"<": "LE", ">": "BE", "|": "NA", "=": "NAT"}
NBARG = {None: "NbSwap", "S": "NbSwap", "s": "NbSwap", "=": "NbNative", "N": "NbNative", "n": "NbNative",
         "<": "NbLittle", "L": "NbLittle", "l": "NbLittle", ">": "NbBig", "B": "NbBig", "b": "NbBig",
         "|": "NbIgnore", "I": "NbIgnore", "i": "NbIgnore"}
RESERVED = {"o_", "fs_", "np_le", "if", "then", "else", "let", "in", "match", "with", "end", "fun", "forall",
            "exists", "return", "as", "at", "using", "where", "fix", "cofix", "for", "Type", "Prop", "Set"}

NU_PREDS = ["is_big_endian", "is_little_endian"]
NU_CONVS = ["byteswap", "to_native", "to_big_endian", "to_little_endian"]     # byteswap first: the others call it
RU_PREDS = ["is_little_endian"]


def u(n):
    return ast.unparse(n)


def _func(tree, name, where):
    fs = [n for n in tree.body if isinstance(n, ast.FunctionDef) and n.name == name]
    if len(fs) != 1:
        raise TranslateError("%s: expected exactly one top-level def %s, found %d" % (where, name, len(fs)))
    if fs[0].decorator_list:
        raise TranslateError("%s.%s: the function is decorated" % (where, name))
    # the name must not be bound a second time at module level (assignment, import, class)
    for n in tree.body:
        bound = []
        if isinstance(n, (ast.Assign, ast.AugAssign, ast.AnnAssign)):
            for t in (n.targets if isinstance(n, ast.Assign) else [n.target]):
                bound += [x.id for x in ast.walk(t) if isinstance(x, ast.Name)]
        elif isinstance(n, (ast.Import, ast.ImportFrom)):
            bound += [(a.asname or a.name).split(".")[0] for a in n.names]
        elif isinstance(n, ast.ClassDef):
            bound.append(n.name)
        if name in bound:
            raise TranslateError("%s: the name %s is re-bound at module level (line %d)" % (where, name, n.lineno))
    return fs[0]


def _strip_doc(body):
    if body and isinstance(body[0], ast.Expr) and isinstance(body[0].value, ast.Constant) and isinstance(body[0].value.value, str):
        return body[1:]
    return body


def _sig(fn, where):
    a = fn.args
    if a.vararg or a.kwarg or a.kwonlyargs or a.posonlyargs:
        raise TranslateError("%s.%s: unexpected signature" % (where, fn.name))
    names = [x.arg for x in a.args]
    nd = len(a.defaults)
    dflt = {}
    for nm, d in zip(names[len(names) - nd:], a.defaults):
        if not (isinstance(d, ast.Constant) and isinstance(d.value, bool)):
            raise TranslateError("%s.%s: default of %s is %s (expected True/False)" % (where, fn.name, nm, u(d)))
        dflt[nm] = d.value
    return names, dflt


def _b(x):
    return "true" if x else "false"


class T:
    """translation of one function body"""

    def __init__(self, mod, fn, kind, preds, convs, sigs):
        self.mod, self.fn, self.kind = mod, fn, kind        # mod: 'nu' | 'ru'; kind: 'pred' | 'conv' | 'conv1' | 'inplace'
        self.where = "%s.%s" % ({"nu": "numpy_util", "ru": "recfile.Util"}[mod], fn.name)
        self.preds, self.convs, self.sigs = preds, convs, sigs
        self.nbyteswap = 0
        self.arrparam = None       # name of the array (or dtype) parameter
        self.fs_bound = False      # inside the structured branch of the `names is None` split
        self.loopvar = None

    def err(self, msg, node=None):
        raise TranslateError("%s: %s%s" % (self.where, msg, (" [line %d: %s]" % (node.lineno, u(node)[:80])) if node is not None else ""))

    def ident(self, name, node=None):
        if name in RESERVED or not name.isidentifier() or name.endswith("_g"):
            self.err("variable name %r cannot be used" % name, node)
        return name

    # ---------------------------------------------------------------- expressions -> (gallina, type)
    def order_const(self, n):
        if isinstance(n, ast.Constant) and isinstance(n.value, str) and n.value in ORD:
            return ORD[n.value]
        self.err("not a byte-order letter: %s" % u(n), n)

    def is_arr(self, n):
        return isinstance(n, ast.Name) and n.id == self.arrparam

    def order_of_arg(self, n):
        """the order letter a predicate reads from its argument: array | array.dtype | array[fname] | array[fname].dtype"""
        if isinstance(n, ast.Attribute) and n.attr == "dtype":
            n = n.value
        if self.is_arr(n) and self.kind != "pred":
            return "base_order (adt %s)" % self.arrparam
        if (isinstance(n, ast.Subscript) and self.is_arr(n.value) and isinstance(n.slice, ast.Name)
                and self.loopvar is not None and n.slice.id == self.loopvar):
            return "o_"
        self.err("predicate argument is neither the array nor array[<loop variable>]: %s" % u(n), n)

    def dtype_expr(self, n, env):
        """-> gallina of type dtype, or None"""
        if isinstance(n, ast.Attribute) and n.attr == "dtype":
            if self.is_arr(n.value) and self.kind != "pred":
                return "adt %s" % self.arrparam
            if isinstance(n.value, ast.Name) and env.get(n.value.id) == "outcome":
                return "adt (o_res %s)" % n.value.id
            return None
        if isinstance(n, ast.Name) and env.get(n.id) == "dtype":
            return n.id
        if (isinstance(n, ast.Call) and isinstance(n.func, ast.Attribute) and n.func.attr == "newbyteorder"):
            inner = self.dtype_expr(n.func.value, env)
            if inner is None:
                return None
            return "dt_newbyteorder %s np_le (%s)" % (self.nbarg(n), inner)
        return None

    def nbarg(self, call):
        if call.keywords and not (len(call.keywords) == 1 and call.keywords[0].arg == "new_order" and not call.args):
            self.err("newbyteorder with unexpected keywords", call)
        args = list(call.args) + [k.value for k in call.keywords]
        if len(args) > 1:
            self.err("newbyteorder with %d arguments" % len(args), call)
        if not args:
            return NBARG[None]
        a = args[0]
        if not (isinstance(a, ast.Constant) and isinstance(a.value, str) and a.value in NBARG):
            self.err("newbyteorder argument is not a literal order letter: %s" % u(a), a)
        return NBARG[a.value]

    def newbo_fun(self, call, recv, env):
        """call = <recv>.dtype.newbyteorder(..) -> gallina function dtype -> dtype"""
        if not (isinstance(call, ast.Call) and isinstance(call.func, ast.Attribute) and call.func.attr == "newbyteorder"
                and isinstance(call.func.value, ast.Attribute) and call.func.value.attr == "dtype"
                and isinstance(call.func.value.value, ast.Name) and call.func.value.value.id == recv):
            self.err("expected %s.dtype.newbyteorder(...)" % recv, call)
        return "(dt_newbyteorder %s np_le)" % self.nbarg(call)

    def bexpr(self, n, env):
        """boolean expression -> gallina"""
        if isinstance(n, ast.Constant) and isinstance(n.value, bool):
            return _b(n.value)
        if isinstance(n, ast.Name):
            if env.get(n.id) == "bool":
                return n.id
            self.err("%s is not a known boolean variable here" % n.id, n)
        if isinstance(n, ast.Attribute) and u(n) in ("np.little_endian", "numpy.little_endian"):
            return "np_le"
        if isinstance(n, ast.UnaryOp) and isinstance(n.op, ast.Not):
            return "negb (%s)" % self.bexpr(n.operand, env)
        if isinstance(n, ast.BoolOp):
            op = " && " if isinstance(n.op, ast.And) else " || "
            return "(" + op.join("(%s)" % self.bexpr(v, env) for v in n.values) + ")"
        if isinstance(n, ast.Compare) and len(n.ops) == 1:
            op, l, r = n.ops[0], n.left, n.comparators[0]
            if isinstance(l, ast.Name) and env.get(l.id) == "order":
                if isinstance(op, (ast.Eq, ast.NotEq)):
                    e = "order_eqb %s %s" % (l.id, self.order_const(r))
                    return e if isinstance(op, ast.Eq) else "negb (%s)" % e
                if isinstance(op, (ast.In, ast.NotIn)) and isinstance(r, (ast.Tuple, ast.List)):
                    e = "memo %s [%s]" % (l.id, "; ".join(self.order_const(x) for x in r.elts))
                    return e if isinstance(op, ast.In) else "negb (%s)" % e
            if isinstance(r, ast.Name) and env.get(r.id) == "order" and isinstance(op, (ast.Eq, ast.NotEq)):
                e = "order_eqb %s %s" % (r.id, self.order_const(l))
                return e if isinstance(op, ast.Eq) else "negb (%s)" % e
            dl, dr = self.dtype_expr(l, env), self.dtype_expr(r, env)
            if dl is not None and dr is not None and isinstance(op, (ast.Eq, ast.NotEq)):
                e = "dtype_equiv np_le (%s) (%s)" % (dl, dr)
                return e if isinstance(op, ast.Eq) else "negb (%s)" % e
            if isinstance(op, (ast.Eq, ast.NotEq, ast.Is, ast.IsNot)) and self._is_boolish(l, env) and self._is_boolish(r, env):
                e = "Bool.eqb (%s) (%s)" % (self.bexpr(l, env), self.bexpr(r, env))
                return e if isinstance(op, (ast.Eq, ast.Is)) else "negb (%s)" % e
            self.err("comparison outside the subset", n)
        if isinstance(n, ast.Call) and isinstance(n.func, ast.Name) and n.func.id in self.preds:
            if len(n.args) != 1 or n.keywords:
                self.err("predicate call with unexpected arguments", n)
            return "%s_%s_g np_le (%s)" % (self.mod, n.func.id, self.order_of_arg(n.args[0]))
        self.err("boolean expression outside the subset", n)

    def _is_boolish(self, n, env):
        return ((isinstance(n, ast.Constant) and isinstance(n.value, bool)) or (isinstance(n, ast.Name) and env.get(n.id) == "bool")
                or (isinstance(n, ast.Attribute) and u(n) in ("np.little_endian", "numpy.little_endian")))

    def oexpr(self, n, env):
        """expression denoting an array object -> gallina of type outcome"""
        if self.is_arr(n):
            return "prim_self %s" % self.arrparam
        if isinstance(n, ast.Name) and env.get(n.id) == "outcome":
            return n.id
        if isinstance(n, ast.Call):
            f = n.func
            if isinstance(f, ast.Attribute) and self.is_arr(f.value):
                if f.attr == "copy" and not n.args and not n.keywords:
                    return "prim_copy %s" % self.arrparam
                if f.attr == "byteswap":
                    self.nbyteswap += 1
                    args = list(n.args)
                    for k in n.keywords:
                        if k.arg != "inplace":
                            self.err("ndarray.byteswap with keyword %s" % k.arg, n)
                        args.append(k.value)
                    if len(args) > 1:
                        self.err("ndarray.byteswap with %d arguments" % len(args), n)
                    return "prim_byteswap %s (%s)" % (self.arrparam, self.bexpr(args[0], env) if args else "false")
                if f.attr == "astype" and len(n.args) == 1 and not n.keywords:
                    d = self.dtype_expr(n.args[0], env)
                    if d is None:
                        self.err("astype target is not a dtype expression of the subset", n)
                    return "prim_astype np_le %s (%s)" % (self.arrparam, d)
            if isinstance(f, ast.Attribute) and f.attr == "view" and isinstance(f.value, ast.Name) \
                    and env.get(f.value.id) == "outcome" and len(n.args) == 1 and not n.keywords:
                return "prim_view %s %s" % (self.newbo_fun(n.args[0], f.value.id, env), f.value.id)
            if isinstance(f, ast.Name) and f.id in self.convs and self.kind in ("conv",):
                names, dflt = self.sigs[f.id]
                if not n.args or not self.is_arr(n.args[0]):
                    self.err("call of %s whose first argument is not the array" % f.id, n)
                vals = {}
                for nm, a in zip(names[1:], n.args[1:]):
                    vals[nm] = self.bexpr(a, env)
                if len(n.args) > len(names):
                    self.err("too many arguments for %s" % f.id, n)
                for k in n.keywords:
                    if k.arg not in names[1:] or k.arg in vals:
                        self.err("bad keyword %s for %s" % (k.arg, f.id), n)
                    vals[k.arg] = self.bexpr(k.value, env)
                out = []
                for nm in names[1:]:
                    if nm in vals:
                        out.append("(%s)" % vals[nm])
                    elif nm in dflt:
                        out.append(_b(dflt[nm]))
                    else:
                        self.err("argument %s of %s is missing" % (nm, f.id), n)
                return "%s_%s_g np_le %s %s" % (self.mod, f.id, self.arrparam, " ".join(out))
        self.err("array expression outside the subset", n)

    # ---------------------------------------------------------------- statements (continuation passing)
    def assigned(self, stmts):
        out = set()
        for s in stmts:
            for n in ast.walk(s):
                if isinstance(n, ast.Assign):
                    for t in n.targets:
                        if isinstance(t, ast.Name):
                            out.add(t.id)
                        elif isinstance(t, ast.Attribute) and isinstance(t.value, ast.Name):
                            out.add(t.value.id)
                        else:
                            self.err("assignment target outside the subset", n)
                elif isinstance(n, (ast.AugAssign, ast.AnnAssign, ast.NamedExpr, ast.Delete, ast.Global, ast.Nonlocal,
                                    ast.With, ast.Try, ast.While, ast.Lambda, ast.FunctionDef, ast.ClassDef,
                                    ast.Import, ast.ImportFrom, ast.Raise, ast.Assert)):
                    self.err("statement outside the subset: %s" % type(n).__name__, n)
        return out

    def is_names_none(self, t):
        """array.dtype.names is None -> True; is not None -> False; else None"""
        if (isinstance(t, ast.Compare) and len(t.ops) == 1 and isinstance(t.ops[0], (ast.Is, ast.IsNot))
                and isinstance(t.comparators[0], ast.Constant) and t.comparators[0].value is None
                and isinstance(t.left, ast.Attribute) and t.left.attr == "names"
                and isinstance(t.left.value, ast.Attribute) and t.left.value.attr == "dtype" and self.is_arr(t.left.value.value)):
            return isinstance(t.ops[0], ast.Is)
        return None

    def block(self, stmts, env, k):
        """gallina for executing stmts in env, then k(env) when the block falls through"""
        if not stmts:
            return k(env)
        s, rest = stmts[0], stmts[1:]
        if isinstance(s, ast.Pass) or (isinstance(s, ast.Expr) and isinstance(s.value, ast.Constant)):
            return self.block(rest, env, k)
        if isinstance(s, ast.Return):
            if rest:
                self.err("statements after return", rest[0])
            return self.ret(s, env)
        if isinstance(s, ast.Assign):
            if len(s.targets) != 1:
                self.err("multiple assignment", s)
            t = s.targets[0]
            if isinstance(t, ast.Attribute):
                if not (t.attr == "dtype" and isinstance(t.value, ast.Name) and env.get(t.value.id) == "outcome"):
                    self.err("attribute assignment outside the subset", s)
                v = t.value.id
                e = "prim_setdtype %s %s" % (self.newbo_fun(s.value, v, env), v)
                return "let %s := %s in\n  %s" % (v, e, self.block(rest, env, k))
            if not isinstance(t, ast.Name):
                self.err("assignment target outside the subset", s)
            v = self.ident(t.id, s)
            if v == self.arrparam or v in self.params:
                self.err("parameter %s is re-bound" % v, s)
            e, ty = self.rhs(s.value, env)
            if v in env and env[v] != ty:
                self.err("variable %s changes its type" % v, s)
            env2 = dict(env)
            env2[v] = ty
            return "let %s := %s in\n  %s" % (v, e, self.block(rest, env2, k))
        if isinstance(s, ast.If):
            return self.if_(s, rest, env, k)
        if isinstance(s, ast.For):
            return self.for_(s, rest, env, k)
        self.err("statement outside the subset: %s" % type(s).__name__, s)

    def rhs(self, n, env):
        # order letter of the predicate's argument
        if self.kind == "pred" and isinstance(n, ast.Attribute) and n.attr == "byteorder":
            src = u(n.value)
            p = self.arrparam
            if src in ("%s.dtype.base" % p, "%s.dtype" % p, "%s.base" % p, p):
                return "o_", "order"
            self.err("byte order read from %s" % src, n)
        d = self.dtype_expr(n, env)
        if d is not None:
            return "(%s)" % d, "dtype"
        if self.is_arr(n) or (isinstance(n, ast.Name) and env.get(n.id) == "outcome") or (
                isinstance(n, ast.Call) and (
                    (isinstance(n.func, ast.Attribute) and n.func.attr in ("copy", "byteswap", "astype", "view"))
                    or (isinstance(n.func, ast.Name) and n.func.id in self.convs))):
            return "(%s)" % self.oexpr(n, env), "outcome"
        return "(%s)" % self.bexpr(n, env), "bool"

    def ret(self, s, env):
        if self.kind == "pred":
            if s.value is None:
                self.err("predicate returns nothing", s)
            return self.bexpr(s.value, env)
        if self.kind == "inplace":
            self.err("return statement in a function modelled as returning None", s)
        if s.value is None:
            self.err("returns nothing", s)
        return self.oexpr(s.value, env)

    def branch_value(self, stmts, env, v, node):
        """value of variable v after executing stmts (which may only assign v)"""
        def k(e):
            if v not in e:
                self.err("%s is not assigned on every path" % v, node)
            return v
        return self.block(stmts, env, k)

    def if_(self, s, rest, env, k):
        nn = self.is_names_none(s.test)
        body, orelse = s.body, s.orelse
        if getattr(self, "decision_mode", False) and nn is None and not self.fs_bound and self.loopvar is None:
            # decision mode: the test of the first top-level `if` whose branches bind the returned array
            av0 = self.assigned(body) | self.assigned(orelse)
            if len(av0) == 1:
                v0 = next(iter(av0))
                n0 = self.nbyteswap
                ty0 = env.get(v0) or self._type_of_assigned(s, v0, env)
                self.nbyteswap = n0
                if ty0 == "outcome":
                    self.decision_found = True
                    return self.bexpr(s.test, env)
        # early return:  if c: return X   <rest>
        if body and isinstance(body[-1], ast.Return) and not orelse and nn is None:
            return "if %s then (%s) else (\n  %s)" % (self.bexpr(s.test, env), self.block(body, env, k), self.block(rest, env, k))
        av = self.assigned(body) | self.assigned(orelse)
        for n in ast.walk(s):
            if isinstance(n, ast.Return):
                self.err("return inside a branch that also continues", n)
        if len(av) != 1:
            self.err("an if statement must assign exactly one variable, this one assigns %s" % sorted(av), s)
        v = next(iter(av))
        if nn is not None:
            if self.fs_bound:
                self.err("nested `names is None` split", s)
            plain, struct = (body, orelse) if nn else (orelse, body)
            pv = self.branch_value(plain, env, v, s) if plain else self._must(env, v, s)
            self.fs_bound = True
            sv = self.branch_value(struct, env, v, s) if struct else self._must(env, v, s)
            self.fs_bound = False
            e = "match adt %s with\n    | DPlain _ => %s\n    | DStruct fs_ => %s\n    end" % (self.arrparam, pv, sv)
        else:
            bv = self.branch_value(body, env, v, s)
            ov = self.branch_value(orelse, env, v, s) if orelse else self._must(env, v, s)
            e = "if %s then (%s) else (%s)" % (self.bexpr(s.test, env), bv, ov)
        env2 = dict(env)
        ty = env.get(v) or self._type_of_assigned(s, v, env)
        env2[v] = ty
        return "let %s := (%s) in\n  %s" % (v, e, self.block(rest, env2, k))

    def _must(self, env, v, node):
        if v not in env:
            self.err("%s is not assigned on every path" % v, node)
        return v

    def _type_of_assigned(self, s, v, env):
        for n in ast.walk(s):
            if isinstance(n, ast.Assign) and isinstance(n.targets[0], ast.Name) and n.targets[0].id == v:
                return self.rhs(n.value, dict(env, **{v: "outcome"}) if False else env)[1]
        self.err("cannot type %s" % v, s)

    def for_(self, s, rest, env, k):
        if not self.fs_bound:
            self.err("loop over the field names outside the structured branch", s)
        if s.orelse or not isinstance(s.target, ast.Name) or u(s.iter) != "%s.dtype.names" % self.arrparam:
            self.err("loop is not `for <name> in %s.dtype.names`" % self.arrparam, s)
        if self.loopvar is not None:
            self.err("nested loop", s)
        if len(s.body) != 1 or not isinstance(s.body[0], ast.If) or s.body[0].orelse:
            self.err("loop body is not a single `if <test>: flag = <const> [break]`", s)
        i = s.body[0]
        b = i.body
        brk = False
        if b and isinstance(b[-1], ast.Break):
            brk, b = True, b[:-1]
        if not (len(b) == 1 and isinstance(b[0], ast.Assign) and len(b[0].targets) == 1 and isinstance(b[0].targets[0], ast.Name)
                and isinstance(b[0].value, ast.Constant) and isinstance(b[0].value.value, bool)):
            self.err("loop body is not a single `if <test>: flag = <const> [break]`", s)
        v = b[0].targets[0].id
        if env.get(v) != "bool":
            self.err("the flag %s set by the loop is not initialised before it" % v, s)
        self.loopvar = s.target.id
        test = self.bexpr(i.test, env)
        self.loopvar = None
        e = "scan_g (fun o_ => %s) %s %s %s fs_" % (test, _b(b[0].value.value), _b(brk), v)
        return "let %s := %s in\n  %s" % (v, e, self.block(rest, env, k))

    def run_decision(self):
        """the swap decision alone: the lets of the body up to the `if` that binds the returned array, then its test"""
        fn = self.fn
        names, dflt = _sig(fn, self.where)
        body = _strip_doc(fn.body)
        self.params = set(names[1:])
        self.arrparam = "array"
        self.decision_mode, self.decision_found = True, False
        if self.kind == "conv":
            env = {"inplace": "bool", "keep_dtype": "bool"}
            e = self.block(body, env, lambda env: self.err("no swap decision found"))
            sig = "(np_le : bool) (array : arr) (inplace keep_dtype : bool)"
        else:
            ovars = sorted(set(t.id for n in ast.walk(fn) if isinstance(n, ast.Assign) and len(n.targets) == 1
                               for t in n.targets if isinstance(t, ast.Name) and isinstance(n.value, ast.Call)
                               and isinstance(n.value.func, ast.Attribute) and n.value.func.attr == "byteswap"))
            if len(ovars) != 1:
                self.err("expected exactly one variable bound to array.byteswap(...), found %s" % ovars)
            e = self.block(body, {ovars[0]: "outcome"}, lambda env: self.err("no swap decision found"))
            sig = "(np_le : bool) (array : arr)"
        if not self.decision_found:
            self.err("no `if` binding the returned array found: cannot extract the swap decision")
        return "Definition %s_%s_swaps_g %s : bool :=\n  %s.\n" % (self.mod, fn.name, sig, e)

    # ---------------------------------------------------------------- whole functions
    def run(self):
        fn = self.fn
        names, dflt = _sig(fn, self.where)
        body = _strip_doc(fn.body)
        self.params = set(names[1:])
        if self.kind == "pred":
            if len(names) != 1:
                self.err("signature is %s" % names)
            self.arrparam = names[0]
            e = self.block(body, {}, lambda env: self.err("predicate falls off its end"))
            return "Definition %s_%s_g (np_le : bool) (o_ : order) : bool :=\n  %s.\n" % (self.mod, fn.name, e), None
        if self.kind == "conv":
            if names != ["array", "inplace", "keep_dtype"] or set(dflt) != {"inplace", "keep_dtype"}:
                self.err("signature is %s with defaults %s" % (names, sorted(dflt)))
            self.arrparam = "array"
            env = {"inplace": "bool", "keep_dtype": "bool"}
            e = self.block(body, env, lambda env: self.err("falls off its end without returning the array"))
            self.check_swaps()
            d = "Definition %s_%s_g (np_le : bool) (array : arr) (inplace keep_dtype : bool) : outcome :=\n  %s.\n" % (self.mod, fn.name, e)
            return d, (dflt["inplace"], dflt["keep_dtype"])
        if self.kind == "conv1":
            if names != ["array"]:
                self.err("signature is %s" % names)
            self.arrparam = "array"
            e = self.block(body, {}, lambda env: self.err("falls off its end without returning the array"))
            self.check_swaps()
            return "Definition %s_%s_g (np_le : bool) (array : arr) : outcome :=\n  %s.\n" % (self.mod, fn.name, e), None
        if self.kind == "inplace":
            if names != ["array"]:
                self.err("signature is %s" % names)
            self.arrparam = "array"
            # variables bound to the result of array.byteswap(...) are pre-bound to "the caller's array, untouched"
            ovars = sorted(set(t.id for n in ast.walk(fn) if isinstance(n, ast.Assign) and len(n.targets) == 1
                               for t in n.targets if isinstance(t, ast.Name) and isinstance(n.value, ast.Call)
                               and isinstance(n.value.func, ast.Attribute) and n.value.func.attr == "byteswap"))
            if len(ovars) != 1:
                self.err("expected exactly one variable bound to array.byteswap(...), found %s" % ovars)
            ov = ovars[0]
            env = {ov: "outcome"}
            e = self.block(body, env, lambda env: "o_inp %s" % ov)
            self.check_swaps()
            return ("Definition %s_%s_g (np_le : bool) (array : arr) : arr :=\n  let %s := prim_self array in\n  %s.\n"
                    % (self.mod, fn.name, ov, e)), None
        self.err("unknown kind")

    def check_swaps(self):
        if self.nbyteswap > 1:
            self.err("more than one ndarray.byteswap call (the state of the buffer is threaded through one call only)")


# ------------------------------------------------------------------------------------------------ descr functions

def _descr_to_native(fn):
    """for d in descr: nd = list(copy.deepcopy(d)); nd[I] = nd[I][F:]; nd = tuple(nd); newd.append(nd) -> (I, F)"""
    where = "numpy_util.descr_to_native"
    names, _ = _sig(fn, where)
    if names != ["descr"]:
        raise TranslateError("%s: signature is %s" % (where, names))
    body = _strip_doc(fn.body)
    if not (len(body) == 3 and u(body[0]) == "newd = []" and isinstance(body[1], ast.For) and u(body[2]) == "return newd"):
        raise TranslateError("%s: body is not `newd = []; for ...; return newd`" % where)
    loop = body[1]
    if loop.orelse or u(loop.iter) != "descr" or not isinstance(loop.target, ast.Name):
        raise TranslateError("%s: loop is not `for d in descr`" % where)
    d = loop.target.id
    st = [s for s in loop.body if not (isinstance(s, ast.Expr) and isinstance(s.value, ast.Constant))]
    if len(st) != 4:
        raise TranslateError("%s: loop body has %d statements, expected 4" % (where, len(st)))
    if u(st[0]) not in ("nd = list(copy.deepcopy(%s))" % d, "nd = list(%s)" % d, "nd = list(copy.copy(%s))" % d):
        raise TranslateError("%s: entry is not copied into a list: %s" % (where, u(st[0])))
    if u(st[2]) != "nd = tuple(nd)" or u(st[3]) != "newd.append(nd)":
        raise TranslateError("%s: entry is not rebuilt as a tuple and appended" % where)
    a = st[1]
    ok = (isinstance(a, ast.Assign) and len(a.targets) == 1 and isinstance(a.targets[0], ast.Subscript)
          and u(a.targets[0].value) == "nd" and isinstance(a.targets[0].slice, ast.Constant)
          and isinstance(a.value, ast.Subscript) and isinstance(a.value.value, ast.Subscript)
          and u(a.value.value.value) == "nd" and isinstance(a.value.value.slice, ast.Constant)
          and a.value.value.slice.value == a.targets[0].slice.value and isinstance(a.value.slice, ast.Slice)
          and a.value.slice.upper is None and a.value.slice.step is None)
    if not ok:
        raise TranslateError("%s: stripping statement is not `nd[I] = nd[I][F:]`: %s" % (where, u(a)))
    return _natconst(a.targets[0].slice, where), _natconst(a.value.slice.lower, where)


def _natconst(n, where):
    if n is None:
        return 0
    if isinstance(n, ast.Constant) and isinstance(n.value, int) and not isinstance(n.value, bool) and 0 <= n.value < 50:
        return n.value
    raise TranslateError("%s: index/slice bound is not a small natural literal: %s" % (where, u(n)))


def _remove_dtype_byteorder(fn):
    """for dt in dtype.descr: typestr = dt[I][F:]; if len(dt) == L: dt = (..3..) else: dt = (..2..); newdt.append(dt)"""
    where = "recfile.Util.remove_dtype_byteorder"
    names, _ = _sig(fn, where)
    if names != ["dtype"]:
        raise TranslateError("%s: signature is %s" % (where, names))
    body = _strip_doc(fn.body)
    if not (len(body) == 3 and u(body[0]) == "newdt = []" and isinstance(body[1], ast.For) and u(body[2]) == "return newdt"):
        raise TranslateError("%s: body is not `newdt = []; for ...; return newdt`" % where)
    loop = body[1]
    if loop.orelse or u(loop.iter) != "dtype.descr" or not isinstance(loop.target, ast.Name):
        raise TranslateError("%s: loop is not `for dt in dtype.descr`" % where)
    d = loop.target.id
    st = loop.body
    if len(st) != 3 or u(st[2]) != "newdt.append(%s)" % d:
        raise TranslateError("%s: loop body is not `typestr = ..; if ..; newdt.append(%s)`" % (where, d))
    a = st[0]
    ok = (isinstance(a, ast.Assign) and u(a.targets[0]) == "typestr" and isinstance(a.value, ast.Subscript)
          and isinstance(a.value.value, ast.Subscript) and u(a.value.value.value) == d
          and isinstance(a.value.slice, ast.Slice) and a.value.slice.upper is None and a.value.slice.step is None)
    if not ok:
        raise TranslateError("%s: stripping statement is not `typestr = %s[I][F:]`: %s" % (where, d, u(a)))
    idx, frm = _natconst(a.value.value.slice, where), _natconst(a.value.slice.lower, where)
    i = st[1]
    t = i.test if isinstance(i, ast.If) else None
    if not (t is not None and isinstance(t, ast.Compare) and len(t.ops) == 1 and isinstance(t.ops[0], ast.Eq)
            and u(t.left) == "len(%s)" % d and len(i.body) == 1 and len(i.orelse) == 1):
        raise TranslateError("%s: entry is not rebuilt under `if len(%s) == L: .. else: ..`" % (where, d))
    ltest = _natconst(t.comparators[0], where)

    def comps(s):
        if not (isinstance(s, ast.Assign) and u(s.targets[0]) == d and isinstance(s.value, ast.Tuple)):
            raise TranslateError("%s: entry is not rebuilt as a tuple: %s" % (where, u(s)))
        out = []
        for e in s.value.elts:
            if u(e) == "typestr":
                out.append("TStripped")
            elif isinstance(e, ast.Subscript) and u(e.value) == d and isinstance(e.slice, ast.Constant):
                out.append("TIdx %d" % _natconst(e.slice, where))
            else:
                raise TranslateError("%s: tuple component outside the subset: %s" % (where, u(e)))
        return out
    return idx, frm, comps(i.body[0]), comps(i.orelse[0]), ltest


# ------------------------------------------------------------------------------------------------ driver

HEADER = """(* GENERATED by harness/props/c16_translate.py from esutil/numpy_util.py and esutil/recfile/Util.py of the
   tree under check -- do not edit by hand.  Every definition is the statement-by-statement translation of the
   function of the same name (nu_ = numpy_util, ru_ = recfile.Util) into Gallina over the primitives of Ext.v;
   np_le is numpy.little_endian.  Tie.v proves each one equal to the hand model (Model.v / Ext.v). *)
From Coq Require Import List Bool String.
From EsVerif.Common Require Import Base Bytes.
From EsVerif.C16 Require Import Model Spec Ext.
Local Open Scope list_scope.
Local Open Scope bool_scope.

"""


def extract(nu_src, ru_src):
    """-> ordered list of (name, gallina text)"""
    try:
        nu = ast.parse(nu_src)
    except SyntaxError as e:
        raise TranslateError("numpy_util.py does not parse: %s" % e)
    try:
        ru = ast.parse(ru_src)
    except SyntaxError as e:
        raise TranslateError("recfile/Util.py does not parse: %s" % e)
    defs = []
    # numpy_util
    for p in NU_PREDS:
        d, _ = T("nu", _func(nu, p, "numpy_util"), "pred", NU_PREDS, [], {}).run()
        defs.append(("nu_%s_g" % p, d))
    sigs = dict((c, _sig(_func(nu, c, "numpy_util"), "numpy_util")) for c in NU_CONVS)
    dfl = {}
    done = []
    for c in NU_CONVS:
        d, df = T("nu", _func(nu, c, "numpy_util"), "conv", NU_PREDS, list(done), sigs).run()
        defs.append(("nu_%s_g" % c, d))
        dfl[c] = df
        done.append(c)
    for c in NU_CONVS[1:]:
        d = T("nu", _func(nu, c, "numpy_util"), "conv", NU_PREDS, ["byteswap"], sigs).run_decision()
        defs.append(("nu_%s_swaps_g" % c, d))
    defs.append(("nu_defaults", "(* keyword defaults (inplace, keep_dtype) of byteswap, to_native, to_big_endian, to_little_endian *)\n"
                 "Definition nu_defaults : list (bool * bool) := [%s].\n" % "; ".join("(%s, %s)" % (_b(dfl[c][0]), _b(dfl[c][1])) for c in NU_CONVS)))
    i, f = _descr_to_native(_func(nu, "descr_to_native", "numpy_util"))
    defs.append(("nu_descr_to_native_g", "Definition nu_descr_to_native_g (d : descr) : option descr := descr_map_g %d %d d.\n" % (i, f)))
    # recfile.Util
    for p in RU_PREDS:
        d, _ = T("ru", _func(ru, p, "recfile.Util"), "pred", RU_PREDS, [], {}).run()
        defs.append(("ru_%s_g" % p, d))
    d, _ = T("ru", _func(ru, "to_native_inplace", "recfile.Util"), "inplace", RU_PREDS, [], {}).run()
    defs.append(("ru_to_native_inplace_g", d))
    d = T("ru", _func(ru, "to_native_inplace", "recfile.Util"), "inplace", RU_PREDS, [], {}).run_decision()
    defs.append(("ru_to_native_inplace_swaps_g", d))
    d, _ = T("ru", _func(ru, "to_native", "recfile.Util"), "conv1", RU_PREDS, [], {}).run()
    defs.append(("ru_to_native_g", d))
    i, f, t3, t2, lt = _remove_dtype_byteorder(_func(ru, "remove_dtype_byteorder", "recfile.Util"))
    defs.append(("ru_remove_dtype_byteorder_g",
                 "Definition ru_remove_dtype_byteorder_g (d : descr) : option descr :=\n  descr_rebuild_g %d %d [%s] [%s] %d d.\n"
                 % (i, f, "; ".join(t3), "; ".join(t2), lt)))
    return defs


def gen_text(defs):
    return HEADER + "\n".join(d for _, d in defs)


def _write(coqdir, txt):
    dst = os.path.join(coqdir, "theories", "C16", "Gen.v")
    old = open(dst).read() if os.path.exists(dst) else None
    if old == txt:
        return False
    tmp = dst + ".tmp.%d" % os.getpid()
    with open(tmp, "w") as f:
        f.write(txt)
    os.replace(tmp, dst)
    return True


def reference_defs():
    from . import c16_gen_reference
    return c16_gen_reference.DEFS


def write_reference(coqdir):
    return _write(coqdir, gen_text(reference_defs()))


def differences(defs):
    """names of the generated definitions whose text differs from the one the model was written for"""
    ref = dict(reference_defs())
    got = dict(defs)
    return sorted(k for k in set(ref) | set(got) if ref.get(k) != got.get(k))


def regenerate(impl_dir, coqdir):
    """-> (defs, changed: bool); raises TranslateError"""
    srcs = []
    for rel in (("esutil", "numpy_util.py"), ("esutil", "recfile", "Util.py")):
        path = os.path.join(impl_dir, *rel)
        try:
            srcs.append(open(path).read())
        except OSError as e:
            raise TranslateError("cannot read %s: %s" % (path, e))
    defs = extract(*srcs)
    return defs, _write(coqdir, gen_text(defs))


if __name__ == "__main__":
    import sys
    root = sys.argv[1]
    ds = extract(open(os.path.join(root, "esutil", "numpy_util.py")).read(),
                 open(os.path.join(root, "esutil", "recfile", "Util.py")).read())
    if len(sys.argv) > 2 and sys.argv[2] == "--reference":
        print('"""reference translation (what C16/Model.v, Ext.v and Tie.v are written for); generated by\n'
              '`python -m harness.props.c16_translate <tree> --reference` from the repaired tree"""\nDEFS = [')
        for n, d in ds:
            print("    (%r,\n     %r)," % (n, d))
        print("]")
    else:
        print(gen_text(ds))

"""C13 — HTM ids are hierarchical and cover circles; pair counts equal brute force
(DESIGN.md section 7, C13)."""
import json
import math
import os
from fractions import Fraction

import numpy as np

from .. import core
from ..core import cz, clist
from ..runner import Entry, differential
from . import c13_geom as g
from . import c13_translate as tr
from . import c13_gen as gen_terms

PRE = ("From Coq Require Import QArith PrimFloat.\nFrom EsVerif.Common Require Import Base.\n"
       "From EsVerif.C13 Require Import Model Spec Exec FloatModel ExecF ExecTie MoreModel.\nOpen Scope Z_scope.\n")
KNOWN_CLASS = "C13.kf_cos_resolution"
MAXDEPTH = 20
BORDER = 1e-9 * (1 + 1e-6)      # the statement's unconstrained zone (relative), with a hair for the oracle
TIE_SPAN = 3000                 # id span of the second list up to which the real rev array is compared with the C05 model
FLAG = 1e-13                    # |dcos| below which the exact value is sent to Coq for the class predicate

_H = {}

# what c13_translate read out of the sources of the tree under test; the defaults (statement: floor,
# no margin) are used only when the translation failed, which is reported as a violation by run()
GEN = {"index": "floor", "pad_deg": Fraction(0), "epsilon": Fraction(1, 10 ** 15), "save_depth": 2,
       "gPi": Fraction("3.1415926535897932385"), "ravel": False, "ra2_typo": True, "error": None}


def load_gen():
    root = os.environ.get("VERIF_IMPL")
    got, errors = tr.translate_partial(root)
    GEN.update(got)
    GEN["error"] = "; ".join(errors) if errors else None
    if errors and "pad_deg" not in got:
        # cbincount itself no longer translates: read at least the margin constant, so that the covers requested by the harness
        # are those of the code under test
        import re
        try:
            m = re.findall(r"#define BINCOUNT_COVER_PAD_DEGREES ([0-9.eE+-]+)", open(os.path.join(root, "esutil", "htm", "htmc.cc")).read())
            if len(m) == 1:
                GEN["pad_deg"] = Fraction(m[0])
        except (OSError, ValueError):
            pass
    return GEN


class Env:
    """where the entry points get their HTM objects and coordinate arrays from.  Default: one HTM object per depth for the
    whole run, a new array per call.  The `sequence` entry swaps in SeqEnv (its own HTM objects, and the SAME array objects
    refilled in place from step to step) and FreshEnv (a new HTM object and new arrays for every call)."""
    def h(self, depth):
        from esutil import htm
        if depth not in _H:
            _H[depth] = htm.HTM(depth)
        return _H[depth]

    def arr(self, name, values, dtype="f8"):
        return np.array(values, dtype=dtype)


class SeqEnv(Env):
    def __init__(self):
        self.H, self.B, self.copy = {}, {}, False

    def h(self, depth):
        from esutil import htm
        if depth not in self.H:
            self.H[depth] = htm.HTM(depth)
        return self.H[depth]

    def arr(self, name, values, dtype="f8"):
        v = np.array(values, dtype=dtype)
        k = (name, v.size, dtype)
        if self.copy or k not in self.B:
            if not self.copy:
                self.B[k] = v
            return v
        self.B[k][:] = v                 # same object, contents changed in place
        return self.B[k]


class FreshEnv(Env):
    def h(self, depth):
        from esutil import htm
        return htm.HTM(depth)


ENV = [Env()]


def htm_of(depth):
    return ENV[0].h(depth)


def key(c):
    return json.dumps(c, sort_keys=True, default=str)


def cqf(x):
    """finite float -> exact Coq Q literal"""
    fr = Fraction(float(x))
    return "(%d # %d)%%Q" % (fr.numerator, fr.denominator)


def clists(ll):
    return "[" + "; ".join(clist(x) for x in ll) + "]"


class C13Entry(Entry):
    """shared: remembers (case, out) so that show/classify can re-evaluate in Coq"""
    kterm = None

    def __init__(self):
        self._seen = {}
        self._known = None
        self._ctx = None

    def remember(self, c, out):
        self._seen[key(c)] = (c, out)

    def flagged(self, c, out):
        return False

    def classify(self, c, out, v):
        """the class predicate is evaluated in Coq (Exec.k_*: the case fails, and passes when the items
        with Spec.kf_cos_resolution = true are unconstrained); one batch for all remembered cases"""
        if self._known is None:
            todo = [(k, co) for k, co in self._seen.items() if self.flagged(*co)]
            self._known = {}
            if todo:
                work = os.path.join(self._ctx.work if self._ctx else core.SCRATCH_ROOT, "classify_" + self.name)
                try:
                    vals = core.coq_eval(work, PRE, [self.kterm(*co) for _, co in todo], tag="k_" + self.name, shard=40)
                    for (k, _), val in zip(todo, vals):
                        self._known[k] = int(val.replace("%Z", "").strip("() "))
                except core.CoqEvalError:
                    pass
        return KNOWN_CLASS if self._known.get(key(c)) == 1 else None


# ----------------------------------------------------------------------------------------------
# ids
# ----------------------------------------------------------------------------------------------
class Ids(C13Entry):
    name = "lookup_id"

    def cases(self, ctx, round=0):
        self._ctx = ctx
        r = ctx.rng
        cs = []
        fams = g.POS_FAMILIES
        if round == 0:
            cs.append({"pts": [list(p) for p in g.SPECIAL], "how": "f8", "family": "special"})
            cs.append({"pts": [[float(a), float(d)] for a in (0, 90, 180, 270, 360) for d in (-90, -45, 0, 45, 90)],
                       "how": "int", "family": "octant"})
        hows = ["f8", "f2dF", "list", "strided", "f4", "tuple", "be", "reversed", "readonly", "0d", "len1", "f8", "f2d"]
        for i in range(ctx.n(36, 400)):
            fam = fams[i % len(fams)]
            how = hows[(i // len(fams) + i) % len(hows)]
            pts = []
            for _ in range(r.randrange(1, 25)):
                ra, dec = g.position(r, fam)
                if how == "f4":
                    ra, dec = float(np.float32(ra)), float(np.float32(dec))
                    dec = max(-90.0, min(90.0, dec))
                pts.append([ra, dec])
            if how in ("f2d", "f2dF") and len(pts) % 2:
                pts.append(list(pts[0]))
            cs.append({"pts": pts, "how": how, "family": fam})
        # integer-valued positions in integer dtypes (an integer denotes the exact real)
        for i in range(ctx.n(6, 40)):
            how = ["i4", "u2", "int", "i2be", "pyint", "bool"][i % 6]
            lo = 0 if how in ("u2", "bool") else -90
            if how == "bool":
                pts = [[float(r.randrange(2)), float(r.randrange(2))] for _ in range(r.randrange(1, 6))]
            else:
                pts = [[float(r.choice([0, 90, 180, 270, 360, r.randrange(0, 361)])), float(r.choice([lo, 0, 90, r.randrange(lo, 91)]))]
                       for _ in range(r.randrange(1, 25))]
            cs.append({"pts": pts, "how": how, "family": "integer-dtype"})
        # long arrays: 2^k + 1 points (fewer depths, so that the case file stays small)
        if round == 0:
            for n, md in ((ctx.n(2 ** 10 + 1, 2 ** 12 + 1), 4), (ctx.n(2 ** 12 + 1, 2 ** 14 + 1), 1)):
                pts = [list(g.position(r, fams[j % len(fams)])) for j in range(n)]
                cs.append({"pts": pts, "how": r.choice(["f8", "strided", "be"]), "family": "long-array", "maxdepth": md})
        return cs

    def impl(self, c):
        ra = [p[0] for p in c["pts"]]
        dec = [p[1] for p in c["pts"]]
        how = c["how"]
        md = c.get("maxdepth", MAXDEPTH)
        per_element = None           # forms in which the "array call" is made element by element
        if how in ("int", "i4", "u2", "i2be"):
            dt = {"int": "i8", "i4": "i4", "u2": "u2", "i2be": ">i2"}[how]
            A, D = np.array(ra, dtype=dt), np.array(dec, dtype=dt)
            sra, sdec = [A.dtype.type(x) if how != "i2be" else int(x) for x in ra], [D.dtype.type(x) if how != "i2be" else int(x) for x in dec]
        elif how == "pyint":
            A, D = [int(x) for x in ra], [int(x) for x in dec]
            sra, sdec = A, D
        elif how == "bool":
            A, D = np.array(ra, dtype=bool), np.array(dec, dtype=bool)
            sra, sdec = [bool(x) for x in ra], [bool(x) for x in dec]
        elif how == "f4":
            A, D = np.array(ra, dtype="f4"), np.array(dec, dtype="f4")
            sra, sdec = [np.float32(x) for x in ra], [np.float32(x) for x in dec]
        elif how == "list":
            A, D = list(ra), list(dec)
            sra, sdec = ra, dec
        elif how == "tuple":
            A, D = tuple(ra), tuple(dec)
            sra, sdec = ra, dec
        elif how == "strided":
            A, D = np.zeros(2 * len(ra)), np.zeros(2 * len(ra))
            A[::2], D[::2] = ra, dec
            A, D = A[::2], D[::2]
            sra, sdec = [np.float64(x) for x in ra], [np.float64(x) for x in dec]
        elif how == "reversed":
            A, D = np.array(ra[::-1], dtype="f8")[::-1], np.array(dec[::-1], dtype="f8")[::-1]
            sra, sdec = ra, dec
        elif how == "be":
            A, D = np.array(ra, dtype=">f8"), np.array(dec, dtype=">f8")
            sra, sdec = [A[i] for i in range(len(ra))], [D[i] for i in range(len(dec))]       # big-endian 0-d scalars
        elif how == "readonly":
            A, D = np.array(ra, dtype="f8"), np.array(dec, dtype="f8")
            A.flags.writeable = False
            D.flags.writeable = False
            sra, sdec = ra, dec
        elif how == "0d":
            per_element = [(np.array(a, dtype="f8"), np.array(b, dtype="f8")) for a, b in zip(ra, dec)]
            sra, sdec = ra, dec
        elif how == "len1":
            per_element = [(np.array([a]), [b]) for a, b in zip(ra, dec)]                       # array with a list
            sra, sdec = [np.float64(x) for x in ra], dec                                        # numpy scalar with python float
        elif how == "f2d":
            A, D = np.array(ra, dtype="f8").reshape(2, -1), np.array(dec, dtype="f8").reshape(2, -1)
            sra, sdec = ra, dec
        elif how == "f2dF":             # the same (2, n) array in Fortran (column-major) memory order; C13_lookup_id_2d: ids in C order
            A, D = np.asfortranarray(np.array(ra, dtype="f8").reshape(2, -1)), np.asfortranarray(np.array(dec, dtype="f8").reshape(2, -1))
            sra, sdec = ra, dec
        else:
            A, D = ENV[0].arr("pts_ra", ra), ENV[0].arr("pts_dec", dec)
            sra, sdec = ra, dec
        before = None if per_element is not None or not isinstance(A, np.ndarray) else (A.tobytes(), D.tobytes())

        def f():
            if per_element is None:
                arr = [[int(x) for x in np.ravel(htm_of(d).lookup_id(A, D))] for d in range(md + 1)]
            else:
                arr = [[int(htm_of(d).lookup_id(a, b)[0]) for a, b in per_element] for d in range(md + 1)]
            sc = [[int(htm_of(d).lookup_id(a, b)[0]) for a, b in zip(sra, sdec)] for d in range(md + 1)]
            n = len(ra)
            if any(len(x) != n for x in arr) or (before is not None and before != (A.tobytes(), D.tobytes())):
                raise RuntimeError("lookup_id returned %s ids for %d positions, or modified its arguments" % ([len(x) for x in arr][:3], n))
            return {"arr": [[arr[d][i] for d in range(md + 1)] for i in range(n)],
                    "sc": [[sc[d][i] for d in range(md + 1)] for i in range(n)]}
        out = core.guarded(f)
        self.remember(c, out)
        return out

    @staticmethod
    def xyz(ra, dec):
        """SpatialVector::updateXYZ (SpatialVector.cpp:181-186) with the same libm calls in the same order; the shape of
        that function and the literal of gPi are checked / read by c13_translate"""
        gpr = float(GEN["gPi"]) / 180.0
        cd = math.cos(dec * gpr)
        return math.cos(ra * gpr) * cd, math.sin(ra * gpr) * cd, math.sin(dec * gpr)

    def _fterm(self, fn, c, out):
        o = out[1]
        items = []
        for (ra, dec), a, s_ in zip(c["pts"], o["arr"], o["sc"]):
            x, y, z = self.xyz(float(ra), float(dec))
            items.append("(mkvec %s %s %s, %s, %s)" % (core.cfloat(x), core.cfloat(y), core.cfloat(z), clist(a), clist(s_)))
        return "%s %s %d [%s]" % (fn, core.cfloat(float(GEN["epsilon"])), GEN["save_depth"], "; ".join(items))

    def term(self, c, out):
        if out[0] != "ok":
            return "3"          # lookup_id raised on a position of the sphere
        return self._fterm("v_ids_f", c, out)

    def nontrivial(self, c, out):
        return out[0] == "ok" and len(c["pts"]) >= 1

    def show(self, c):
        _, out = self._seen[key(c)]
        if out[0] != "ok":
            return None
        return self._fterm("show_ids_f", c, out)


# ----------------------------------------------------------------------------------------------
# intersect
# ----------------------------------------------------------------------------------------------
def classify_sep(sep, edge):
    """side code of a separation w.r.t. a circle/edge angle (same unit): 0 within the unconstrained
    zone, 1 inside, 2 outside"""
    rel = abs(sep - edge) / edge
    if rel <= BORDER:
        return 0
    return 1 if sep < edge else 2


class Intersect(C13Entry):
    name = "intersect"

    def kterm(self, c, out):
        return self._term("k_intersect", c, out)

    def flagged(self, c, out):
        return out[0] == "ok" and any(abs(x) <= FLAG for x in out[1]["dcos"])

    def _case(self, ctx, r, fam, nmax):
        depth = r.randrange(1, 13)
        for _ in range(50):
            radius = 10 ** r.uniform(-4, math.log10(90))
            if g.ntri_estimate(depth, radius) <= nmax:
                break
            if r.random() < 0.5:
                depth = r.randrange(1, depth + 1)
        else:
            radius = 1e-4
        if fam == "vertex-tiny":
            # adversarial for the known class: tiny circle whose boundary passes a mesh vertex/edge point
            # within the resolution of cos(radius)
            radius = 10 ** r.uniform(-4, -2.3)
            p = g.mesh_point(r, min(depth, r.randrange(0, 13)))
            f = r.choice([1 - 10 ** r.uniform(-8.5, -5.3), 1 - 10 ** r.uniform(-8.5, -5.3), 1 + 10 ** r.uniform(-8.5, -5.3)])
            ra, dec = g.offset(p[0], p[1], f * radius, r.uniform(0, 360))
            samples = [list(p)]
        elif fam == "vertex":
            # adversarial: a sample on a vertex/edge of the mesh, the circle passing close to it
            p = g.mesh_point(r, min(depth, r.randrange(0, 13)))
            f = r.choice([r.random(), 1 - 10 ** r.uniform(-8.9, -1), 1 + 10 ** r.uniform(-8.9, -1), 1 + 10 ** r.uniform(-8.9, 0)])
            ra, dec = g.offset(p[0], p[1], min(f * radius, 179.0), r.uniform(0, 360))
            samples = [list(p)]
        else:
            ra, dec = g.position(r, fam)
            ra = ra % 360.0 if fam != "seam" else ra
            samples = []
        for _ in range(ctx.n(24, 60)):
            f = r.choice([r.random(), math.sqrt(r.random()), 1 - 10 ** r.uniform(-8.9, -1),
                          1 + 10 ** r.uniform(-8.9, 0), r.uniform(1, 3)])
            samples.append(list(g.offset(ra, dec, min(f * radius, 179.9), r.uniform(0, 360))))
        if r.random() < 0.3:
            samples.append(list(g.mesh_point(r, depth)))
        return {"depth": depth, "ra": ra, "dec": dec, "radius": radius, "samples": samples, "family": fam}

    def cases(self, ctx, round=0):
        self._ctx = ctx
        r = ctx.rng
        fams = ["uniform", "pole", "octant", "seam", "special", "mesh", "vertex", "vertex", "uniform", "octant", "vertex-tiny", "mesh"]
        cs = []
        if round == 0:
            cs.append({"depth": 10, "ra": 200.0, "dec": 0.0, "radius": 0.1, "samples": [[200.0, 0.05], [200.0, 0.2]],
                       "family": "pinned-by-test-suite"})
            # the ends of the radius range of the statement, and a signed-zero centre
            cs.append({"depth": 2, "ra": -0.0, "dec": -0.0, "radius": 90.0, "family": "radius-range-ends", "how": "py",
                       "samples": [[0.0, 89.9], [90.0, 0.0], [270.0, 0.01], [180.0, 0.0], [90.1, 0.0], [0.0, -89.99], [45.0, 45.0]]})
            cs.append({"depth": 12, "ra": 123.0, "dec": 45.0, "radius": 1e-4, "family": "radius-range-ends", "how": "np64",
                       "samples": [[123.0, 45.00005], [123.0, 45.00011], [123.0001, 45.0], [123.0002, 45.0], [123.0, 44.99992]]})
        # (thorough: at most ~10000 triangles per list and 1200 cases keep the generated Coq case files, which are
        # compiled 400 cases at a time, below ~1 GB of coqc memory each)
        forms = ["py", "py", "np64", "positional", "default", "int-flag", "npbool"]
        for i in range(ctx.n(120, 1200)):
            c = self._case(ctx, r, fams[i % len(fams)], ctx.n(3000, 10000))
            c["how"] = forms[(i // len(fams) + i) % len(forms)]
            cs.append(c)
        # integer-valued centre and radius passed as python ints (an integer denotes the exact real)
        for i in range(ctx.n(6, 40)):
            depth = r.randrange(1, 7)
            radius = float(r.choice([1, 2, 5, 10, 30, 45, 90]))
            while g.ntri_estimate(depth, radius) > ctx.n(3000, 10000) and depth > 1:
                depth -= 1
            ra, dec = float(r.choice([0, 90, 180, 270, 360, r.randrange(0, 361)])), float(r.choice([-90, 0, 90, r.randrange(-90, 91)]))
            samples = [list(g.offset(ra % 360.0, dec, min(f * radius, 179.9), r.uniform(0, 360)))
                       for f in [r.random() for _ in range(12)] + [1 - 10 ** r.uniform(-8.9, -1) for _ in range(6)]
                       + [1 + 10 ** r.uniform(-8.9, 0) for _ in range(6)]]
            cs.append({"depth": depth, "ra": ra, "dec": dec, "radius": radius, "samples": samples, "family": "integer-arguments", "how": "int"})
        return cs

    def impl(self, c):
        def f():
            h = htm_of(c["depth"])
            how = c.get("how", "py")
            a = (c["ra"], c["dec"], c["radius"])
            if how == "int":
                a = tuple(int(x) for x in a)
            elif how == "np64":
                a = tuple(np.float64(x) for x in a)
            if how == "positional":
                incl, full = h.intersect(a[0], a[1], a[2], True), h.intersect(a[0], a[1], a[2], False)
            elif how == "default":          # inclusive omitted = True
                incl, full = h.intersect(*a), h.intersect(ra=a[0], dec=a[1], radius=a[2], inclusive=False)
            elif how == "int-flag":
                incl, full = h.intersect(*a, inclusive=1), h.intersect(*a, inclusive=0)
            elif how == "full-first":       # the other order of the two calls (call history)
                full = h.intersect(a[0], a[1], a[2], inclusive=False)
                incl = h.intersect(a[0], a[1], a[2], inclusive=True)
            elif how == "npbool":
                incl, full = h.intersect(*a, inclusive=np.bool_(True)), h.intersect(*a, inclusive=np.bool_(False))
            else:
                incl = h.intersect(a[0], a[1], a[2], inclusive=True)
                full = h.intersect(a[0], a[1], a[2], inclusive=False)
            S = [[c["ra"], c["dec"]]] + c["samples"]          # the centre's own triangle
            sra = ENV[0].arr("sample_ra", [s[0] for s in S])
            sdec = ENV[0].arr("sample_dec", [s[1] for s in S])
            sid = h.lookup_id(sra, sdec)
            rr = g.LD(c["radius"]) * g.D2R
            sep = g.sep_rad(c["ra"], c["dec"], sra, sdec)
            code = [classify_sep(s, rr) for s in sep]
            code[0] = 1
            dc = g.dcos(sep, rr)
            return {"incl": [int(x) for x in incl], "full": [int(x) for x in full], "sid": [int(x) for x in sid],
                    "code": code, "dcos": [float(x) if abs(x) <= FLAG else 1.0 for x in dc]}
        out = core.guarded(f)
        self.remember(c, out)
        return out

    def _term(self, fn, c, out):
        o = out[1]
        ss = "[" + "; ".join("(%s, %s, %s)" % (cz(i), cz(k), cqf(d)) for i, k, d in zip(o["sid"], o["code"], o["dcos"])) + "]"
        return "%s %s %s %s %s" % (fn, cz(c["depth"]), clist(o["incl"]), clist(o["full"]), ss)

    def term(self, c, out):
        if out[0] != "ok":
            return "3"
        return self._term("v_intersect", c, out)

    def nontrivial(self, c, out):
        if out[0] != "ok":
            return False
        code = out[1]["code"]
        return code[1:].count(1) >= 1 and code.count(2) >= 1 and len(out[1]["incl"]) >= 2

    def show(self, c):
        _, out = self._seen[key(c)]
        return self._term("show_intersect", c, out) if out[0] == "ok" else None


# ----------------------------------------------------------------------------------------------
# bincount
# ----------------------------------------------------------------------------------------------
def rle(a):
    a = np.asarray(a)
    if a.size == 0:
        return []
    cut = np.flatnonzero(np.diff(a)) + 1
    starts = np.concatenate(([0], cut))
    ends = np.concatenate((cut, [a.size]))
    return [[int(e - s), int(a[s])] for s, e in zip(starts, ends)]


def pair_oracle(c, maxspan=None):
    """brute force, independent of the implementation: for every pair the quotient
    (log10(scale*sep) - log10 rmin)/log_binsize in long double, its relation to the bin edges, and
    cos(sep) - cos(edge angle) for the class predicate"""
    nbin = c["nbin"]
    L0 = np.log10(g.LD(c["rmin"]))
    D = (np.log10(g.LD(c["rmax"])) - L0) / nbin
    logedges = L0 + D * np.arange(nbin + 1, dtype=g.LD)
    scale = c["scale"]
    pairs, zones, thetas = [], {}, []
    for i1, (ra, dec) in enumerate(zip(c["ra1"], c["dec1"])):
        s = None if scale is None else g.LD(scale if not isinstance(scale, list) else scale[i1])
        theta = g.sep_rad(ra, dec, c["ra2"], c["dec2"])          # radians
        thetas.append(theta)
        row = []
        for i2, th in enumerate(theta):
            if th == 0:
                row.append([0, 0])
                continue
            r = th / g.D2R if s is None else th * s
            q = (np.log10(r) - L0) / D
            j = int(np.rint(min(max(q, g.LD(-3)), g.LD(nbin + 3))))
            near = 0 <= j <= nbin and abs(np.expm1((q - j) * D * g.LN10)) <= BORDER
            if near:
                row.append([2, j])
            else:
                qc = min(max(q, g.LD(-2)), g.LD(nbin + 2))
                v = int(np.floor(qc * g.LD(2 ** 40)))
                assert math.floor(Fraction(v, 2 ** 40)) == int(np.floor(qc))
                row.append([1, v])
            # angles of the edges for this point: edge/scale radians, or edge degrees
            ang = 10 ** logedges * g.D2R if s is None else 10 ** logedges / s
            dc = g.dcos(th, ang)
            if np.min(np.abs(dc)) <= FLAG:
                zones["%d,%d" % (i1, i2)] = [float(x) if abs(x) <= FLAG else 1.0 for x in dc]
        pairs.append(row)
    return pairs, zones, thetas


FORMS = ["lists", "tuples", "strided", "reversed", "byteswapped", "readonly", "scalar-args", "scale-forms", "ids-i4", "ids-tuple",
         "rev-strided", "minid-only", "maxid-only", "minmax-without-ids", "getbins-explicit", "verbose", "fresh-object",
         "rev-i4", "rev-be", "rev-list", "rev-f8", "rev-readonly-i4-strided"]


def in_fork(f):
    """run f() in a forked child and return its (JSON-able) result: a call that crashes the interpreter (the C++ code reading
    reverse indices of a foreign dtype as native int64, fixes/C13/0004) becomes an exception here, i.e. a failing input with a
    replay, instead of killing the check process"""
    import signal
    import sys
    rd, wr = os.pipe()
    sys.stdout.flush()
    pid = os.fork()
    if pid == 0:
        code = 0
        try:
            os.close(rd)
            try:
                msg = json.dumps(["ok", f()])
            except Exception as e:  # noqa
                msg = json.dumps(["err", "%s: %s" % (type(e).__name__, str(e)[:200])])
            with os.fdopen(wr, "w") as w:
                w.write(msg)
        except BaseException:  # noqa
            code = 1
        os._exit(code)
    os.close(wr)
    with os.fdopen(rd) as r:
        data = r.read()
    _, status = os.waitpid(pid, 0)
    if os.WIFSIGNALED(status):
        raise RuntimeError("the call crashed the interpreter (signal %d: %s)" % (os.WTERMSIG(status), signal.Signals(os.WTERMSIG(status)).name))
    if not data:
        raise RuntimeError("the call ended the interpreter without a result (exit status %d)" % os.WEXITSTATUS(status))
    tag, val = json.loads(data)
    if tag != "ok":
        raise RuntimeError("in forked call: " + val)
    return val


def _strided(a):
    b = np.zeros(3 * len(a), dtype=a.dtype)
    b[::3] = a
    return b[::3]


def _reversed(a):
    return np.ascontiguousarray(a[::-1])[::-1]


class _Quiet:
    """silence what the C++ code writes to stdout with verbose=True"""
    def __enter__(self):
        import sys
        sys.stdout.flush()
        self.saved = os.dup(1)
        self.null = os.open(os.devnull, os.O_WRONLY)
        os.dup2(self.null, 1)

    def __exit__(self, *a):
        os.dup2(self.saved, 1)
        os.close(self.saved)
        os.close(self.null)


def bincount_form(form, h, depth, rmin, rmax, nbin, ra1, dec1, ra2, dec2, sc, id2, rev, mn, mx):
    """one more call of the real bincount with the same mathematical input in another FORM; returns the counts, or
    None when the form does not apply to this case"""
    from esutil import htm
    pos = [ra1, dec1, ra2, dec2]
    pre = dict(htmid2=id2, htmrev2=rev)            # skips the internal lookup/histogram (time)
    kw = dict(getbins=False)
    conv = None
    if form == "lists":
        conv = lambda a: [float(x) for x in a]
        pre = {}
    elif form == "tuples":
        conv = lambda a: tuple(float(x) for x in a)
    elif form == "strided":
        conv = _strided
        pre = {}
    elif form == "reversed":
        conv = _reversed
    elif form == "byteswapped":
        conv = lambda a: a.astype(">f8")
    elif form == "readonly":
        def conv(a):
            b = a.copy()
            b.flags.writeable = False
            return b
        pre = dict(htmid2=conv(id2), htmrev2=conv(rev))
    elif form in ("f4", "i4", "i8"):
        conv = lambda a: a.astype(form)
        pre = {}
    elif form == "pyint":
        conv = lambda a: [int(x) for x in a]
    elif form == "2d":
        conv = lambda a: a.reshape(1, -1) if a.size % 2 else a.reshape(2, -1)
        pre = dict(htmid2=id2.reshape(-1, 1), htmrev2=rev)
    elif form == "2dF":
        conv = lambda a: np.asfortranarray(a.reshape(-1, 1) if a.size % 2 else a.reshape(2, -1))
        pre = dict(htmid2=np.asfortranarray(id2.reshape(2, -1)) if id2.size % 2 == 0 else id2, htmrev2=rev)
    if conv is not None:
        args = [conv(a) for a in pos]
        s2 = sc
        if isinstance(sc, np.ndarray) and form not in ("f4", "i4", "i8", "pyint"):
            s2 = conv(sc)
        before = [a.tobytes() for a in args if isinstance(a, np.ndarray)]
        out = h.bincount(rmin, rmax, nbin, *args, scale=s2, **pre, **kw)
        if before != [a.tobytes() for a in args if isinstance(a, np.ndarray)]:
            raise RuntimeError("bincount modified its array arguments (form %s)" % form)
        return out
    if form == "scalar-args":
        a1 = (float(ra1[0]), float(dec1[0])) if ra1.size == 1 else (ra1, dec1)
        a2 = (float(ra2[0]), float(dec2[0])) if ra2.size == 1 else (ra2, dec2)
        return h.bincount(np.float64(rmin), np.float64(rmax), int(nbin), a1[0], a1[1], a2[0], a2[1], scale=sc,
                          **(pre if ra2.size > 1 else {}), **kw)
    if form == "scale-forms":
        if sc is None:
            return h.bincount(rmin, rmax, nbin, *pos, None, **pre, **kw)                   # scale positional, explicit default
        if isinstance(sc, np.ndarray):
            o1 = h.bincount(rmin, rmax, nbin, *pos, scale=[float(x) for x in sc], **pre, **kw)
            o2 = h.bincount(rmin, rmax, nbin, *pos, scale=_strided(sc).astype(">f8"), **pre, **kw)
        else:
            o1 = h.bincount(rmin, rmax, nbin, *pos, scale=np.array(sc), **pre, **kw)       # 0-d array
            o2 = h.bincount(rmin, rmax, nbin, *pos, scale=(sc,), **pre, **kw)              # length-1 tuple
        if list(o1) != list(o2):
            raise RuntimeError("bincount: two forms of the same scale give different counts: %s %s" % (list(o1), list(o2)))
        return o1
    if form == "ids-i4":
        if mx >= 2 ** 31:
            return None
        return h.bincount(rmin, rmax, nbin, *pos, scale=sc, htmid2=id2.astype("i4"), htmrev2=rev, **kw)
    if form == "ids-tuple":
        return h.bincount(rmin, rmax, nbin, *pos, scale=sc, htmid2=tuple(int(x) for x in id2), htmrev2=rev, minid=int(mn), **kw)
    if form in ("rev-i4", "rev-be", "rev-list", "rev-f8", "rev-readonly-i4-strided"):
        # precomputed reverse indices in other dtypes / containers (same values); htm.py converts them since fixes/C13/0004.
        # Before that fix the C++ code read them as native int64 garbage: run in a forked child
        if form == "rev-i4":
            r2 = rev.astype("i4")
        elif form == "rev-be":
            r2 = rev.astype(">i8")
        elif form == "rev-list":
            r2 = [int(x) for x in rev]
        elif form == "rev-f8":
            r2 = rev.astype("f8")
        else:
            r2 = _strided(rev.astype("i4"))
            r2.flags.writeable = False
        variants = [dict(htmid2=id2, htmrev2=r2, minid=mn, maxid=mx), dict(htmid2=id2, htmrev2=r2), dict(htmrev2=r2)]
        outs = in_fork(lambda: [[int(x) for x in h.bincount(rmin, rmax, nbin, *pos, scale=sc, **v, **kw)] for v in variants])
        if any(o != outs[0] for o in outs):
            raise RuntimeError("bincount: reverse indices as %s give different counts for different precomputed-argument sets: %s" % (form, outs))
        return np.array(outs[0])
    if form == "rev-strided":
        return h.bincount(rmin, rmax, nbin, *pos, scale=sc, htmid2=_strided(id2), htmrev2=_strided(rev), **kw)
    if form == "minid-only":
        return h.bincount(rmin, rmax, nbin, *pos, scale=sc, htmid2=id2, htmrev2=rev, minid=mn, **kw)
    if form == "maxid-only":
        return h.bincount(rmin, rmax, nbin, *pos, scale=sc, htmid2=id2, htmrev2=rev, maxid=int(mx), **kw)
    if form == "minmax-without-ids":
        return h.bincount(rmin, rmax, nbin, *pos, scale=sc, htmrev2=rev, minid=mn, maxid=mx, **kw)
    if form == "getbins-explicit":
        lo, up, cnt = h.bincount(rmin, rmax, nbin, *pos, scale=sc, getbins=True, verbose=False, **pre)
        cnt2 = h.bincount(rmin, rmax, nbin, *pos, sc, id2, rev, mn, mx, False, False)          # everything positional
        if list(cnt) != list(cnt2):
            raise RuntimeError("bincount: keyword and positional call differ: %s %s" % (list(cnt), list(cnt2)))
        return cnt
    if form == "verbose":
        with _Quiet():
            return h.bincount(rmin, rmax, nbin, *pos, scale=sc, verbose=True, **pre, **kw)
    if form == "fresh-object":
        htm.HTM(max(1, depth - 1)).lookup_id(ra2, dec2)           # another depth in between
        h2 = htm.HTM(depth)
        o1 = h2.bincount(rmin, rmax, nbin, *pos, scale=sc, **pre, **kw)
        o2 = h2.bincount(rmin, rmax, nbin, *pos, scale=sc, **pre, **kw)      # second call on the same object
        if list(o1) != list(o2):
            raise RuntimeError("bincount: two identical calls differ: %s %s" % (list(o1), list(o2)))
        return o1
    raise ValueError(form)


class Bincount(C13Entry):
    name = "bincount"

    def kterm(self, c, out):
        return self._term("k_bincount_x", c, out, zones=True)

    def flagged(self, c, out):
        # since fixes/C13/0002 (margin around the search cap) no failure of bincount belongs to the known class
        # C13.kf_cos_resolution; Exec.k_bincount_x is kept only to re-examine old replays by hand
        return False

    def classify(self, c, out, v):
        if out[0] != "ok":
            return None
        # not a known finding.  A diagnostic label (never listed in known_findings.json, so still a VIOLATION)
        # keeps the replay of a bin-0 excess caused by separations below rmin apart from other failures
        o = out[1]
        nbin = c["nbin"]
        for i1, row in enumerate(o["pairs"]):
            cov = set(o["covers"][i1])
            for i2, (t, x) in enumerate(row):
                if t == 1 and 0 <= x < nbin * 2 ** 40 and o["ids2"][i2] not in cov:
                    return "C13.diag_cover_misses_pair"       # H_cover violated: the defect repaired by fixes/C13/0002
        flat = [p for row in o["pairs"] for p in row]
        floor0 = sum(1 for t, x in flat if t == 1 and 0 <= x < 2 ** 40)
        amb0 = sum(1 for t, x in flat if t == 2 and x in (0, 1))
        below = sum(1 for t, x in flat if t == 1 and -2 ** 40 < x < 0)
        if below and o["outs"][0][0] > floor0 + amb0:
            return "C13.diag_counted_below_rmin"
        return None

    # ---- generators
    def _points(self, r, kind, n):
        if kind == "uniform":
            return [list(g.position(r, "uniform")) for _ in range(n)]
        centre = g.position(r, r.choice(["uniform", "pole", "octant", "seam", "special", "mesh"]))
        centre = (centre[0] % 360.0, centre[1])
        capr = 10 ** r.uniform(-4, math.log10(30))
        pts = [list(g.offset(centre[0], centre[1], capr * math.sqrt(r.random()), r.uniform(0, 360))) for _ in range(n)]
        if r.random() < 0.3:
            pts[0] = [centre[0], centre[1]]
        return pts

    def _case(self, ctx, r, kind, smode):
        n1 = r.randrange(1, 11)
        n2 = r.randrange(1, 31)
        if kind == "uniform":
            p1, p2 = self._points(r, kind, n1), self._points(r, kind, n2)
        else:
            P = self._points(r, kind, n1 + n2)
            r.shuffle(P)
            p1, p2 = P[:n1], P[n1:]
            if r.random() < 0.3:
                p2 = p2 + [list(p) for p in p1[:2]]            # identical positions in both lists
            if r.random() < 0.2:
                p2.append(list(p2[0]))                         # duplicate inside the second list
        ra1, dec1 = [p[0] for p in p1], [p[1] for p in p1]
        ra2, dec2 = [p[0] for p in p2], [p[1] for p in p2]
        seps = np.concatenate([np.asarray(g.sep_rad(a, d, ra2, dec2), dtype="f8") for a, d in zip(ra1, dec1)])
        seps = seps[seps > 0]
        med = math.degrees(float(np.median(seps))) if seps.size else 1.0
        depth = r.randrange(1, 9) if kind == "uniform" else r.randrange(1, 11)
        maxang = min(med * 10 ** r.uniform(-0.7, 0.5), 90.0)        # degrees
        while g.ntri_estimate(depth, maxang) > ctx.n(400, 1500) and depth > 1:
            depth -= 1
        if g.ntri_estimate(depth, maxang) > ctx.n(400, 1500):
            maxang = min(maxang, 20.0)
        if smode == "none":
            scale = None
            rmax = maxang
        elif smode == "scalar":
            scale = 10 ** r.uniform(-1, 3.5)
            rmax = math.radians(maxang) * scale
        else:
            base = 10 ** r.uniform(-1, 3.5)
            scale = [base * r.uniform(1.0, 3.0) for _ in ra1]
            rmax = math.radians(maxang) * min(scale)               # largest search angle = maxang
        rmin = rmax * 10 ** (-r.uniform(0.2, 3.5))
        return {"depth": depth, "ra1": ra1, "dec1": dec1, "ra2": ra2, "dec2": dec2, "rmin": rmin, "rmax": rmax,
                "nbin": r.randrange(1, 9), "scale": scale, "family": "%s/scale=%s" % (kind, smode)}

    def _edge_case(self, ctx, r, smode):
        """adversarial: pairs placed just inside / outside bin edges (but outside the 1e-9 zone),
        including separations just below rmin (the repaired cast defect) and just below rmax"""
        depth = r.randrange(1, 11)
        nbin = r.randrange(1, 6)
        maxang = 10 ** r.uniform(-3.7, 1.3)
        while g.ntri_estimate(depth, maxang) > ctx.n(400, 1500) and depth > 1:
            depth -= 1
        ra0, dec0 = g.position(r, r.choice(["uniform", "octant", "seam", "pole", "mesh"]))
        ra0 = ra0 % 360.0
        scale = None if smode == "none" else 10 ** r.uniform(-1, 3.5)
        unit = 1.0 if scale is None else math.radians(1.0) * scale
        rmax = maxang * unit
        rmin = rmax * 10 ** (-r.uniform(0.3, 2.5))
        edges = [rmin * (rmax / rmin) ** (k / nbin) for k in range(nbin + 1)]
        p2 = []
        for _ in range(r.randrange(4, 25)):
            e = r.choice(edges)
            f = r.choice([1 - 10 ** r.uniform(-8.5, -0.3), 1 + 10 ** r.uniform(-8.5, -0.5), 10 ** r.uniform(-1.5, 0)])
            p2.append(list(g.offset(ra0, dec0, min(e * f / unit, 179.0), r.uniform(0, 360))))
        sc = scale if smode != "array" else [scale]
        return {"depth": depth, "ra1": [ra0], "dec1": [dec0], "ra2": [p[0] for p in p2], "dec2": [p[1] for p in p2],
                "rmin": rmin, "rmax": rmax, "nbin": nbin, "scale": sc, "family": "near-edges/scale=%s" % smode}

    def _cover_edge_case(self, ctx, r, smode):
        """adversarial for the known class: a point of the second list on a mesh vertex/edge, at a separation
        just below a tiny rmax"""
        depth = r.randrange(1, 11)
        maxang = 10 ** r.uniform(-4, -2.5)
        p = g.mesh_point(r, min(depth, r.randrange(0, 11)))
        f = 1 - 10 ** r.uniform(-8.5, -5.3)
        c = g.offset(p[0], p[1], f * maxang, r.uniform(0, 360))
        scale = None if smode == "none" else 10 ** r.uniform(-1, 3.5)
        unit = 1.0 if scale is None else math.radians(1.0) * scale
        p2 = [list(p)] + [list(g.offset(c[0], c[1], maxang * r.random(), r.uniform(0, 360))) for _ in range(r.randrange(0, 6))]
        return {"depth": depth, "ra1": [c[0]], "dec1": [c[1]], "ra2": [q[0] for q in p2], "dec2": [q[1] for q in p2],
                "rmin": maxang * unit * 10 ** (-r.uniform(0.5, 2)), "rmax": maxang * unit, "nbin": r.randrange(1, 4),
                "scale": scale, "family": "rmax-through-vertex/scale=%s" % smode}

    def cases(self, ctx, round=0):
        self._ctx = ctx
        r = ctx.rng
        cs = []
        if round == 0:
            two, ten, thirty, hundred = 2.0 / 3600., 10.0 / 3600., 30.0 / 3600.0, 100.0 / 3600.0
            cs.append({"depth": 10, "ra1": [200.0, 200.0, 200.0, 175.23, 21.36], "dec1": [24.3, 24.3, 24.3, -28.25, -15.32],
                       "ra2": [200.0, 200.0, 200.0, 175.23, 55.25],
                       "dec2": [24.3 + two, 24.3 + ten, 24.3 - thirty, -28.25 + hundred, 75.22],
                       "rmin": 5 / 3600., "rmax": 150 / 3600., "nbin": 10, "scale": None, "family": "pinned-by-test-suite"})
        modes = ["none", "scalar", "array"]
        for i in range(ctx.n(45, 600)):
            kind = ["uniform", "cap", "cap"][i % 3]
            cs.append(self._case(ctx, r, kind, modes[(i // 3) % 3]))
        for i in range(ctx.n(18, 240)):
            cs.append(self._edge_case(ctx, r, modes[i % 3]))
        for i in range(ctx.n(8, 60)):
            cs.append(self._cover_edge_case(ctx, r, modes[i % 2]))
        # input forms (DESIGN 'all point sets as in C12': byte-swapped and non-contiguous coordinate arrays; plus lists,
        # tuples, scalars, read-only, integer / float32 dtypes, option combinations): every case gets three of them in turn
        for i, c in enumerate(cs):
            c["forms"] = [FORMS[(3 * i + j) % len(FORMS)] for j in range(3)]
        # coordinates that are exactly representable in float32 / as integers, passed in those dtypes
        for i in range(ctx.n(6, 45)):
            c = self._case(ctx, r, "cap", modes[i % 3])
            if i % 2 == 0:
                for k in ("ra1", "dec1", "ra2", "dec2"):
                    c[k] = [max(-90.0, min(90.0, float(np.float32(x)))) if k.startswith("dec") else float(np.float32(x)) for x in c[k]]
                c["forms"] = ["f4", FORMS[i % len(FORMS)]]
                c["family"] = "float32-coordinates/" + c["family"].split("/")[1]
            else:
                ra0, dec0 = r.randrange(0, 360), r.randrange(-80, 81)
                c["ra1"] = [float((ra0 + r.randrange(-3, 4)) % 360) for _ in c["ra1"]]
                c["dec1"] = [float(dec0 + r.randrange(-3, 4)) for _ in c["dec1"]]
                c["ra2"] = [float((ra0 + r.randrange(-4, 5)) % 360) for _ in c["ra2"]]
                c["dec2"] = [float(dec0 + r.randrange(-4, 5)) for _ in c["dec2"]]
                c["depth"] = r.randrange(1, 6)
                unit = 1.0 if c["scale"] is None else math.radians(1.0) * (c["scale"] if not isinstance(c["scale"], list) else min(c["scale"]))
                c["rmax"] = r.choice([1.5, 3.0, 6.5]) * unit
                c["rmin"] = c["rmax"] / r.choice([3.0, 10.0, 25.0])
                c["forms"] = [r.choice(["i4", "i8", "pyint"]), FORMS[i % len(FORMS)]]
                c["family"] = "integer-coordinates/" + c["family"].split("/")[1]
            cs.append(c)
        # long lists: 2^k + 1 points in the second list; more than `step` = 500 points in the first (verbose progress)
        if round == 0:
            for n1, n2, forms in ((2, ctx.n(2 ** 10 + 1, 2 ** 12 + 1), ["strided", "ids-i4"]), (ctx.n(501, 1001), 3, ["verbose", "byteswapped"])):
                centre = g.position(r, "uniform")
                capr = 0.5
                P = [list(g.offset(centre[0], centre[1], capr * math.sqrt(r.random()), r.uniform(0, 360))) for _ in range(n1 + n2)]
                cs.append({"depth": 7, "ra1": [p[0] for p in P[:n1]], "dec1": [p[1] for p in P[:n1]],
                           "ra2": [p[0] for p in P[n1:]], "dec2": [p[1] for p in P[n1:]], "rmin": 0.01, "rmax": 0.4, "nbin": 4,
                           "scale": None, "family": "long-lists", "forms": forms})
        return cs

    # ---- the real code
    def impl(self, c):
        from esutil import stat

        def f():
            depth = c["depth"]
            ra1, dec1 = ENV[0].arr("ra1", c["ra1"]), ENV[0].arr("dec1", c["dec1"])
            ra2, dec2 = ENV[0].arr("ra2", c["ra2"]), ENV[0].arr("dec2", c["dec2"])
            # stat.histogram needs ~1 s per million bins: lower the depth when the ids of the second
            # list are spread too far (deterministic, recorded in the output)
            while depth > 1:
                id2 = htm_of(depth).lookup_id(ra2, dec2)
                if int(id2.max() - id2.min()) <= 600000:
                    break
                depth -= 1
            h = htm_of(depth)
            id2 = ENV[0].arr("id2", h.lookup_id(ra2, dec2), "i8")
            scale = c["scale"]
            sc = None if scale is None else (ENV[0].arr("scale", scale) if isinstance(scale, list) else scale)
            a = (c["rmin"], c["rmax"], c["nbin"], ra1, dec1, ra2, dec2)
            lower, upper, counts = h.bincount(*a, scale=sc)
            mn, mx = id2.min(), id2.max()
            hist, rev = stat.histogram(id2 - mn, rev=True)
            rev = ENV[0].arr("rev", rev, "i8")
            guard = [x.copy() for x in (ra1, dec1, ra2, dec2, id2, rev)] + ([sc.copy()] if isinstance(sc, np.ndarray) else [])

            def unchanged(where):
                now = [ra1, dec1, ra2, dec2, id2, rev] + ([sc] if isinstance(sc, np.ndarray) else [])
                if any(x.tobytes() != y.tobytes() for x, y in zip(guard, now)):
                    raise RuntimeError("bincount modified an array argument (%s)" % where)
            unchanged("plain call")
            outs = [counts]
            for kw in (dict(htmid2=id2, htmrev2=rev, minid=mn, maxid=mx), dict(htmid2=id2), dict(htmid2=id2, htmrev2=rev), dict(htmrev2=rev),
                       dict(htmid2=list(int(x) for x in id2), htmrev2=rev.copy(), minid=int(mn), maxid=int(mx), verbose=False)):
                outs.append(h.bincount(*a, scale=sc, getbins=False, **kw))
                unchanged("precomputed " + ",".join(sorted(kw)))
            if isinstance(scale, list) and len(scale) == 1:          # size-1 array = scalar
                outs.append(h.bincount(*a, scale=scale[0], getbins=False))
            forms = list(c.get("forms", []))
            if forms:                        # N-d coordinate arrays, C or Fortran memory order (fixes/C13/0003, C13_lookup_id_2d)
                forms.append(["2d", "2dF"][(ra1.size + ra2.size) % 2])
            for form in forms:
                o = bincount_form(form, h, depth, c["rmin"], c["rmax"], c["nbin"], ra1, dec1, ra2, dec2, sc, id2, rev, mn, mx)
                unchanged("form " + form)
                if o is not None:
                    outs.append(o)
            covers = []
            for i1 in range(ra1.size):
                s = 1.0 if scale is None else (scale[i1] if isinstance(scale, list) and len(scale) > 1 else
                                               (scale[0] if isinstance(scale, list) else scale))
                ang = c["rmax"] / s
                # the cap cbincount searches: maxangle plus the margin read from the source (c13_translate)
                capdeg = min((ang if scale is None else math.degrees(ang)) + float(GEN["pad_deg"]), 180.0)
                covers.append([int(x) for x in h.intersect(float(ra1[i1]), float(dec1[i1]), capdeg, inclusive=True)])
            cc = dict(c)
            if isinstance(scale, list) and len(scale) == 1:
                cc["scale"] = scale[0]
            pairs, zones, _ = pair_oracle(cc)
            return {"depth": depth, "outs": [[int(x) for x in o] for o in outs], "mn": int(mn), "mx": int(mx),
                    "rle": rle(rev), "ids2": [int(x) for x in id2], "covers": covers, "pairs": pairs, "zones": zones,
                    "lower": [float(x) for x in lower], "upper": [float(x) for x in upper]}
        out = core.guarded(f)
        self.remember(c, out)
        return out

    def _term(self, fn, c, out, zones=False, outs=True):
        o = out[1]
        t = [fn, "1" if GEN["index"] == "cast" else "0", cz(c["nbin"]), cz(o["mn"]), cz(o["mx"]),
             "[" + "; ".join("(%s, %s)" % (cz(n), cz(v)) for n, v in o["rle"]) + "]",
             clist(o["ids2"]), clists(o["covers"]),
             "[" + "; ".join("[" + "; ".join("(%d, %s)" % (t_, cz(v)) for t_, v in row) + "]" for row in o["pairs"]) + "]"]
        if zones:
            zs = []
            for k, z in sorted(o["zones"].items()):
                i1, i2 = k.split(",")
                zs.append("((%s, %s), [%s])" % (cz(i1), cz(i2), "; ".join(cqf(x) for x in z)))
            t.append("[" + "; ".join(zs) + "]")
        if outs:
            t.append(clists(o["outs"]))
        term = " ".join(t)
        if fn == "v_bincount_x" and o["mx"] - o["mn"] <= TIE_SPAN:
            # the real reverse-index array = C05's verified pass on its own sort index (ExecTie.rev_tie, C13_rev_tie_sound)
            term = "with_tie (%s) (rev_tie %s %s %s %s)" % (term, clist(o["ids2"]), cz(o["mn"]), cz(o["mx"]),
                                                          "[" + "; ".join("(%s, %s)" % (cz(n), cz(v)) for n, v in o["rle"]) + "]")
        return term

    def term(self, c, out):
        if out[0] != "ok":
            return "3"
        return self._term("v_bincount_x", c, out)

    def nontrivial(self, c, out):
        return out[0] == "ok" and sum(out[1]["outs"][0]) >= 1 and len(c["ra2"]) >= 2

    def show(self, c):
        _, out = self._seen[key(c)]
        return self._term("show_bincount_x", c, out, outs=False) if out[0] == "ok" else None


# ----------------------------------------------------------------------------------------------
# sequences: several calls in one process on ONE HTM object per depth and on the SAME array objects
# ----------------------------------------------------------------------------------------------
class Sequence(C13Entry):
    """state carried across calls.  A case is a list of steps (lookup_id / intersect / bincount cases of the entries above);
    all steps run on the sequence's own HTM objects (one per depth, kept for the whole sequence) and take their coordinate /
    scale / id / reverse-index arrays from buffers that are the same OBJECTS from step to step, refilled in place
    (same length, same first and last elements, same address); steps marked copy use new objects with equal contents on the
    same HTM object.  Every step is judged as usual (its Coq term) and must in addition return exactly what the same call
    returns on a fresh HTM object with fresh arrays (FreshEnv)."""
    name = "sequence"

    def __init__(self, base):
        C13Entry.__init__(self)
        self.base = base

    @staticmethod
    def _perturb(r, c, scale_mode):
        """same sizes, same first and last point of the second list, other contents"""
        d = dict(c)
        step = 0.3 * (c["rmax"] if c["scale"] is None else math.degrees(c["rmax"] / (min(c["scale"]) if isinstance(c["scale"], list) else c["scale"])))
        for a, b in (("ra1", "dec1"), ("ra2", "dec2")):
            pts = [g.offset(x, y, min(step * r.random(), 10.0), r.uniform(0, 360)) for x, y in zip(c[a], c[b])]
            if a == "ra2":
                pts[0], pts[-1] = (c[a][0], c[b][0]), (c[a][-1], c[b][-1])
            d[a], d[b] = [p[0] for p in pts], [p[1] for p in pts]
        ang = c["rmax"] if c["scale"] is None else c["rmax"] / (min(c["scale"]) if isinstance(c["scale"], list) else c["scale"])
        angmin = ang * c["rmin"] / c["rmax"]
        if c["scale"] is None:
            ang, angmin = math.radians(ang), math.radians(angmin)
        if scale_mode == "none":
            d["scale"], d["rmax"], d["rmin"] = None, math.degrees(ang), math.degrees(angmin)
        elif scale_mode == "scalar":
            sc = r.choice([1.0, 10 ** r.uniform(-1, 3.5)])          # exactly 1.0 = the value used when no scale is sent
            d["scale"], d["rmax"], d["rmin"] = sc, ang * sc, angmin * sc
        else:
            base = 10 ** r.uniform(-1, 3.5)
            d["scale"] = [base * r.uniform(1.0, 3.0) for _ in c["ra1"]]
            d["rmax"], d["rmin"] = ang * min(d["scale"]), angmin * min(d["scale"])
        d["family"] = "sequence"
        d.pop("forms", None)
        return d

    def cases(self, ctx, round=0):
        self._ctx = ctx
        r = ctx.rng
        bc, it = self.base["bincount"], self.base["intersect"]
        cs = []
        modes = ["none", "scalar", "array"]
        for i in range(ctx.n(6, 40)):
            A = bc._case(ctx, r, "cap", modes[i % 3])
            while len(A["ra2"]) < 3:
                A = bc._case(ctx, r, "cap", modes[i % 3])
            A["family"] = "sequence"
            B = self._perturb(r, A, modes[(i + 1) % 3])
            C = self._perturb(r, A, modes[(i + 2) % 3])
            P = dict(A)                                     # the second list in another order: same counts, other indices
            idx = list(range(len(A["ra2"])))
            r.shuffle(idx)
            P["ra2"], P["dec2"] = [A["ra2"][j] for j in idx], [A["dec2"][j] for j in idx]
            for x in (B, C, P):
                x["nbin"] = r.choice([A["nbin"], r.randrange(1, 9)])
            B["forms"] = ["minmax-without-ids"]
            X = it._case(ctx, r, "uniform", 500)
            Y = it._case(ctx, r, r.choice(["uniform", "seam", "octant"]), 500)
            for x in (X, Y):
                x["samples"] = x["samples"][:20]
                if g.ntri_estimate(A["depth"], x["radius"]) <= 1500:
                    x["depth"] = A["depth"]
                x["family"] = "sequence"
            X2 = dict(X, radius=X["radius"] * r.choice([0.5, 1.0, 2.0]) if X["radius"] < 40 else X["radius"])
            X2["samples"] = [list(g.offset(X["ra"] % 360.0, X["dec"], min(f * X2["radius"], 179.9), r.uniform(0, 360)))
                             for f in [r.random() for _ in range(10)] + [r.uniform(1, 3) for _ in range(10)]]
            L1 = {"pts": [[a, b] for a, b in zip(A["ra2"], A["dec2"])], "how": "f8", "family": "sequence", "maxdepth": 6}
            L2 = {"pts": [[a, b] for a, b in zip(B["ra2"], B["dec2"])], "how": "f8", "family": "sequence", "maxdepth": 6}
            X2["how"] = "full-first"            # ... X(inclusive), X(not), X2(not), X2(inclusive), Y2(inclusive), Y2(not)
            Y2 = dict(Y, radius=X2["radius"], depth=X2["depth"])       # another centre, the radius of the previous call
            Y2["samples"] = [list(g.offset(Y["ra"] % 360.0, Y["dec"], min(f * Y2["radius"], 179.9), r.uniform(0, 360)))
                             for f in [r.random() for _ in range(10)] + [r.uniform(1, 3) for _ in range(10)]]
            # consecutive calls that share what a lazy cache key would use: same objects/lengths/first+last elements (L1, L2;
            # A, B, P), same centre with another radius (X, X2), same radius with another centre (X2, Y2)
            steps = [("bincount", A, False), ("lookup_id", L1, False), ("lookup_id", L2, False), ("bincount", B, False),
                     ("intersect", X, False), ("intersect", X2, False), ("intersect", Y2, False), ("bincount", P, False),
                     ("bincount", A, False), ("intersect", Y, False), ("intersect", X, False), ("bincount", C, True),
                     ("lookup_id", L1, True), ("bincount", B, False)]
            if i % 2:
                steps = steps[::-1]
            cs.append({"steps": [{"op": op, "case": dict(c, entry=op), "copy": cp} for op, c, cp in steps], "family": "sequence"})
        return cs

    def impl(self, c):
        env, default = SeqEnv(), ENV[0]
        outs = []
        try:
            for k, st in enumerate(c["steps"]):
                ent = self.base[st["op"]]
                env.copy = bool(st.get("copy"))
                ENV[0] = env
                # the probes run BEFORE the step's own calls, so that the last calls made on the HTM object before the next step
                # are those of this step on the shared buffers (a probe in between would overwrite a one-slot cache and hide it)
                try:
                    alias = self._alias_probe(st, env)
                except Exception as e:  # noqa  (a valid call raised: a failing input of this step)
                    alias = "the repeated call raised %s: %s" % (type(e).__name__, str(e)[:150])
                o = ent.impl(st["case"])
                ENV[0] = FreshEnv()
                o2 = ent.impl(st["case"])
                if alias is not None:
                    o = ("err", "EOther", "step %d (%s): %s" % (k, st["op"], alias))
                    outs.append(o)
                    continue
                if key(o) != key(o2):
                    o = ("err", "EOther", "step %d (%s) depends on the calls made before it: on the reused HTM object/arrays it returned "
                         "something else than on a fresh HTM object with fresh arrays" % (k, st["op"]), {"reused": o, "fresh": o2})
                outs.append(o)
        finally:
            ENV[0] = default
        out = ("ok", outs)
        self.remember(c, out)
        return out

    @staticmethod
    def _alias_probe(st, env):
        """ownership of results: the caller overwrites a RETURNED array and calls again with the same arguments on the same object;
        the second answer must be the first one (no result buffer is shared with a later result or with an argument)"""
        c, op = st["case"], st["op"]
        same = lambda a, b: a.shape == b.shape and a.dtype == b.dtype and a.tobytes() == b.tobytes()
        if op == "lookup_id":
            h = env.h(min(c.get("maxdepth", MAXDEPTH), 6))
            ra, dec = np.array([p[0] for p in c["pts"]]), np.array([p[1] for p in c["pts"]])
            from esutil import htm as _htm
            h.lookup_id(ra, dec)
            ra[:] = np.roll(ra, 1)                     # in-place change of the same arrays, same call again
            dec[:] = dec[::-1].copy()
            second, alone = h.lookup_id(ra, dec), _htm.HTM(h.get_depth()).lookup_id(ra.copy(), dec.copy())
            if list(second) != list(alone):
                return "lookup_id: call, in-place change of the same arrays, same call again: %s, fresh object: %s" % (second[:5], alone[:5])
            r1 = h.lookup_id(ra, dec)
            keep = r1.copy()
            r1[:] = -1
            r2 = h.lookup_id(ra, dec)
            if not same(r2, keep) or np.shares_memory(r2, r1) or np.shares_memory(r2, ra):
                return "lookup_id: after the caller overwrote the returned ids, the same call returned %s instead of %s" % (r2[:5], keep[:5])
        elif op == "intersect":
            h = env.h(c["depth"])
            r1 = h.intersect(c["ra"], c["dec"], c["radius"], True)
            keep = r1.copy()
            r1[:] = 0
            r2 = h.intersect(c["ra"], c["dec"], c["radius"], True)
            if not same(r2, keep) or np.shares_memory(r2, r1):
                return "intersect: after the caller overwrote the returned list, the same call returned something else"
        else:
            h = env.h(c["depth"])
            sc = c["scale"]
            sc = None if sc is None else (np.array(sc, dtype="f8") if isinstance(sc, list) else sc)
            a = (c["rmin"], c["rmax"], c["nbin"], np.array(c["ra1"]), np.array(c["dec1"]), np.array(c["ra2"]), np.array(c["dec2"]))
            id2 = h.lookup_id(a[5], a[6])
            if int(id2.max() - id2.min()) > 600000:
                return None
            # in-place change: call -> the SAME position arrays of the second list get other values (identity and size kept) ->
            # same call again, nothing in between; the second answer must be that of a fresh HTM object on the new contents
            from esutil import htm as _htm
            ra2b, dec2b = a[5].copy(), a[6].copy()
            first = h.bincount(a[0], a[1], a[2], a[3], a[4], ra2b, dec2b, scale=sc, getbins=False)
            ra2b[:] = np.roll(ra2b, 1)                 # ra of the neighbour, dec kept: another point set of the same size
            dec2b[:] = dec2b[::-1].copy()
            second = h.bincount(a[0], a[1], a[2], a[3], a[4], ra2b, dec2b, scale=sc, getbins=False)
            alone = _htm.HTM(c["depth"]).bincount(a[0], a[1], a[2], a[3], a[4], ra2b.copy(), dec2b.copy(), scale=sc, getbins=False)
            if list(second) != list(alone):
                return ("bincount: call, in-place change of the same ra2/dec2 arrays, same call again: %s, but a fresh HTM object returns %s "
                        "for the new contents (first call: %s)" % (list(second), list(alone), list(first)))
            ra1b, dec1b = a[3].copy(), a[4].copy()
            h.bincount(a[0], a[1], a[2], ra1b, dec1b, a[5], a[6], scale=sc, getbins=False)
            ra1b[:] = np.roll(ra1b, 1) if ra1b.size > 1 else ra1b + 0.5 * (a[1] if sc is None else 0.0)
            dec1b[:] = dec1b[::-1].copy()
            second = h.bincount(a[0], a[1], a[2], ra1b, dec1b, a[5], a[6], scale=sc, getbins=False)
            alone = _htm.HTM(c["depth"]).bincount(a[0], a[1], a[2], ra1b.copy(), dec1b.copy(), a[5], a[6], scale=sc, getbins=False)
            if list(second) != list(alone):
                return ("bincount: call, in-place change of the same ra1/dec1 arrays, same call again: %s, but a fresh HTM object returns %s"
                        % (list(second), list(alone)))
            lo1, up1, n1 = h.bincount(*a, scale=sc, htmid2=id2)           # the returned ids of lookup_id are handed back as htmid2
            keep = [x.copy() for x in (lo1, up1, n1, id2)]
            lo1[:] = -1.0
            up1[:] = -1.0
            n1[:] = -7
            lo2, up2, n2 = h.bincount(*a, scale=sc, htmid2=id2)
            if not all(same(x, y) for x, y in zip((lo2, up2, n2, id2), keep)) or np.shares_memory(n2, n1):
                return ("bincount: after the caller overwrote the returned edges/counts, the same call returned %s / %s instead of %s / %s"
                        % (list(n2), list(lo2)[:3], list(keep[2]), list(keep[0])[:3]))
        return None

    def _terms(self, c, out):
        return [self.base[st["op"]].term(st["case"], tuple(o)) for st, o in zip(c["steps"], out[1])]

    def term(self, c, out):
        return "fold_left Z.lor [%s] 0" % "; ".join("(%s)" % t for t in self._terms(c, out))

    def nontrivial(self, c, out):
        return any(self.base[st["op"]].nontrivial(st["case"], tuple(o)) for st, o in zip(c["steps"], out[1]))

    def show(self, c):
        _, out = self._seen[key(c)]
        return "[%s]" % "; ".join("(%s)" % t for t in self._terms(c, out))       # the verdict of every step


# ----------------------------------------------------------------------------------------------
# rejections: which calls raise ValueError (MoreModel.lookup_validate / bincount_validate, C13_*_rejections)
# ----------------------------------------------------------------------------------------------
class Rejections(C13Entry):
    """argument validation of htm.py: the error class of the real call = the model's, for all size combinations"""
    name = "rejections"

    def cases(self, ctx, round=0):
        self._ctx = ctx
        r = ctx.rng
        cs = []
        for na, nd in ((1, 1), (3, 3), (1, 2), (2, 1), (3, 1), (0, 1), (4, 5)):
            cs.append({"op": "lookup_id", "n_ra": na, "n_dec": nd, "family": "rejections"})
        sizes = [(2, 2, 3, 3, None, None), (2, 3, 3, 3, None, None), (3, 2, 3, 3, None, None), (2, 2, 3, 3, 1, None), (2, 2, 3, 3, 2, None),
                 (2, 2, 3, 3, 3, None), (1, 1, 3, 3, 1, None), (2, 2, 3, 3, None, 3), (2, 2, 3, 3, None, 2), (2, 2, 3, 3, None, 4),
                 (2, 2, 3, 3, 4, 2), (2, 1, 3, 3, 5, 7), (2, 2, 3, 4, None, None), (2, 2, 3, 5, 2, 3), (2, 2, 3, 4, None, 2)]
        if not GEN.get("ra2_typo"):
            sizes.append((2, 2, 4, 3, None, None))        # dec2 shorter than ra2: only safe to try when the size test rejects it
        for _ in range(ctx.n(6, 40)):
            n1, n2 = r.randrange(1, 6), r.randrange(2, 7)
            sizes.append((n1, r.choice([n1, n1, r.randrange(1, 6)]), n2, r.choice([n2, n2, n2 + r.randrange(1, 3)]) if GEN.get("ra2_typo") else r.choice([n2, r.randrange(2, 7)]),
                          r.choice([None, 1, n1, r.randrange(1, 6)]), r.choice([None, n2, r.randrange(1, 7)])))
        for z in sizes:
            cs.append({"op": "bincount", "sizes": list(z), "family": "rejections"})
        return cs

    def impl(self, c):
        h = htm_of(4)

        def code(f):
            try:
                f()
                return 0
            except ValueError:
                return 1
            except Exception as e:  # noqa
                return [2, "%s: %s" % (type(e).__name__, str(e)[:100])]
        if c["op"] == "lookup_id":
            out = code(lambda: h.lookup_id(np.linspace(10, 20, c["n_ra"]), np.linspace(-5, 5, c["n_dec"])))
        else:
            a1, d1, a2, d2, ns, ni = c["sizes"]
            kw = {}
            if ns is not None:
                kw["scale"] = np.full(ns, 57.3)
            if ni is not None:
                kw["htmid2"] = h.lookup_id(np.linspace(10, 10.3, ni), np.linspace(-0.2, 0.2, ni))
            out = code(lambda: h.bincount(0.01, 1.0, 3, np.linspace(10, 10.3, a1), np.linspace(-0.2, 0.2, d1),
                                          np.linspace(10, 10.3, a2), np.linspace(-0.2, 0.2, d2), getbins=False, **kw))
        out = ("ok", out)
        self.remember(c, out)
        return out

    def _model(self, c):
        if c["op"] == "lookup_id":
            return "result_code (lookup_validate %d %d)" % (c["n_ra"], c["n_dec"])
        a1, d1, a2, d2, ns, ni = c["sizes"]
        opt = lambda x: "None" if x is None else "(Some %d%%nat)" % x
        return ("result_code (bincount_validate %s {| n_ra1 := %d; n_dec1 := %d; n_ra2 := %d; n_dec2 := %d; n_scale := %s; n_htmid2 := %s |})"
                % ("true" if GEN.get("ra2_typo") else "false", a1, d1, a2, d2, opt(ns), opt(ni)))

    def term(self, c, out):
        o = out[1]
        return "verdict (%s =? %d) true" % (self._model(c), o if isinstance(o, int) else 2)

    def nontrivial(self, c, out):
        return True

    def show(self, c):
        return self._model(c)


_BASE = {"lookup_id": Ids(), "intersect": Intersect(), "bincount": Bincount()}
ENTRIES = [_BASE["lookup_id"], _BASE["intersect"], _BASE["bincount"], Sequence(_BASE), Rejections()]

TRUSTED = [
    "Coq 8.16.1 kernel (coqc, vm_compute; no native_compute).  The discrete C13 theorems (abstract descent, traversal, counts, checkers, "
    "cast vs floor on rationals) are closed under the global context; the C13_concrete_* theorems use only the PrimFloat/Uint63 primitives "
    "(no axioms about them); C13_logbin, C13_edges, C13_trunc_vs_floor, C13_bincount_cast_refuted, C13_floor_real_rational use the stdlib "
    "real-number axioms (sig_forall_dec, sig_not_dec, functional_extensionality_dep, classic) through Reals and Flocq's Raux (Zfloor/Ztrunc)",
    "id lookup: SpatialIndex::idByPoint / isInside / the vector arithmetic are modelled bit-exactly in PrimFloat (FloatModel.v) and compared "
    "with the ids of the real code at depths 0..20 for every sampled position; assumed: the compiler evaluates the C++ double expressions in "
    "IEEE binary64 without contraction (baseline x86-64), PrimFloat's operations are IEEE binary64, and the unit vector of a position is "
    "recomputed by the harness with libm's cos/sin as SpatialVector::updateXYZ does (its shape is checked by the translator)",
    "modelled, not verified (Section variables with hypotheses, monitored on every case): the geometric cover SpatialDomain::intersect "
    "(H_cover = Spec.cover_ok: monitored by Spec.cover_check on the lists the real intersect returns for the cap cbincount searches, and by "
    "sampling positions in and around the circle); the reverse-index layout of esutil.stat.histogram (Spec.rev_ok_on: monitored by "
    "Spec.rev_check on every listed triangle); the IEEE evaluation of gcirc/log10/division (ModelR.v is the formula chain over the reals; "
    "the implementation's bin decisions are compared with an independent 80-bit long-double oracle for every pair outside the statement's "
    "1e-9 relative zone)",
    "the definition of angular separation used by the oracle (haversine formula, harness/props/c13_geom.py; valid below ~179.9 degrees) and "
    "the oracle's long-double libm (sinl, cosl, atan2l, log10l, expm1l)",
    "translator harness/props/c13_translate.py (fail-closed shape check of every modelled C++/python statement; reads the bin-number function, "
    "the search-cap margin, gEpsilon, saveDepth, gPi from the tree under test and feeds them to the Coq model)",
    "python harness (harness/props/C13.py, c13_geom.py), literal printers, coqc evaluating Exec.v / ExecF.v verdict terms; "
    "generated interval lemmas tie ModelR.quotient / ModelR.edge to the oracle quotient and to the bin edges bincount returns "
    "(Interval tactic: FloatAxioms/Uint63 primitive specifications)",
    "coverage limit: intersect lists are explored up to ~10000 triangles per call (depth 12 only with radii below ~0.7 degree, radius "
    "90 degrees only up to depth ~4); bincount at depth <= 10 with the id span of the second list <= 600000 (stat.histogram needs "
    "~1 s per million bins), search angles <= 90 degrees",
]

DISCRETE = ["C13_id_range", "C13_hierarchy", "C13_range_monitor_complete", "C13_scalar_equals_array",
            "C13_intersect_full_in_inclusive", "C13_intersect_checker_strict", "C13_intersect_outside_known",
            "C13_rev_traversal_visits_each_member_once", "C13_bincount",
            "C13_precomputed_equals_internal", "C13_any_reverse_index_layout", "C13_bincount_checker",
            "C13_rev_layout_from_C05", "C13_bincount_with_C05_rev", "C13_rev_tie_sound",
            "C13_cap_loop", "C13_cap_loop_state", "C13_lookup_rejections", "C13_lookup_id_rejects_iff", "C13_bincount_rejections",
            "C13_ra2_dec2_mismatch_not_rejected", "C13_lookup_id_2d", "C13_history_independent", "C13_checkers_decide", "C13_radbin_spec", "C13_cast_vs_floor",
            "C13_checkers_sound"]

LPRE = ("From Coq Require Import Reals.\nFrom Interval Require Import Tactic.\n"
        "From EsVerif.C13 Require Import ModelR.\nOpen Scope R_scope.\n")


def real_lemmas(ctx):
    """per-case certificates (style R): the harness oracle's quotient equals ModelR.quotient (scale
    handling, units, log_binsize) and the bin edges returned by bincount equal ModelR.edge"""
    ent = Bincount()
    r = ctx.rng
    lemmas, names = [], []
    ncase = ctx.n(4, 24)
    modes = ["none", "scalar", "array"]
    for i in range(ncase):
        c = ent._case(ctx, r, "cap", modes[i % 3])
        out = ent.impl(c)
        if out[0] != "ok":
            ctx.violation("bincount raised on a valid input", {"kind": "failing-input", "entry": "bincount", "case": c,
                                                               "impl_output": out}, found_input=True)
            continue
        o = out[1]
        nbin = c["nbin"]
        _, _, thetas = pair_oracle(c)
        L0 = np.log10(g.LD(c["rmin"]))
        D = (np.log10(g.LD(c["rmax"])) - L0) / nbin
        picks = [(i1, i2) for i1 in range(len(c["ra1"])) for i2 in range(len(c["ra2"])) if thetas[i1][i2] > 0]
        r.shuffle(picks)
        for i1, i2 in picks[:2]:
            th = float(thetas[i1][i2])
            sc = c["scale"]
            s = None if sc is None else float(sc[i1] if isinstance(sc, list) else sc)
            rr = g.LD(th) / g.D2R if s is None else g.LD(th) * g.LD(s)
            q = float((np.log10(rr) - L0) / D)
            if abs(q) > 1e6:
                continue
            sterm = "None" if s is None else "(Some %s)" % core.cR(s)
            st = "Rabs (quotient %s %s %d %s (dis_of %s %s) - %s) <= 1/1000000000" % (
                core.cR(c["rmin"]), core.cR(c["rmax"]), nbin, sterm, sterm, core.cR(th), core.cR(q))
            lemmas.append((st, "unfold quotient, log_binsize, logscale_of, dis_of, degrees_of, log10, R2D. interval with (i_prec 100)."))
            names.append(("oracle quotient = ModelR.quotient", c, {"i1": i1, "i2": i2, "theta": th, "q": q}))
        k = r.randrange(nbin)
        for kk, val in ((k, o["lower"][k]), (k + 1, o["upper"][k])):
            st = "Rabs (edge %s %s %d %d - %s) <= %s / 100000000000" % (
                core.cR(c["rmin"]), core.cR(c["rmax"]), nbin, kk, core.cR(val), core.cR(val))
            lemmas.append((st, "unfold edge, log_binsize, pow10, log10. interval with (i_prec 100)."))
            names.append(("bin edge returned by bincount = ModelR.edge", c, {"k": kk, "edge": val}))
    res = core.coq_lemmas(os.path.join(ctx.work, "lem"), LPRE, lemmas, shard=6, tag="c13r")
    for (what, c, d), (ok, msg) in zip(names, res):
        ctx.obligation("interval certificate: " + what, ok, msg)
        ctx.case(["lemma", what, c, d], True, "real-lemma")
        if not ok:
            ctx.violation("C13 real-number certificate failed: " + what,
                          {"kind": "certificate", "case": c, "detail": d, "coq": msg[-800:],
                           "no_longer_checks": "ModelR (formula chain of cbincount / log_bins) vs harness oracle / implementation"},
                          found_input=False)


def translation_step(ctx):
    """regenerate the source-dependent parts of the model (c13_translate, fail-closed) and re-check, in Coq,
    the statements that depend on them"""
    gen = load_gen()
    ctx.obligation("translation of htmc.cc:cbincount/intersect/init/lookup_id, SpatialIndex.cpp:idByPoint/isInside/roots/children, "
                   "SpatialVector.cpp/SpatialEdge.cpp arithmetic, SpatialInterface init, htm.py:HTM.lookup_id/intersect/bincount/log_bins "
                   "(every modelled statement has the expected shape)", gen["error"] is None, gen["error"] or "")
    if gen["error"] is not None:
        ctx.violation("C13 translator: the modelled source no longer has the shape the model transcribes: " + gen["error"],
                      {"kind": "translation", "error": gen["error"],
                       "no_longer_checks": "Model.v / ModelR.v as a transcription of the anchored code"}, found_input=False)
    # (the statements that depend on the translated values are the tie lemmas of tie_step)


def tie_step(ctx):
    """(T) items: parts of the source translated into Gallina terms (c13_gen.py) and the tie lemmas `Gen.x = Model.x`, compiled on every
    run.  A section outside the translator's subset fails closed (violation, no failing input claimed); the values of the other
    sections are still used, and the differential below still runs with the hand model / last good values (no masking)."""
    root = os.environ.get("VERIF_IMPL")

    def rd(*p):
        try:
            return open(os.path.join(root, *p)).read()
        except OSError as e:
            raise tr.TranslateError("cannot read %s: %s" % (os.path.join(*p), e))
    files, values, errors = gen_terms.generate(root, rd)
    for k in ("pad_deg", "index", "ra2_typo"):
        if k in values:
            GEN[k] = values[k]
    ctx.obligation("translation into Gallina terms (validation of lookup_id/bincount, vertex/root/child tables, isInside, buildlevel, "
                   "gEpsilon, bin-number expression, search-cap expression)", not errors, "; ".join(errors))
    for e in errors:
        ctx.violation("C13 term translator: source outside the translated subset: " + e,
                      {"kind": "translation", "error": e, "no_longer_checks": "tie lemmas Gen.x = Model.x of this section"}, found_input=False)
    for k, (name, pre, ties) in enumerate(files):
        res = core.coq_lemmas(os.path.join(ctx.work, "tie%d" % k), pre, [(a, b) for a, b, _ in ties], shard=len(ties), tag="c13tie%d" % k)
        for (st, _, what), (ok, msg) in zip(ties, res):
            ctx.obligation("tie: " + what, ok, msg)
            if not ok:
                ctx.violation("C13 tie no longer checks: " + what,
                              {"kind": "tie", "section": name, "statement": st, "coq": msg[-800:],
                               "no_longer_checks": "Gen (translated from the source) = Model for: " + what}, found_input=False)


def run(ctx, replay=None):
    ctx.rule = ("corpus + adversarial families (poles, octant boundaries, seam, mesh vertices/edges, circles passing within 1e-9..1e-1 "
                "relative of a sample, pairs within 1e-8.5..1e-0.3 relative of bin edges) + seeded random; every case runs the real esutil "
                "(scratch build) and is evaluated in Coq: model = implementation? and verified checker of the property on the "
                "implementation's output.  non-trivial: lookup_id every batch; intersect >= 2 triangles listed, >= 1 constrained sample "
                "inside (besides the centre) and >= 1 outside; bincount >= 1 counted pair and >= 2 points in the second list.  "
                "distinct by canonical JSON.  Positions/pairs within 1e-9 relative of a circle/bin edge are unconstrained (counted as "
                "code 0 / tag 2).")
    ctx.trusted = TRUSTED
    if not core.proof_step(ctx, "C13", core.ALLOW_REALS + core.ALLOW_FLOAT, extra_targets=("theories/C13/ExecF.vo", "theories/C13/ExecTie.vo")):
        return
    res, bad, _ = core.assumptions(ctx.work, "C13.Properties", DISCRETE, core.ALLOW_DISCRETE)
    ctx.obligation("the %d discrete C13 theorems are closed under the global context" % len(DISCRETE), not bad, str(bad[:3]))
    if bad:
        ctx.violation("a discrete C13 theorem depends on an axiom: %s" % bad[:3], {"kind": "assumptions", "bad": bad},
                      found_input=False)
    translation_step(ctx)
    tie_step(ctx)
    differential(ctx, PRE, ENTRIES, replay)
    if replay is None:
        real_lemmas(ctx)
    for e in ENTRIES:
        for c, out in e._seen.values():          # measured distribution of the input forms
            if out[0] == "ok":
                for f in ([c["how"]] if "how" in c else c.get("forms", [])):
                    ctx.count("form:%s:%s" % (e.name, f))
                if e.name == "bincount":
                    ctx.count("rev_tie_to_C05_model:" + ("compared" if out[1]["mx"] - out[1]["mn"] <= TIE_SPAN else "span-too-large"))
    for e in ENTRIES:
        n = sum(1 for v in (e._known or {}).values() if v == 1)
        if n:
            ctx.count("known_class_cases:" + e.name, n)

"""C08 -- child process for the sequence/history dimension: reads a JSON list of call specs from stdin,
executes them IN ORDER in this fresh process (same code path as the in-process driver: C08.run_steps) and
prints the JSON list of results.  Run as:  python -c "from harness.props import c08_seq; c08_seq.main()"
with PYTHONPATH = the scratch build of the tree under check."""
import json
import sys


def main():
    from harness.props import C08
    steps = json.load(sys.stdin)
    res, _ = C08.run_steps(steps)
    json.dump(res, sys.stdout)


if __name__ == "__main__":
    main()

"""C19 -- fail-closed translator: the numeric statement chains of esutil.coords.randsphere, randcap
(both branches) and rotate are read from the SOURCE of the tree under test (python `ast`) and printed
as Gallina functions over R (`gen_*`).  The check then proves, on every run,

        forall args, gen_f args = <hand model of C19/Model.v> args          (by reflexivity)

so the theorems of C19/Properties.v, which are about the hand model, are about the formulas that are in
the source today: a changed constant (89.9, 90.0/0.0 centre of the rotated cap, 2*PI, the clip bounds,
the allowed ranges), a changed operator or a reordered argument makes the regenerated definition differ
and the equality lemma fail.

Subset (anything else raises Untranslatable => the tie is reported broken):
  statements   x = e;  x op= e;  a, b = e1, e2;  a, b[, c] = f(...);  np.deg2rad(x, x) / np.rad2deg(x, x)
               / rad2deg(x, out=x) (in place);  np.clip(x, lo, hi, x);  atbound(x, 0.0, 360.0);
               x = np.array(y, dtype="f8", ndmin=1, copy=True) (copy)
  expressions  names, int/float constants, + - * / %, unary -, sin cos sqrt arccos arctan2 deg2rad rad2deg
               (bare or np.), x[0] / x[1] of the two range arguments, rng.random(n) and
               rng.uniform(low=, high=, size=) (the k-th call consumes the k-th deviate variable)
  shape / argument handling that carries no arithmetic is skipped only when it matches one of the
  literal statements listed in SKIP (compared as `ast.unparse` text).
"""
import ast
import os
from fractions import Fraction


class Untranslatable(Exception):
    pass


def _lit(v):
    """python int/float constant -> Coq R literal in the canonical form Model.v uses"""
    if isinstance(v, bool) or not isinstance(v, (int, float)):
        raise Untranslatable("constant %r" % (v,))
    fr = Fraction(v)
    if fr.denominator == 1:
        return "%d" % fr.numerator if fr.numerator >= 0 else "(%d)" % fr.numerator
    if fr < 0:
        return "(- (%d / %d))" % (-fr.numerator, fr.denominator)
    return "(%d / %d)" % (fr.numerator, fr.denominator)


FUN1 = {"sin": "sin", "cos": "cos", "sqrt": "sqrt", "arccos": "acos", "deg2rad": "d2r", "rad2deg": "r2d"}
FUN2 = {"arctan2": "atan2"}
OPS = {ast.Add: "+", ast.Sub: "-", ast.Mult: "*", ast.Div: "/"}


def _fname(f):
    if isinstance(f, ast.Name):
        return f.id
    if isinstance(f, ast.Attribute) and isinstance(f.value, ast.Name) and f.value.id == "np":
        return f.attr
    return None


class Tr:
    """translator of one straight-line statement list"""

    def __init__(self, deviates, subs=None, calls=None):
        self.dev = list(deviates)          # names of the deviate variables, in order of consumption
        self.subs = subs or {}             # ("ra_range", 0) -> "ra0"
        self.calls = calls or {}           # python function name -> (coq name, number of results)
        self.lets = []                     # printed `let ... in` lines

    # ---- expressions
    def e(self, n):
        if isinstance(n, ast.Name):
            return "PI" if n.id == "PI" else n.id
        if isinstance(n, ast.Constant):
            return _lit(n.value)
        if isinstance(n, ast.UnaryOp) and isinstance(n.op, ast.USub):
            if isinstance(n.operand, ast.Constant):
                return _lit(-n.operand.value)
            return "(- %s)" % self.e(n.operand)
        if isinstance(n, ast.BinOp):
            if isinstance(n.op, ast.Mod):
                return "(pymod %s %s)" % (self.e(n.left), self.e(n.right))
            if type(n.op) not in OPS:
                raise Untranslatable(ast.unparse(n))
            return "(%s %s %s)" % (self.e(n.left), OPS[type(n.op)], self.e(n.right))
        if isinstance(n, ast.Subscript) and isinstance(n.value, ast.Name) and isinstance(n.slice, ast.Constant):
            key = (n.value.id, n.slice.value)
            if key in self.subs:
                return self.subs[key]
        if isinstance(n, ast.Call):
            fn = _fname(n.func)
            if fn in FUN1 and len(n.args) == 1 and not n.keywords:
                return "(%s %s)" % (FUN1[fn], self.e(n.args[0]))
            if fn in FUN2 and len(n.args) == 2 and not n.keywords:
                return "(%s %s %s)" % (FUN2[fn], self.e(n.args[0]), self.e(n.args[1]))
            if isinstance(n.func, ast.Attribute) and isinstance(n.func.value, ast.Name) and n.func.value.id == "rng":
                if n.func.attr == "random" and len(n.args) == 1 and not n.keywords:
                    return self._deviate()
                if n.func.attr == "uniform" and not n.args and sorted(k.arg for k in n.keywords) == ["high", "low", "size"]:
                    kw = {k.arg: k.value for k in n.keywords}
                    lo, hi = self.e(kw["low"]), self.e(kw["high"])
                    return "(uniform %s %s %s)" % (lo, hi, self._deviate())
        raise Untranslatable(ast.unparse(n))

    def _deviate(self):
        if not self.dev:
            raise Untranslatable("more generator calls than deviates in the model")
        return self.dev.pop(0)

    # ---- statements
    def let(self, pat, rhs):
        self.lets.append("  let %s := %s in" % (pat, rhs))

    def stmt(self, s):
        if isinstance(s, ast.Assign) and len(s.targets) == 1:
            t = s.targets[0]
            if isinstance(t, ast.Name):
                v = s.value
                if (isinstance(v, ast.Call) and _fname(v.func) == "array" and len(v.args) == 1
                        and (ast.unparse(v).endswith("dtype='f8', ndmin=1, copy=True)")
                             or ast.unparse(v).endswith("ndmin=1, copy=True, dtype=dtype)"))):
                    return self.let(t.id, self.e(v.args[0]))           # a copy
                return self.let(t.id, self.e(v))
            if isinstance(t, ast.Tuple) and all(isinstance(x, ast.Name) for x in t.elts):
                names = [x.id for x in t.elts]
                if isinstance(s.value, ast.Tuple) and len(s.value.elts) == len(names):
                    for nm, ex in zip(names, s.value.elts):
                        self.let(nm, self.e(ex))
                    return
                if isinstance(s.value, ast.Call) and _fname(s.value.func) in self.calls:
                    cname, nres, conv = self.calls[_fname(s.value.func)]
                    if nres != len(names):
                        raise Untranslatable(ast.unparse(s))
                    return self.let("'(%s)" % ", ".join(names), "%s %s" % (cname, conv(self, s.value)))
        if isinstance(s, ast.AugAssign) and isinstance(s.target, ast.Name) and type(s.op) in OPS:
            return self.let(s.target.id, "(%s %s %s)" % (s.target.id, OPS[type(s.op)], self.e(s.value)))
        if isinstance(s, ast.Expr) and isinstance(s.value, ast.Call):
            c = s.value
            fn = _fname(c.func)
            a = c.args
            if fn in ("deg2rad", "rad2deg") and a and isinstance(a[0], ast.Name):
                inplace = ((len(a) == 2 and not c.keywords and isinstance(a[1], ast.Name) and a[1].id == a[0].id)
                           or (len(a) == 1 and len(c.keywords) == 1 and c.keywords[0].arg == "out"
                               and isinstance(c.keywords[0].value, ast.Name) and c.keywords[0].value.id == a[0].id))
                if inplace:
                    return self.let(a[0].id, "(%s %s)" % (FUN1[fn], a[0].id))
            if (fn == "clip" and len(a) == 4 and not c.keywords and isinstance(a[0], ast.Name)
                    and isinstance(a[3], ast.Name) and a[3].id == a[0].id):
                return self.let(a[0].id, "(clip %s %s %s)" % (self.e(a[1]), self.e(a[2]), a[0].id))
            if fn == "atbound" and len(a) == 3 and isinstance(a[0], ast.Name) and ast.unparse(a[1]) == "0.0" \
                    and ast.unparse(a[2]) == "360.0" and not c.keywords:
                return self.let(a[0].id, "(atbound %s)" % a[0].id)     # Model.atbound is atbound(., 0, 360)
        raise Untranslatable(ast.unparse(s))

    def body(self, stmts, skip=()):
        for s in stmts:
            if ast.unparse(s) in skip:
                continue
            self.stmt(s)
        return "\n".join(self.lets)


def _func(tree, name):
    for n in tree.body:
        if isinstance(n, ast.FunctionDef) and n.name == name:
            return n
    raise Untranslatable("function %s not found" % name)


def _nodoc(f):
    b = f.body
    if b and isinstance(b[0], ast.Expr) and isinstance(b[0].value, ast.Constant) and isinstance(b[0].value.value, str):
        b = b[1:]
    return b


SKIP_RNG = "if rng is None:\n    rng = np.random.RandomState()"
SKIP_ROTATE = (
    "if hasattr(ra, '__len__'):\n    is_scalar = False\nelse:\n    is_scalar = True",
    "ra = np.atleast_1d(ra)", "dec = np.atleast_1d(dec)",
    "ra = np.array(ra, ndmin=1, dtype='f8')", "dec = np.array(dec, ndmin=1, dtype='f8')",     # fixes/C09/0009
    "if ra.size != dec.size:\n    raise ValueError('ra[%d] has different size than dec[%d]' % (ra.size, dec.size))",
    "if is_scalar:\n    ra_out = ra_out[0]\n    dec_out = dec_out[0]",
)


def _ret(s, n):
    if isinstance(s, ast.Return) and isinstance(s.value, ast.Tuple) and len(s.value.elts) == n \
            and all(isinstance(x, ast.Name) for x in s.value.elts):
        return "(%s)" % ", ".join(x.id for x in s.value.elts)
    raise Untranslatable("return statement: " + ast.unparse(s))


def translate(repo):
    """-> (coq definitions text, [(lemma statement, proof)], facts dict)"""
    path = os.path.join(repo, "esutil", "coords.py")
    tree = ast.parse(open(path).read())
    defs, lemmas, facts = [], [], {}

    # ------------------------------------------------------------------ rotate
    f = _func(tree, "rotate")
    if [a.arg for a in f.args.args] != ["phi", "theta", "psi", "ra", "dec"]:
        raise Untranslatable("rotate signature")
    b = _nodoc(f)
    t = Tr([])
    lets = t.body(b[:-1], SKIP_ROTATE)
    defs.append("Definition gen_rotate (phi theta psi ra dec : R) : R * R :=\n%s\n  %s." % (lets, _ret(b[-1], 2)))
    lemmas.append(("forall phi theta psi ra dec, gen_rotate phi theta psi ra dec = rotate_R phi theta psi ra dec",
                   "intros; reflexivity."))

    # ------------------------------------------------------------------ randsphere
    f = _func(tree, "randsphere")
    if [a.arg for a in f.args.args] != ["num", "ra_range", "dec_range", "system", "rng"]:
        raise Untranslatable("randsphere signature")
    b = _nodoc(f)
    if ast.unparse(b[0]) != SKIP_RNG:
        raise Untranslatable("randsphere: " + ast.unparse(b[0]))
    allowed = {}
    for s, nm in ((b[1], "ra_range"), (b[2], "dec_range")):
        ok = (isinstance(s, ast.Assign) and ast.unparse(s.targets[0]) == nm and isinstance(s.value, ast.Call)
              and _fname(s.value.func) == "_check_range" and len(s.value.args) == 2 and ast.unparse(s.value.args[0]) == nm
              and isinstance(s.value.args[1], ast.List) and len(s.value.args[1].elts) == 2)
        if not ok:
            raise Untranslatable("randsphere: " + ast.unparse(s))
        tt = Tr([])
        allowed[nm] = [tt.e(x) for x in s.value.args[1].elts]
    facts["allowed"] = allowed
    last = b[-1]
    if not (isinstance(last, ast.If) and ast.unparse(last.test) == "system == 'xyz'" and len(last.body) == 2
            and ast.unparse(last.body[0]) == "x, y, z = eq2xyz(ra, dec)" and ast.unparse(last.body[1]) == "return (x, y, z)"
            and len(last.orelse) == 1):
        raise Untranslatable("randsphere: final branch")
    t = Tr(["u1", "u2"], subs={("ra_range", 0): "ra0", ("ra_range", 1): "ra1", ("dec_range", 0): "dec0", ("dec_range", 1): "dec1"})
    lets = t.body(b[3:-1], skip=("ra_range = [float(ra_range[0]), float(ra_range[1])]",
                                 "dec_range = [float(dec_range[0]), float(dec_range[1])]"))   # identity on the reals
    if t.dev:
        raise Untranslatable("randsphere draws fewer deviates than the model")
    defs.append("Definition gen_randsphere (ra0 ra1 dec0 dec1 u1 u2 : R) : R * R :=\n%s\n  %s." % (lets, _ret(last.orelse[0], 2)))
    lemmas.append(("forall ra0 ra1 dec0 dec1 u1 u2, gen_randsphere ra0 ra1 dec0 dec1 u1 u2 = randsphere_R ra0 ra1 dec0 dec1 u1 u2",
                   "intros; reflexivity."))
    defs.append("Definition gen_valid_box (ra0 ra1 dec0 dec1 : R) : Prop :=\n  %s <= ra0 <= ra1 /\\ ra1 <= %s /\\ %s <= dec0 <= dec1 /\\ dec1 <= %s."
                % (allowed["ra_range"][0], allowed["ra_range"][1], allowed["dec_range"][0], allowed["dec_range"][1]))
    lemmas.append(("forall ra0 ra1 dec0 dec1, gen_valid_box ra0 ra1 dec0 dec1 = valid_box ra0 ra1 dec0 dec1", "intros; reflexivity."))
    # _check_range itself: rejects exactly rng[0] < allowed[0] or rng[1] > allowed[1]
    cr = _func(tree, "_check_range")
    want = ("if rng is None:\n    rng = allowed\nelse:\n    if not hasattr(rng, '__len__'):\n        raise ValueError('range object does not have "
            "len() method')\n    if rng[0] < allowed[0] or rng[1] > allowed[1]:\n        raise ValueError('lon_range should be within "
            "[%s,%s]' % allowed)")
    if ast.unparse(cr.body[0]) != want or ast.unparse(cr.body[1]) != "return rng" or len(cr.body) != 2:
        raise Untranslatable("_check_range changed")

    # ------------------------------------------------------------------ randcap
    f = _func(tree, "randcap")
    if [a.arg for a in f.args.args] != ["nrand", "ra", "dec", "rad", "get_radius", "dorot", "rng"] \
            or [ast.unparse(d) for d in f.args.defaults] != ["False", "False", "None"]:
        raise Untranslatable("randcap signature")
    b = _nodoc(f)
    # conversions of the arguments to double precision are the identity on the reals they denote
    b = [st for st in b if ast.unparse(st) not in ("ra = np.float64(ra)", "dec = np.float64(dec)", "rad = np.float64(rad)")]
    if len(b) != 4 or ast.unparse(b[0]) != SKIP_RNG:
        raise Untranslatable("randcap: top-level structure")
    thr = b[1]
    ok = (isinstance(thr, ast.If) and not thr.orelse and ast.unparse(thr.body[0]) == "dorot = True" and len(thr.body) == 1
          and isinstance(thr.test, ast.BoolOp) and isinstance(thr.test.op, ast.Or) and len(thr.test.values) == 2)
    if ok:
        c1, c2 = thr.test.values
        ok = (isinstance(c1, ast.Compare) and ast.unparse(c1.left) == "dec" and len(c1.ops) == 1 and isinstance(c1.ops[0], ast.GtE)
              and isinstance(c2, ast.Compare) and ast.unparse(c2.left) == "dec" and len(c2.ops) == 1 and isinstance(c2.ops[0], ast.LtE))
    if not ok:
        raise Untranslatable("randcap: pole test " + ast.unparse(thr))
    tt = Tr([])
    hi, lo = tt.e(c1.comparators[0]), tt.e(c2.comparators[0])
    facts["pole_hi"], facts["pole_lo"] = float(ast.literal_eval(c1.comparators[0])), float(ast.literal_eval(c2.comparators[0]))
    defs.append("Definition gen_polar (dec : R) : bool :=\n  if Rle_dec %s dec then true else if Rle_dec dec %s then true else false." % (hi, lo))
    lemmas.append(("forall dec, gen_polar dec = polar dec", "intros; reflexivity."))
    br, fin = b[2], b[3]
    if not (isinstance(br, ast.If) and ast.unparse(br.test) == "dorot" and br.orelse):
        raise Untranslatable("randcap: branch structure")
    if ast.unparse(fin) != "if get_radius:\n    return (rand_ra, rand_dec, rand_r)\nelse:\n    return (rand_ra, rand_dec)":
        raise Untranslatable("randcap: return structure " + ast.unparse(fin))
    # direct branch
    t = Tr(["u", "upsi"])
    lets = t.body(br.orelse)
    if t.dev:
        raise Untranslatable("randcap draws fewer deviates than the model")
    defs.append("Definition gen_randcap_unrot (ra dec rad u upsi : R) : R * R * R :=\n%s\n  (rand_ra, rand_dec, rand_r)." % lets)
    lemmas.append(("forall ra dec rad u upsi, gen_randcap_unrot ra dec rad u upsi = randcap_unrot ra dec rad u upsi", "intros; reflexivity."))

    # rotated branch: the recursive call must be the direct branch on a non-polar centre
    def conv_rec(tr, call):
        kws = {k.arg: ast.unparse(k.value) for k in call.keywords}
        if len(call.args) != 4 or ast.unparse(call.args[0]) != "nrand" or kws != {"get_radius": "True", "rng": "rng"}:
            raise Untranslatable("randcap: recursive call " + ast.unparse(call))
        cdec = float(ast.literal_eval(call.args[2]))
        if cdec >= facts["pole_hi"] or cdec <= facts["pole_lo"]:
            raise Untranslatable("randcap: recursive call is itself polar")
        return "%s %s %s u upsi" % (tr.e(call.args[1]), tr.e(call.args[2]), tr.e(call.args[3]))

    def conv_rot(tr, call):
        if len(call.args) != 5 or call.keywords:
            raise Untranslatable("rotate call")
        return " ".join(tr.e(a) for a in call.args)
    t = Tr([], calls={"randcap": ("gen_randcap_unrot", 3, conv_rec), "rotate": ("gen_rotate", 2, conv_rot)})
    lets = t.body(br.body)
    defs.append("Definition gen_randcap_rot (ra dec rad u upsi : R) : R * R * R :=\n%s\n  (rand_ra, rand_dec, rand_r)." % lets)
    lemmas.append(("forall ra dec rad u upsi, gen_randcap_rot ra dec rad u upsi = randcap_rot ra dec rad u upsi", "intros; reflexivity."))
    defs.append("Definition gen_randcap (dorot : bool) (ra dec rad u upsi : R) : R * R * R :=\n"
                "  if (dorot || gen_polar dec)%bool then gen_randcap_rot ra dec rad u upsi else gen_randcap_unrot ra dec rad u upsi.")
    lemmas.append(("forall dorot ra dec rad u upsi, gen_randcap dorot ra dec rad u upsi = randcap_R dorot ra dec rad u upsi",
                   "intros; reflexivity."))
    # ------------------------------------------------------------------ _thetaphi2xyz, eq2xyz (defaults units='deg', stomp=False)
    f = _func(tree, "_thetaphi2xyz")
    if [a.arg for a in f.args.args] != ["theta", "phi"]:
        raise Untranslatable("_thetaphi2xyz signature")
    b = _nodoc(f)
    t = Tr([])
    lets = t.body(b[:-1])
    defs.append("Definition gen_thetaphi2xyz (theta phi : R) : vec3 :=\n%s\n  %s." % (lets, _ret(b[-1], 3)))
    lemmas.append(("forall theta phi, gen_thetaphi2xyz theta phi = thetaphi2xyz theta phi", "intros; reflexivity."))
    f = _func(tree, "eq2xyz")
    if [a.arg for a in f.args.args] != ["ra", "dec", "dtype", "units", "stomp"] \
            or [ast.unparse(d) for d in f.args.defaults] != ["'f8'", "'deg'", "False"]:
        raise Untranslatable("eq2xyz signature / defaults")
    b = _nodoc(f)
    stm = []
    for st in b[:-1]:
        if isinstance(st, ast.If) and ast.unparse(st.test) == "units == 'deg'" and not st.orelse:
            stm += st.body                                   # the default units are degrees: the branch is taken
        elif isinstance(st, ast.If) and ast.unparse(st.test) == "stomp" and not st.orelse:
            continue                                         # stomp defaults to False: not taken
        else:
            stm.append(st)
    if ast.unparse(b[-1]) != "return _thetaphi2xyz(theta, phi)":
        raise Untranslatable("eq2xyz: " + ast.unparse(b[-1]))
    t = Tr([])
    lets = t.body(stm)
    defs.append("Definition gen_eq2xyz (ra dec : R) : vec3 :=\n%s\n  gen_thetaphi2xyz theta phi." % lets)
    lemmas.append(("forall ra dec, gen_eq2xyz ra dec = eq2xyz ra dec", "intros; reflexivity."))
    # randsphere(system='xyz'): the branch matched above is  x, y, z = eq2xyz(ra, dec); return x, y, z
    defs.append("Definition gen_randsphere_xyz (ra0 ra1 dec0 dec1 u1 u2 : R) : vec3 :=\n"
                "  let '(ra, dec) := gen_randsphere ra0 ra1 dec0 dec1 u1 u2 in gen_eq2xyz ra dec.")
    lemmas.append(("forall ra0 ra1 dec0 dec1 u1 u2, gen_randsphere_xyz ra0 ra1 dec0 dec1 u1 u2 = randsphere_xyz_R ra0 ra1 dec0 dec1 u1 u2",
                   "intros; reflexivity."))

    # ------------------------------------------------------------------ atbound: the two while loops, on fuel
    f = _func(tree, "atbound")
    if [a.arg for a in f.args.args] != ["longitude", "minval", "maxval"]:
        raise Untranslatable("atbound signature")
    b = _nodoc(f)
    if len(b) != 5 or ast.unparse(b[4]) != "return":
        raise Untranslatable("atbound: structure")
    loops = []
    for k, (bound, val) in enumerate((("minval", "0"), ("maxval", "360"))):      # call site: atbound(x, 0.0, 360.0)
        pre, wh = b[2 * k], b[2 * k + 1]
        ok = (isinstance(pre, ast.Assign) and ast.unparse(pre.targets[0]) == "(w,)" and isinstance(pre.value, ast.Call)
              and ast.unparse(pre.value.func) == "np.where" and len(pre.value.args) == 1 and isinstance(pre.value.args[0], ast.Compare)
              and isinstance(wh, ast.While) and ast.unparse(wh.test) == "w.size > 0" and not wh.orelse and len(wh.body) == 2
              and ast.unparse(wh.body[1]) == ast.unparse(pre) and isinstance(wh.body[0], ast.AugAssign)
              and ast.unparse(wh.body[0].target) == "longitude[w]" and type(wh.body[0].op) in (ast.Add, ast.Sub))
        if not ok:
            raise Untranslatable("atbound: loop %d" % k)
        cmp_ = pre.value.args[0]
        if ast.unparse(cmp_.left) != "longitude" or len(cmp_.ops) != 1 or ast.unparse(cmp_.comparators[0]) != bound:
            raise Untranslatable("atbound: loop condition " + ast.unparse(cmp_))
        if isinstance(cmp_.ops[0], ast.Lt):
            cond = "Rlt_dec lon %s" % val
        elif isinstance(cmp_.ops[0], ast.Gt):
            cond = "Rlt_dec %s lon" % val
        else:
            raise Untranslatable("atbound: comparison " + ast.unparse(cmp_))
        step = "(lon %s %s)" % ("+" if isinstance(wh.body[0].op, ast.Add) else "-", _lit(ast.literal_eval(wh.body[0].value)))
        loops.append("Fixpoint gen_atbound_loop%d (fuel : nat) (lon : R) : option R :=\n  if %s then match fuel with O => None | S f => "
                     "gen_atbound_loop%d f %s end else Some lon." % (k, cond, k, step))
    defs += loops
    ind = "induction fuel as [|f IH]; intro lon; cbn; destruct (Rlt_dec _ _); try reflexivity; apply IH."
    lemmas.append(("forall fuel lon, gen_atbound_loop0 fuel lon = up_loop fuel lon", ind))
    lemmas.append(("forall fuel lon, gen_atbound_loop1 fuel lon = down_loop fuel lon", ind))

    # ------------------------------------------------------------------ _check_range: which ranges are accepted
    cmpnode = cr.body[0].orelse[1].test                       # rng[0] < allowed[0] or rng[1] > allowed[1]   (text matched above)
    parts = []
    for v_ in cmpnode.values:
        l, op, r_ = ast.unparse(v_.left), v_.ops[0], ast.unparse(v_.comparators[0])
        nm = {"rng[0]": "r0", "rng[1]": "r1", "allowed[0]": "a0", "allowed[1]": "a1"}
        if l not in nm or r_ not in nm or type(op) not in (ast.Lt, ast.Gt):
            raise Untranslatable("_check_range comparison")
        parts.append("%s %s %s" % (nm[l], "<" if isinstance(op, ast.Lt) else ">", nm[r_]))
    defs.append("Definition gen_range_rejected (r0 r1 a0 a1 : R) : Prop := %s." % " \\/ ".join(parts))
    lemmas.append(("forall ra0 ra1 dec0 dec1, valid_box ra0 ra1 dec0 dec1 <-> "
                   "(~ gen_range_rejected ra0 ra1 %s %s /\\ ~ gen_range_rejected dec0 dec1 %s %s /\\ ra0 <= ra1 /\\ dec0 <= dec1)"
                   % (allowed["ra_range"][0], allowed["ra_range"][1], allowed["dec_range"][0], allowed["dec_range"][1]),
                   "intros; unfold valid_box, gen_range_rejected; split; intro H; repeat split; try lra; "
                   "destruct H as [H1 [H2 [H3 H4]]]; lra."))
    # constants of the module the chains refer to
    mod = {ast.unparse(n.targets[0]): ast.unparse(n.value) for n in tree.body if isinstance(n, ast.Assign) and len(n.targets) == 1}
    if mod.get("PI") != "math.pi":
        raise Untranslatable("coords.PI is no longer math.pi")
    return "\n\n".join(defs) + "\n", lemmas, facts


# ======================================================================================
# discrete / rational side: stat.interplin is translated; the few numpy-level statements of
# Generator (cumulative table), _genrand_accum, CholeskySampler.sample, cholesky_sample and
# random_indices are PINNED: their `ast.unparse` text must be the text the hand model ModelQ.v was
# written from (listed here with the model definition it corresponds to).  Any edit breaks the tie.
# ======================================================================================

CMP = {ast.GtE: lambda a, b: "(%s <=? %s)" % (b, a), ast.Lt: lambda a, b: "(%s <? %s)" % (a, b),
       ast.LtE: lambda a, b: "(%s <=? %s)" % (a, b), ast.Gt: lambda a, b: "(%s <? %s)" % (b, a)}


def _zi(n):
    """integer index expression of interplin -> Z term"""
    if isinstance(n, ast.Name) and n.id in ("xm", "xmp1"):
        return n.id
    if isinstance(n, ast.Constant) and isinstance(n.value, int) and not isinstance(n.value, bool):
        return "%d" % n.value if n.value >= 0 else "(%d)" % n.value
    if isinstance(n, ast.Attribute) and ast.unparse(n) == "x.size":
        return "n"
    if isinstance(n, ast.Call) and ast.unparse(n) == "x.searchsorted(u)":
        return "count_lt x u"            # number of grid values strictly below u (ModelQ.count_lt)
    if isinstance(n, ast.BinOp) and type(n.op) in (ast.Add, ast.Sub):
        return "(%s %s %s)" % (_zi(n.left), "+" if isinstance(n.op, ast.Add) else "-", _zi(n.right))
    raise Untranslatable("interplin index expression " + ast.unparse(n))


def _zi_top(n):
    t = _zi(n)
    return t[1:-1] if t.startswith("(") and t.endswith(")") and isinstance(n, ast.BinOp) else t


def _qe(n, subs):
    if isinstance(n, ast.Name) and n.id == "u":
        return "u"
    if isinstance(n, ast.Subscript) and isinstance(n.value, ast.Name) and n.value.id in ("x", "v") \
            and isinstance(n.slice, ast.Name) and n.slice.id in ("xm", "xmp1"):
        subs.add((n.value.id, n.slice.id))
        return "qnth %s %s" % (n.value.id, n.slice.id)
    if isinstance(n, ast.BinOp) and type(n.op) in OPS:
        l, r = _qe(n.left, subs), _qe(n.right, subs)
        l = "(%s)" % l if isinstance(n.left, ast.BinOp) and isinstance(n.op, (ast.Mult, ast.Div)) and isinstance(n.left.op, (ast.Add, ast.Sub)) else l
        r = "(%s)" % r if isinstance(n.right, ast.BinOp) else r
        return "%s %s %s" % (l, OPS[type(n.op)], r)
    raise Untranslatable("interplin value expression " + ast.unparse(n))


def translate_interplin(tree):
    f = _func(tree, "interplin")
    if [a.arg for a in f.args.args] != ["vin", "xin", "uin"]:
        raise Untranslatable("interplin signature")
    b = _nodoc(f)
    if [ast.unparse(s) for s in b[:3]] != ["v = np.atleast_1d(vin)", "x = np.atleast_1d(xin)", "u = np.atleast_1d(uin)"]:
        raise Untranslatable("interplin: argument promotion changed")
    lets = ["  let n := Z.of_nat (length x) in"]
    i = 3
    rest = b[3:]
    k = 0
    while k < len(rest):
        s = rest[k]
        if isinstance(s, ast.Assign) and len(s.targets) == 1 and isinstance(s.targets[0], ast.Name) and s.targets[0].id in ("xm", "xmp1"):
            lets.append("  let %s := (%s)%%Z in" % (s.targets[0].id, _zi_top(s.value)))
            k += 1
            continue
        # (w,) = np.where(COND) ; if w.size > 0: xm[w] = VAL      ==>  xm := if COND then VAL else xm
        if (isinstance(s, ast.Assign) and ast.unparse(s.targets[0]) == "(w,)" and isinstance(s.value, ast.Call)
                and ast.unparse(s.value.func) == "np.where" and len(s.value.args) == 1 and isinstance(s.value.args[0], ast.Compare)
                and k + 1 < len(rest)):
            c = s.value.args[0]
            nx = rest[k + 1]
            if (len(c.ops) == 1 and type(c.ops[0]) in CMP and isinstance(nx, ast.If) and ast.unparse(nx.test) == "w.size > 0"
                    and not nx.orelse and len(nx.body) == 1 and isinstance(nx.body[0], ast.Assign)
                    and ast.unparse(nx.body[0].targets[0]) == "xm[w]" and ast.unparse(c.left) == "xm"):
                cond = CMP[type(c.ops[0])](_zi_top(c.left), _zi_top(c.comparators[0]))
                lets.append("  let xm := if %s%%Z then (%s)%%Z else xm in" % (cond, _zi_top(nx.body[0].value)))
                k += 2
                continue
        break
    if k != len(rest) - 1 or not isinstance(rest[k], ast.Return):
        raise Untranslatable("interplin: " + ast.unparse(rest[k]))
    subs = set()
    val = _qe(rest[k].value, subs)
    top = sorted(a for a, ix in subs if ix == "xmp1")
    if top != ["v", "x"] or not {("x", "xm"), ("v", "xm")} <= subs:
        raise Untranslatable("interplin: subscripts " + repr(sorted(subs)))
    # an index past the end of x or v raises IndexError (xm >= 0 after the clamps, so only xmp1 can)
    body = ("%s\n  if ((n <=? xmp1) || (Z.of_nat (length v) <=? xmp1))%%Z then Err EIndex\n  else Ok (Qred (%s))."
            % ("\n".join(lets), val))
    return ("Definition gen_interplin (v x : list Q) (u : Q) : result Q :=\n" + body,
            ("forall v x u, gen_interplin v x u = interplin v x u", "intros; reflexivity."))


PINS = {}      # round 6: nothing is pinned by text any more; every anchored statement is translated (fail closed)


def check_pins(repo):
    trees = {}
    bad = []
    for (path, cls, fn), want in PINS.items():
        if path not in trees:
            trees[path] = ast.parse(open(os.path.join(repo, path)).read())
        scope = trees[path].body
        if cls is not None:
            scope = [n for n in scope if isinstance(n, ast.ClassDef) and n.name == cls]
            scope = scope[0].body if scope else []
        f = [n for n in scope if isinstance(n, ast.FunctionDef) and n.name == fn]
        got = "\n".join(ast.unparse(s) for s in _nodoc(f[0])) if f else None
        if got != want:
            bad.append("%s:%s%s" % (path, cls + "." if cls else "", fn))
    return bad


# ======================================================================================
# random.py, translated (proof-deepening round): the cumulative table (Generator.initialize_points and
# initialize_func) and the Cholesky sampler (cholesky_sample and CholeskySampler.sample) are read statement
# by statement and printed as Gallina over the list / matrix vocabulary of ModelQ.v; coqc proves
# gen_tables_src = gen_tables and chol_sample_src = chol_sample by reflexivity.
# Array vocabulary:  A[-1] -> qlast A;  A / s -> map (fun p => Qred (p / s)) A;  A[1:] -> tl A;
#   scipy.integrate.cumulative_trapezoid(y, x) -> cumtrapz y x;  self.pofx(self.xinput) -> the tabulated function
#   values (the table `pofx` of the model);  self.pofx(self.xinput[-1]) -> qlast pofx;
#   dist(npar * n).reshape(npar, n) -> reshape npar n flat;  numpy.dot(M, r) -> matmul M r n;
#   for i in range(npar): V[i, :] += m[i] -> add_means m V;  V.T -> transpose V n
# ======================================================================================

def _method(tree, cls, fn):
    scope = tree.body
    if cls is not None:
        scope = [n for n in scope if isinstance(n, ast.ClassDef) and n.name == cls]
        scope = scope[0].body if scope else []
    f = [n for n in scope if isinstance(n, ast.FunctionDef) and n.name == fn]
    if not f:
        raise Untranslatable("%s.%s not found" % (cls, fn))
    return f[0]


TBL_NAMES = {"self.pofx": "pofx", "self.xinput": "x", "pcum": "pcum", "self.norm": "norm", "pofxvals": "pofx",
             "self.pcum": "pcumn", "self.xvals": "xvals"}


def _tbl_e(n):
    u = ast.unparse(n)
    if u in ("self.pofx(self.xinput)",):
        return "pofx"
    if u == "self.pofx(self.xinput[-1])":
        return "(qlast pofx)"
    if u in TBL_NAMES:
        return TBL_NAMES[u]
    if isinstance(n, ast.Subscript):
        sl = ast.unparse(n.slice)
        if sl == "-1":
            return "(qlast %s)" % _tbl_e(n.value)
        if sl == "1:":
            return "(tl %s)" % _tbl_e(n.value)
    if isinstance(n, ast.BinOp) and isinstance(n.op, ast.Div):
        return "(map (fun p => Qred (p / %s)) %s)" % (_tbl_e(n.right), _tbl_e(n.left))
    if isinstance(n, ast.Call) and ast.unparse(n.func) == "scipy.integrate.cumulative_trapezoid" and len(n.args) == 2 and not n.keywords:
        return "(cumtrapz %s %s)" % (_tbl_e(n.args[0]), _tbl_e(n.args[1]))
    raise Untranslatable("table expression " + u)


def _tbl_branch(stmts):
    lets, seen = [], set()
    for st in stmts:
        u = ast.unparse(st)
        if u == "import scipy.integrate":
            continue
        if isinstance(st, ast.Assign) and len(st.targets) == 1:
            t = ast.unparse(st.targets[0])
            if t == "pofxvals" and ast.unparse(st.value) == "self.pofx(self.xinput)":
                continue                                      # the tabulated function values ARE the model's pofx
            if t in TBL_NAMES:
                lets.append("let %s := %s in" % (TBL_NAMES[t], _tbl_e(st.value)))
                seen.add(TBL_NAMES[t])
                continue
        raise Untranslatable("table statement " + u)
    if not {"xvals", "pcumn"} <= seen:
        raise Untranslatable("table branch does not set xvals and pcum")
    return " ".join(lets) + " (xvals, pcumn)"


def translate_tables(tree):
    out = []
    for fn in ("initialize_points", "initialize_func"):
        b = _nodoc(_method(tree, "Generator", fn))
        if len(b) != 1 or not isinstance(b[0], ast.If) or ast.unparse(b[0].test) != "self.method == 'accum'" or b[0].orelse:
            raise Untranslatable("Generator.%s: outer structure" % fn)
        inner = b[0].body
        if len(inner) != 1 or not isinstance(inner[0], ast.If) or ast.unparse(inner[0].test) != "self.cumulative" or not inner[0].orelse:
            raise Untranslatable("Generator.%s: cumulative branch structure" % fn)
        name = "gen_tables_src_" + ("points" if fn == "initialize_points" else "func")
        d = ("Definition %s (cumulative : bool) (pofx x : list Q) : list Q * list Q :=\n  if cumulative then %s\n  else %s."
             % (name, _tbl_branch(inner[0].body), _tbl_branch(inner[0].orelse)))
        out.append((d, ("forall c pofx x, %s c pofx x = gen_tables c pofx x" % name, "intros; reflexivity.")))
    return out


def _chol_body(stmts, mname, meanname, guard_mean):
    """statements of cholesky_sample / CholeskySampler.sample -> let chain ending in the returned matrix"""
    lets = []
    ret = None
    for st in stmts:
        u = ast.unparse(st)
        if u in ("if dist is None:\n    dist = numpy.random.randn",
                 "if n is None:\n    n = 1\n    is_scalar = True\nelse:\n    is_scalar = False",
                 "if means is not None:\n    nm = len(means)\n    if nm != cov.shape[0]:\n        raise ValueError('expected %d mean values, got %d' % (npar, nm))",
                 "mean = self.mean"):
            continue
        if u in ("npar = cov.shape[0]", "npar = self.npar"):
            lets.append("let npar := length M in")            # cov.shape[0] = npar = size of the factor (oracle contract)
        elif u == "M = numpy.linalg.cholesky(cov)":
            continue                                          # the oracle: parameter M of the model
        elif u in ("r = dist(npar * n).reshape(npar, n)", "r = self.dist(npar * n).reshape(npar, n)"):
            lets.append("let r := reshape npar n flat in")
        elif u == "V = numpy.dot(%s, r)" % mname:
            lets.append("let V := matmul M r n in")
        elif u == "for i in range(npar):\n    V[i, :] += %s[i]" % meanname and not guard_mean:
            lets.append("let V := match means with Some m => add_means m V | None => V end in")
        elif u == "if means is not None:\n    for i in range(npar):\n        V[i, :] += means[i]" and guard_mean:
            lets.append("let V := match means with Some m => add_means m V | None => V end in")
        elif u == "return V.T":
            ret = "transpose V n"
        elif u == "samples = V.T":
            lets.append("let samples := transpose V n in")
        elif u == "if is_scalar:\n    return samples[0, :]\nelse:\n    return samples":
            ret = "samples"                                   # the scalar form is row 0 of the same matrix
        else:
            raise Untranslatable("Cholesky sampler statement " + u)
    if ret is None or len(lets) < 4:
        raise Untranslatable("Cholesky sampler: incomplete body")
    return "\n  ".join(lets) + "\n  " + ret


def translate_accum_and_indices(tree):
    out = []
    # Generator._genrand_accum
    b = _nodoc(_method(tree, "Generator", "_genrand_accum"))
    u = [ast.unparse(st) for st in b]
    if len(u) != 3 or u[0] != "urand = self.rng.uniform(size=numrand)" or u[2] != "return rand":
        raise Untranslatable("_genrand_accum: " + repr(u))
    st = b[1]
    ok = (isinstance(st, ast.Assign) and ast.unparse(st.targets[0]) == "rand" and isinstance(st.value, ast.Call)
          and ast.unparse(st.value.func) == "stat.interplin" and not st.value.keywords
          and [ast.unparse(a) for a in st.value.args] == ["self.xvals", "self.pcum", "urand"])
    if not ok:
        raise Untranslatable("_genrand_accum: " + u[1])
    # uniform(size=n): the n deviates `us`; interplin is vectorised over its third argument: mapM over the deviates
    d = ("Definition genrand_accum_src (xvals pcum us : list Q) : result (list Q) :=\n  let urand := us in\n"
         "  let rand := mapM (interplin xvals pcum) urand in\n  rand.")
    out.append((d, ("forall xvals pcum us, genrand_accum_src xvals pcum us = genrand_accum xvals pcum us", "intros; reflexivity.")))
    # random_indices
    f = _method(tree, None, "random_indices")
    if [a.arg for a in f.args.args] != ["imax", "nrand", "unique", "rng", "seed"] \
            or [ast.unparse(x) for x in f.args.defaults] != ["True", "None", "None"]:
        raise Untranslatable("random_indices signature / defaults")
    b = _nodoc(f)
    if len(b) != 3 or ast.unparse(b[0]) != "if rng is None:\n    rng = numpy.random.default_rng(seed)":
        raise Untranslatable("random_indices: structure")
    br = b[1]
    ok = (isinstance(br, ast.If) and len(br.body) == 1 and len(br.orelse) == 1
          and isinstance(br.body[0], ast.Assign) and ast.unparse(br.body[0].targets[0]) == "replace"
          and isinstance(br.orelse[0], ast.Assign) and ast.unparse(br.orelse[0].targets[0]) == "replace"
          and ast.unparse(br.body[0].value) in ("True", "False") and ast.unparse(br.orelse[0].value) in ("True", "False"))
    if not ok:
        raise Untranslatable("random_indices: replace branch")
    tst = ast.unparse(br.test)
    if tst == "not unique":
        cond = "negb unique"
    elif tst == "unique":
        cond = "unique"
    else:
        raise Untranslatable("random_indices: test " + tst)
    low = lambda n_: ast.unparse(n_).lower()      # noqa
    if ast.unparse(b[2]) != "return rng.choice(imax, size=nrand, replace=replace)":
        raise Untranslatable("random_indices: " + ast.unparse(b[2]))
    d = ("Definition ri_accepts_src (imax nrand : Z) (unique : bool) : bool :=\n  let replace := if %s then %s else %s in\n"
         "  choice_accepts imax nrand replace." % (cond, low(br.body[0].value), low(br.orelse[0].value)))
    out.append((d, ("forall imax nrand unique, ri_accepts_src imax nrand unique = ri_accepts imax nrand unique",
                    "intros imax nrand unique; destruct unique; reflexivity.")))
    return out


def translate_chol(tree):
    out = []
    for name, cls, fn, mname, meanname, guard in (("chol_sample_src_func", None, "cholesky_sample", "M", "means", True),
                                                  ("chol_sample_src_class", "CholeskySampler", "sample", "self.M", "mean", False)):
        body = _chol_body(_nodoc(_method(tree, cls, fn)), mname, meanname, guard)
        d = ("Definition %s (means : option (list Q)) (M : list (list Q)) (n : nat) (flat : list Q) : list (list Q) :=\n  %s."
             % (name, body))
        out.append((d, ("forall means M n flat, %s means M n flat = chol_sample means M n flat" % name, "intros; reflexivity.")))
    return out


PRE_QT = ("From Coq Require Import QArith.\nFrom EsVerif.Common Require Import Base.\nFrom EsVerif.C19 Require Import ModelQ.\n"
          "Local Open Scope Q_scope.\n")


def translate_q(repo):
    tree = ast.parse(open(os.path.join(repo, "esutil", "stat", "util.py")).read())
    d, l = translate_interplin(tree)
    defs, lems = [d], [l]
    rtree = ast.parse(open(os.path.join(repo, "esutil", "random.py")).read())
    for dd, ll in translate_tables(rtree) + translate_chol(rtree) + translate_accum_and_indices(rtree):
        defs.append(dd)
        lems.append(ll)
    return "\n\n".join(defs) + "\n", lems


PRE = ("From Coq Require Import Reals Lra.\nFrom EsVerif.C19 Require Import Model ModelLoops Spec.\nOpen Scope R_scope.\n")


if __name__ == "__main__":
    import sys
    d, l, fa = translate(sys.argv[1])
    print(PRE + d)
    for k, (st, pr) in enumerate(l):
        print("Lemma tie_%d : %s.\nProof. %s Qed." % (k, st, pr))
    print("(* ---- Q side ---- *)")
    d, l = translate_q(sys.argv[1])
    print(PRE_QT + d)
    for k, (st, pr) in enumerate(l):
        print("Lemma tieq_%d : %s.\nProof. %s Qed." % (k, st, pr))
    print("(* pins broken: %r *)" % check_pins(sys.argv[1]))

"""C05 — histogram counts and reverse indices partition the binned data (DESIGN.md section 7, C05).

One case = one call of esutil.stat.histogram / Binner.dohist(rev=True) on the same input with the
compiled engine (esutil.stat.util.have_chist = True) and with the pure-python engine (False).
Floats travel as hex literals; the Coq side recomputes every bin number bit-exactly (PrimFloat).
"""
import json
import math
import warnings

from .. import core
from ..core import cz, clist, cfloat
from ..runner import Entry, differential
from . import c05_translate

PRE = ("From Coq Require Import PrimFloat.\nFrom EsVerif.Common Require Import Base.\n"
       "From EsVerif.C05 Require Import Model Spec Exec.\n")

MAXOUT = 400000        # larger outputs are not converted to lists (reported as an error outcome)
CASE_TIMEOUT = 20      # seconds per call of the real code (a mutated tree may loop over 1e8 bins in python)
MAXBIN = 3000          # generated cases are kept below this many bins (lists in Coq)


# ----------------------------------------------------------------------------- values
def _num(v):
    """JSON value -> python number: ints stay ints, floats are given as hex strings"""
    return float.fromhex(v) if isinstance(v, str) else v


def _f(v):
    return float(_num(v))


def _enc(v):
    """python number -> JSON value"""
    if isinstance(v, float):
        return v.hex()
    return int(v)


def copt_f(v):
    return "None" if v is None else "(Some %s)" % cfloat(_f(v))


def _kw(c):
    """the binsize= / nbin= keywords as passed: binsize is "omit" (keyword not passed), None or a
    number; nbin is None or an int.  Without a "kw" entry the case passes exactly the one named by mode."""
    if c.get("kw") is not None:
        return c["kw"]["binsize"], c["kw"]["nbin"]
    if c["mode"] == "nbin":
        return "omit", c["spec"]
    return c["spec"], None


def _api(c):
    return "ApiBinner" if c["api"].startswith("binner") else "ApiHistogram"


def _eff(c):
    """(mode, spec) in force according to the documented keyword handling, None = neither given"""
    bs, nb = _kw(c)
    if _api(c) == "ApiHistogram":
        if nb is not None:
            return "nbin", nb
        if bs == "omit":
            return "binsize", 1.0
        return None if bs is None else ("binsize", bs)
    if bs not in ("omit", None):
        return "binsize", bs
    return None if nb is None else ("nbin", nb)


def ckw(c):
    bs, nb = _kw(c)
    k = "KwOmit" if bs == "omit" else "KwNone" if bs is None else "(KwVal %s)" % cfloat(_f(bs))
    return "%s %s" % (k, "None" if nb is None else "(Some %s)" % cz(nb))


def carrays(o):
    if o[0] == "ok":
        return "(Ok (%s, %s))" % (clist(o[1]["hist"]), clist(o[1]["rev"]))
    return "(Err %s)" % o[1]


def cobs(o):
    if o[0] != "ok" or o[1].get("obs") is None:
        return "None"
    b = o[1]["obs"]
    return "(Some (mkObs %s %s %s %s %s %s))" % (
        cfloat(float.fromhex(b["binsize"])), cz(b["nbin"]), cfloat(float.fromhex(b["min"])),
        cfloat(float.fromhex(b["max"])), clist(b["sort"]), clist(b["wsort"]))


# ----------------------------------------------------------------------------- python-side expectations
def expected(c):
    """what the property makes of the case, computed independently in python (used only for the
    non-triviality rule, the family statistics and to keep nbin small): returns None when the
    input is outside the quantifier, else dict(nbin, bins of the selected data, excluded count)."""
    x = [_f(v) for v in c["data"]]
    if not x:
        return None
    lo = None if c["min"] is None else _f(c["min"])
    hi = None if c["max"] is None else _f(c["max"])
    dmin = min(x) if lo is None else lo
    dmax = max(x) if hi is None else hi
    sel = [v for v in x if (lo is None or v >= lo) and (hi is None or v <= hi)]
    if not sel:
        return None
    eff = _eff(c)
    if eff is None:
        return None
    if eff[0] == "nbin":
        nbin = eff[1]
        if nbin < 1:
            return None
        bs = (dmax - dmin) / nbin
    else:
        bs = _f(eff[1])
        if not bs > 0:
            return None
        q = (dmax - dmin) / bs
        if not (q < 1e15):
            return None
        nbin = int(q) + 1
    bins = []
    edge = 0
    for v in sel:
        if bs == 0:
            bins.append(None)
            continue
        q = (v - dmin) / bs
        if not (abs(q) < 1e15):
            bins.append(None)
            continue
        b = math.floor(q)
        if q == b and b > 0:
            edge += 1
        bins.append(b if 0 <= b < nbin else None)
    return {"nbin": nbin, "bins": bins, "excluded": (len(x) - len(sel)) + sum(1 for b in bins if b is None),
            "edge": edge, "ties": len(sel) - len(set(sel))}


# ----------------------------------------------------------------------------- generators
def _data(r, kind, n):
    if kind == "ints":
        k = r.choice([3, 10, 100, 10**6])
        return [r.randrange(-k, k + 1) for _ in range(n)], r.choice(["i8", "i4", "i2", "u1" if k <= 100 else "i8"])
    if kind == "ties":
        k = r.choice([2, 3, 5])
        vals = [r.choice([r.randrange(-5, 6), round(r.uniform(-3, 3), 1)]) for _ in range(k)]
        return [r.choice(vals) for _ in range(n)], "f8"
    if kind == "constant":
        v = r.choice([0, 3, -2.5, 1e-3, 7.25])
        return [v] * n, "f8"
    if kind == "floats":
        s = r.choice([1.0, 1e-3, 1e3, 1e8])
        return [r.uniform(-s, s) for _ in range(n)], r.choice(["f8", "f8", "f4"])
    if kind == "gauss":
        return [r.gauss(0, 1) for _ in range(n)], "f8"
    if kind == "decimal":          # values like 0.1*k: exactly on the decimal edges, inexact in binary
        return [round(0.1 * r.randrange(0, 40), 1) for _ in range(n)], "f8"
    if kind in ("descending", "ascending"):      # already sorted input, with ties
        k = r.choice([2, 3, 10, 50])
        d = sorted((r.randrange(0, k + 1) for _ in range(n)), reverse=(kind == "descending"))
        if r.random() < 0.4:
            d = [v * 0.5 for v in d]
        return d, r.choice(["i8", "f8", "i4", "u1"])
    raise ValueError(kind)


def _u1_ok(d, dt):
    return dt != "u1" or all(0 <= v <= 255 for v in d)


def _case(r, fam, data, dtype, mode, spec, lo, hi, api=None):
    if dtype == "u1" and not all(isinstance(v, int) and 0 <= v <= 255 for v in data):
        dtype = "i8"
    if dtype in ("i2",) and not all(isinstance(v, int) and abs(v) < 32000 for v in data):
        dtype = "i8"
    if dtype.startswith(("i", "u")) and not all(isinstance(v, int) for v in data):
        dtype = "f8"
    if dtype == "f4":
        import numpy as np
        data = [float(np.float32(v)) for v in data]
    return {"family": fam, "data": [_enc(v) for v in data], "dtype": dtype, "mode": mode,
            "spec": _enc(spec) if mode == "binsize" else int(spec),
            "min": None if lo is None else _enc(lo), "max": None if hi is None else _enc(hi),
            "api": api or r.choice(["tuple", "more", "binner", "binner"]),
            "container": r.choice(["ndarray", "list"])}


INT_RANGES = {"i1": (-128, 127), "u1": (0, 255), "i2": (-32768, 32767), "u2": (0, 65535),
              "i4": (-2**31, 2**31 - 1), "u4": (0, 2**32 - 1), "i8": (-2**53, 2**53), "u8": (0, 2**53), "bool": (0, 1)}
APIS = ["tuple", "more", "binner", "weights", "norev", "binner_y", "binner_w", "binner_twice", "binner_stats", "binner_yw"]


def _fit_dtype(vals, dtype):
    """dtype if every value (python number) is exactly representable in it, else a wider one"""
    import numpy as np
    base = dtype.lstrip("<>")
    allint = all(isinstance(v, int) for v in vals)
    if base in INT_RANGES:
        lo, hi = INT_RANGES[base]
        if allint and all(lo <= v <= hi for v in vals):
            return dtype
        return "i8" if allint and all(abs(v) <= 2**53 for v in vals) else "f8"
    if base in ("f4", "f2"):
        t = np.float32 if base == "f4" else np.float16
        with np.errstate(all="ignore"):
            ok = all(abs(float(v)) < 6e4 and float(t(v)) == float(v) for v in vals)
        return dtype if ok else dtype.replace(base, "f8")
    return dtype


def _forms(r, c, force=None):
    """input forms beyond plain list / contiguous native ndarray (all inside the statement: the data
    denote the same exact reals): container, dtype incl. non-native byte order, views, numpy-scalar
    keywords, defaults passed explicitly, further entry-point variants"""
    vals = [_num(v) for v in c["data"]]
    f = dict(force or {})
    dt = f.get("dtype") or r.choice(["i1", "u1", "i2", "u2", "i4", "u4", "i8", "u8", "bool", "f4", "f8", "f8",
                                      ">f8", ">f4", ">i4", ">i2", ">u2", ">i8", "f2"])
    c["dtype"] = _fit_dtype(vals, dt)
    cont = f.get("container") or r.choice(["ndarray", "ndarray", "list", "tuple"] +
                                            (["scalar", "zerod", "scalar", "zerod"] if len(vals) == 1 else []))
    c["container"] = cont
    if cont == "ndarray":
        c["view"] = f["view"] if "view" in f else r.choice([None, "strided", "reversed", "readonly", "strided"])
    c["limform"] = f["limform"] if "limform" in f else r.choice([None, "np", "np32"])
    c["specform"] = f["specform"] if "specform" in f else r.choice([None, "np", "np32"])
    c["explicit"] = f["explicit"] if "explicit" in f else (r.random() < 0.4)
    if not c["explicit"] and r.random() < 0.3:
        c["mergelast"] = False
    c["api"] = f.get("api") or r.choice(APIS)
    if c["api"] in ("binner_y", "binner_yw"):
        c["ypat"] = f.get("ypat") or r.choice(["asc", "desc", "mix"])
    if c["api"] in ("weights", "binner_w", "binner_yw"):
        c["wpat"] = f.get("wpat") or r.choice(["ones", "mod3"])
    c["family"] = c["family"].split("/")[0] + "+forms" + c["family"][len(c["family"].split("/")[0]):]
    return c


def _long(r, n, kind, cut=None):
    """long arrays around a power of two.  Mostly descending data keep the insertion sort of the Coq
    model linear; ties of three, a few values out of place, some data beyond the limits."""
    d = [(n - i) // 3 for i in range(n)]
    if kind == "ascending":
        d = d[::-1]
    for _ in range(r.randrange(0, 6)):
        d[r.randrange(n)] = r.randrange(0, n // 3 + 1)
    top = n // 3
    if cut is None:
        cut = r.random() < 0.5
    lo = top // 10 if cut and r.random() < 0.7 else None       # without limits all n data reach the engines
    hi = top - top // 7 if cut and (lo is None or r.random() < 0.7) else None
    mode = r.choice(["nbin", "binsize"])
    a, b = (0 if lo is None else lo), (top if hi is None else hi)
    spec = r.choice([7, 64, 129]) if mode == "nbin" else (b - a) / r.choice([10, 100, 128.0])
    c = _case(r, "long%d-%s/%s/x" % (n, kind, mode), d, r.choice(["i8", "f8", "i4"]), mode, spec, lo, hi,
              api=r.choice(["tuple", "binner"]))
    if r.random() < 0.5:
        c["container"], c["view"] = "ndarray", r.choice(["strided", "reversed", "readonly"])
    return c


def _variant(r, d):
    """other contents for the same object: same length, same first and last element, same minimum and
    maximum (what a lazily keyed cache would look at), different interior"""
    d2 = list(d)
    if len(d2) > 3:
        mid = d2[1:-1]
        r.shuffle(mid)
        d2[1:-1] = mid
    lo, hi = min(d), max(d)
    for _ in range(3):
        if len(d2) > 2:
            i = r.randrange(1, len(d2) - 1)
            if d2[i] not in (lo, hi):
                d2[i] = r.choice(d)
    if lo not in d2 or hi not in d2:
        return list(d)[::-1] if len(d) > 1 and d[0] == d[-1] else list(d)
    return d2


def _sequence(r):
    """several calls in one process on shared objects; returns one case per call, each carrying the
    earlier calls as its history (replayed before the judged call)"""
    n = r.choice([3, 4, 6, 9, 14, 30])
    kind = r.choice(["ints", "ties", "decimal", "floats", "descending", "gauss"])
    d1, dt = _data(r, kind, n)
    if r.random() < 0.5 and n > 2:
        d1[-1] = d1[0]                            # equal first and last elements
    d2 = _variant(r, d1)
    dt = _fit_dtype(d1 + d2, dt if dt != "f4" else "f8")
    cont = r.choice(["ndarray", "ndarray", "list"]) if dt == "f8" else "ndarray"
    view = r.choice([None, None, "strided"]) if cont == "ndarray" else None

    def par(d, which=None, like=None):
        which = which or r.choice(["none", "lo", "hi", "both"])
        lo, hi = (like["min_raw"], like["max_raw"]) if like else _limits(r, d, which)
        mode = r.choice(["nbin", "binsize"])
        return {"mode": mode, "spec": _spec(r, d, lo, hi, mode), "min_raw": lo, "max_raw": hi}

    def step(tag, obj, d, p, api, reuse=False):
        c = _case(r, "seq:%s/%s/x" % (tag, p["mode"]), d, dt, p["mode"], p["spec"], p["min_raw"], p["max_raw"], api=api)
        c.update(dtype=dt, container=cont, obj=obj)
        if view:
            c["view"] = view
        if reuse:
            c["reuse"] = True
        if r.random() < 0.25:
            c["flip"] = True                      # as an earlier call it runs on the other engine
        if r.random() < 0.4:
            c["scribble"] = True                  # the returned hist / rev are overwritten by the caller afterwards
        e = expected(c)
        if e is not None and e["nbin"] > MAXBIN:
            c["mode"], c["spec"] = "nbin", r.choice([1, 3, 10])
        return c
    p1 = par(d1)
    p2 = par(d1, which=r.choice(["lo", "hi", "both"]))
    p3 = par(d1, like=p2)                         # the same limits, another bin specification
    p0 = par(d1, which="none")
    hapi = lambda: r.choice(["tuple", "more", "norev", "weights"])     # noqa: E731
    bapi = lambda: r.choice(["binner", "binner", "binner_stats"])      # noqa: E731
    t = r.choice(["same-object", "binner-reuse", "binner-vs-inplace", "alternate"])
    if t == "same-object":         # histogram() again on the same array object after in-place changes
        steps = [step(t, "A", d1, p1, hapi()), step(t, "A", d2, p1, hapi()), step(t, "B", d2, p1, hapi()),
                 step(t, "A", d1, p2, hapi()), step(t, "A", d1, p1, hapi())]
    elif t == "binner-reuse":      # one Binner, other limits / bin size / bin count, then the first again
        steps = [step(t, "A", d1, p1, bapi()), step(t, "A", d1, p2, bapi(), True), step(t, "A", d1, p3, bapi(), True),
                 step(t, "A", d1, p0, bapi(), True), step(t, "A", d1, p2, bapi(), True), step(t, "A", d1, p1, bapi(), True)]
    elif t == "binner-vs-inplace":  # the Binner keeps the data it was given; a new one sees the changed array
        steps = [step(t, "A", d1, p2, bapi()), step(t, "A", d2, p2, hapi()), step(t, "A", d1, p2, bapi(), True),
                 step(t, "A", d1, p3, bapi(), True), step(t, "A", d2, p2, bapi())]
    else:                          # two objects of equal length / ends / range in turn, same parameters
        steps = [step(t, "A", d1, p2, hapi()), step(t, "B", d2, p2, hapi()), step(t, "A", d1, p2, bapi()),
                 step(t, "B", d2, p2, bapi()), step(t, "B", d2, p3, bapi(), True), step(t, "A", d1, p2, hapi())]
    # rejected calls in the middle (empty range, limits in the wrong order, nbin = 0, a negative nbin): whatever a
    # rejected call leaves behind must not influence the calls after it
    top = max(float(v) for v in d1 + d2)
    bot = min(float(v) for v in d1 + d2)

    def reject(like):
        kind = r.choice(["empty-above", "empty-below", "swapped", "nbin0", "nbin-neg"])
        p = dict(p2)
        if kind == "empty-above":
            p.update(min_raw=top + 1, max_raw=top + 2)
        elif kind == "empty-below":
            p.update(min_raw=bot - 2, max_raw=bot - 1)
        elif kind == "swapped":
            p.update(min_raw=top + 1, max_raw=bot - 1)
        elif kind == "nbin0":
            p.update(mode="nbin", spec=0)
        else:
            p.update(mode="nbin", spec=-r.choice([1, 3]))
        c = step(t, like["obj"], [_num(v) for v in like["data"]], p, like["api"], bool(like.get("reuse")))
        c["family"] = "seq:%s+rejected/%s/x" % (t, p["mode"])
        return c
    k = 1
    while k < len(steps):
        if r.random() < 0.45:
            steps.insert(k, reject(steps[k]))
            k += 1
        k += 1
    out = []
    for i, c in enumerate(steps):
        c = dict(c)
        c["history"] = [dict(h) for h in steps[:i]]
        out.append(c)
    return out


def _special(r):
    """option values at exact special points: zero, signed zero, equal bounds, a bin size equal to or far
    beyond the range, one argument exactly zero while another is not"""
    cs = []
    sets = [([0.0, -0.0, 0.0, 1.0, 2.0, -1.0], "f8"), ([0, 0, 0, 0], "i8"), ([0, 3, 3, 6, 6, 6], "i8"),
            ([-2.0, -0.0, 0.0, 2.0], "f8"), ([1.5, 1.5, 2.5, 0.5], "f8")]
    for d, dt in sets:
        xs = sorted(float(v) for v in d)
        rng = xs[-1] - xs[0]
        lims = [(0.0, None), (-0.0, None), (None, 0.0), (None, -0.0), (0.0, 0.0), (-0.0, 0.0), (0, xs[-1]), (xs[0], 0),
                (xs[1], xs[1]), (xs[-1], xs[-1]), (xs[0], xs[0]), (xs[0], xs[-1])]
        specs = [("nbin", 1), ("nbin", 2), ("binsize", rng or 1.0), ("binsize", (rng or 1.0) * 4), ("binsize", 1e300),
                 ("binsize", (rng or 1.0) / 4), ("binsize", 1)]
        for lo, hi in lims:
            if lo is not None and hi is not None and lo > hi:
                continue
            for mode, spec in specs:
                if r.random() < 0.5:
                    cs.append(_case(r, "adv:special/%s/x" % mode, d, dt, mode, spec, lo, hi))
    return cs


def _limits(r, data, which):
    """limits for the four min/max combinations; they may cut data off at either end"""
    xs = sorted(float(v) for v in data)
    a, b = xs[0], xs[-1]
    w = (b - a) or 1.0
    intlike = all(isinstance(v, int) for v in data)

    def pick(side):
        t = r.random()
        if t < 0.35 and len(xs) > 2:                         # exactly a datum -> excludes what lies beyond
            v = r.choice(xs[: len(xs) // 2 + 1] if side == "lo" else xs[len(xs) // 2:])
        elif t < 0.6:                                        # beyond the data: nothing excluded, empty end bins
            v = a - r.choice([0.5, 1, 2]) * w * r.random() if side == "lo" else b + r.choice([0.5, 1, 2]) * w * r.random()
        else:                                                # inside the range
            v = a + w * r.uniform(0, 0.45) if side == "lo" else b - w * r.uniform(0, 0.45)
        if intlike and r.random() < 0.7:
            v = int(math.floor(v)) if side == "lo" else int(math.ceil(v))
        elif r.random() < 0.5:
            v = round(v, 1)
        return v
    lo = pick("lo") if which in ("lo", "both") else None
    hi = pick("hi") if which in ("hi", "both") else None
    return lo, hi


def _spec(r, data, lo, hi, mode):
    xs = [float(v) for v in data]
    a = min(xs) if lo is None else float(lo)
    b = max(xs) if hi is None else float(hi)
    w = abs(b - a)
    if mode == "nbin":
        return r.choice([1, 1, 2, 3, 4, 5, 7, 10, r.randrange(1, 40), r.randrange(1, 200)])
    intlike = all(isinstance(v, int) for v in data)
    if w == 0:
        return r.choice([1, 0.5, 2, 1.0])
    t = r.random()
    if intlike and t < 0.5:
        bs = r.choice([1, 2, 3, 5, 10, 0.5, 0.25])
        while w / bs > 400:
            bs *= 10
        return bs
    if t < 0.75:
        return w / r.choice([1, 2, 3, 4, 5, 8, 10, 16, 50])              # the maximum lies exactly on an edge
    if t < 0.9:
        return float("%.1g" % (w / r.choice([3, 7, 20]))) or 1.0          # round decimal bin sizes: 0.1, 0.5, 20, ...
    return w * r.uniform(0.01, 1.5)


def _adversarial(r):
    """the families named in the property's quantifier, hand-made"""
    cs = []
    combos = [(None, None)]
    base = [
        ("single", [5], "i8"), ("single", [2.5], "f8"), ("single", [0], "i8"),
        ("constant", [3, 3, 3], "i8"), ("constant", [-1.5] * 5, "f8"), ("constant", [0.0, -0.0, 0.0], "f8"),
        ("ints", [0, 1, 2, 3, 4], "i8"), ("ints", [4, 3, 2, 1, 0], "i8"), ("ints", [0, 1, 2, 3, 4, 4, 4], "i8"),
        ("ints", [10, -10, 0, 5, 5, -5, 10, -10], "i4"),
        ("ties", [1, 1, 2, 2, 2, 1, 3, 3, 1], "i8"), ("ties", [0.5, 0.25, 0.5, 0.25, 0.75, 0.5], "f8"),
        ("edges", [0.0, 0.5, 1.0, 1.5, 2.0, 2.5, 3.0], "f8"),
        ("edges", [0.1 * k for k in range(11)], "f8"),
        ("edges", [0.0, 0.1, 0.2, 0.30000000000000004, 0.3, 0.7, 0.7999999999999999, 0.8, 1.0], "f8"),
        ("signed-zero", [-0.0, 0.0, 1.0, -1.0], "f8"),
        ("tiny", [5e-324, 0.0, 1e-320, 2e-308], "f8"), ("huge", [-1e300, 1e300, 0.0, 5e299], "f8"),
    ]
    for fam, d, dt in base:
        for mode, specs in (("nbin", [1, 2, 3, 10]), ("binsize", [1, 0.5, 0.1, 2])):
            for spec in specs:
                if fam in ("tiny", "huge") and mode == "binsize":
                    continue
                cs.append(_case(r, "adv:" + fam, d, dt, mode, spec, None, None))
        xs = sorted(float(v) for v in d)
        lims = [(xs[0], xs[-1]), (xs[len(xs) // 2], None), (None, xs[len(xs) // 2]), (xs[0] - 1, xs[-1] + 1),
                (xs[len(xs) // 3], xs[-1 - len(xs) // 3])]
        if fam in ("tiny", "huge"):
            lims = lims[:3]
        for lo, hi in lims:
            if lo is not None and hi is not None and lo > hi:
                continue
            if dt.startswith("i"):
                lo = None if lo is None else int(lo)
                hi = None if hi is None else int(hi)
            cs.append(_case(r, "adv:%s+limits" % fam, d, dt, "nbin", r.choice([1, 2, 4]), lo, hi))
            if fam not in ("tiny", "huge"):
                cs.append(_case(r, "adv:%s+limits" % fam, d, dt, "binsize", r.choice([1, 0.5, 0.25]), lo, hi))
    # combinations of the binsize= and nbin= keywords through the three entry points
    for d, dt in ([0, 1, 2, 3, 4], "i8"), ([0.5, 0.25, 3.0, 1.0, 1.0, 2.5], "f8"), ([2, 2, 7, 7, 7, 3], "i4"):
        for api in ("tuple", "more", "binner"):
            for bs, nb in (("omit", None), ("omit", 3), (None, None), (None, 2), (0.5, 3), (2, 1), (1, None), (0.25, 4)):
                for lo, hi in ((None, None), (1, 3)):
                    c = _case(r, "adv:options", d, dt, "nbin" if nb is not None else "binsize",
                              nb if nb is not None else (1.0 if bs in ("omit", None) else bs), lo, hi, api=api)
                    c["kw"] = {"binsize": bs if bs in ("omit", None) else _enc(bs), "nbin": nb}
                    cs.append(c)
    # input forms, systematically on three small data sets
    bases = [([3, 1, 2, 2, 0, 5, 5, 1], 1, 4), ([0.5, 0.25, 3.0, 1.0, 1.0, 2.5, 0.75], 0.5, 2.5), ([1, 0, 1, 1, 0], None, None),
             ([5, 5, 4, 4, 4, 2, 1, 1, 0], 1, None), ([7], None, None), ([2.5], 2, 3)]
    for d, lo, hi in bases:
        for mode, spec in (("nbin", 3), ("binsize", 0.5)):
            def mk(**force):
                c = _case(r, "adv:forms/%s/x" % mode, d, "f8", mode, spec, lo, hi, api="tuple")
                return _forms(r, c, force)
            for dt in ("i1", "u1", "i2", "u2", "i4", "u4", "i8", "u8", "bool", "f2", "f4", "f8", ">f8", ">f4", ">i4", ">i2", ">u2", ">i8"):
                cs.append(mk(dtype=dt, container="ndarray", view=None, api=r.choice(["tuple", "binner"])))
            for view in ("strided", "reversed", "readonly"):
                for dt in ("f8", "i4", ">f8"):
                    cs.append(mk(dtype=dt, container="ndarray", view=view, api=r.choice(["tuple", "binner", "more"])))
            for cont in ("list", "tuple") + (("scalar", "zerod") if len(d) == 1 else ()):
                for dt in ("f8", "i8"):
                    cs.append(mk(dtype=dt, container=cont))
            for api in APIS:
                for explicit in (False, True):
                    cs.append(mk(dtype="f8", container="ndarray", view=None, api=api, explicit=explicit,
                                 limform=r.choice([None, "np", "np32"]), specform=r.choice([None, "np", "np32"])))
            for wpat in ("ones", "mod3"):
                for api in ("weights", "binner_w"):
                    cs.append(mk(dtype="f8", container="list", api=api, wpat=wpat, explicit=False))
    cs += _special(r)
    # heavy ties in x with a second variable / weights that are not sorted within the ties (ties stay in original order)
    for d, dt in (([2, 1, 2, 1, 2, 1, 1, 2], "i8"), ([0.5, 0.5, 0.5, 0.5], "f8"), ([3, 3, 1, 1, 2, 2, 3, 1, 2], "i4"),
                  ([1.5, 0.5, 1.5, 2.5, 0.5, 1.5, 2.5, 2.5, 0.5, 1.5], "f8"), ([7, 7], "i8")):
        for api in ("binner_y", "binner_yw", "binner_w", "weights"):
            for ypat in ("desc", "mix"):
                for mode, spec, lo, hi in (("nbin", 2, None, None), ("binsize", 1, None, None), ("nbin", 3, 1, None)):
                    c = _case(r, "adv:ties-y/%s/x" % mode, d, dt, mode, spec, lo, hi, api=api)
                    c["ypat"] = ypat
                    c["wpat"] = "mod3" if ypat == "mix" else "ones"
                    c["container"] = r.choice(["ndarray", "list"]) if dt == "f8" else "ndarray"
                    cs.append(c)
    # max - min overflows (nbin mode: binsize = inf, data with an overflowed difference are not counted; binsize mode:
    # rejected), and an infinite bin size given by the caller
    big = float.fromhex("0x1.ep1023")
    for d in ([-big, 0.0, big], [-big, -big / 2, 1.0, big / 2, big, big], [-big, big], [0.0, big, -1e300, 1e300, -big]):
        for mode, spec in (("nbin", 1), ("nbin", 2), ("nbin", 5), ("binsize", 1e300), ("binsize", 1e307), ("binsize", float("inf"))):
            for lo, hi in ((None, None), (-big, None), (None, big / 2), (-1e300, big)):
                c = _case(r, "adv:overflow/%s/x" % mode, d, "f8", mode, spec, lo, hi)
                e = expected(c)
                if e is None or e["nbin"] <= MAXBIN:      # (a finite range of 1e308 with binsize 1e300 would be 1e8 bins)
                    cs.append(c)
    for d in ([1, 5, 2], [0.5, 0.25, 3.0, 1.0], [7]):
        for lo, hi in ((None, None), (0, None), (1, 4)):
            cs.append(_case(r, "adv:infinite-binsize/binsize/x", d, "f8", "binsize", float("inf"), lo, hi))
    # inputs the code rejects (the property makes no claim; the model must agree on the error class)
    cs.append(_case(r, "rejected", [], "f8", "nbin", 2, None, None))
    cs.append(_case(r, "rejected", [], "f8", "binsize", 1.0, 0, 1))
    cs.append(_case(r, "rejected", [1, 2, 3], "i8", "binsize", 1, 10, 20))
    cs.append(_case(r, "rejected", [1, 2, 3], "i8", "nbin", 2, 5, None))
    cs.append(_case(r, "rejected", [1, 2, 3], "i8", "nbin", 2, None, 0))
    cs.append(_case(r, "rejected", [1, 2, 3], "i8", "nbin", 0, None, None))
    cs.append(_case(r, "rejected", [1, 2, 3], "i8", "nbin", 2, 3, 1))
    return cs


def _random(ctx, count, big):
    r = ctx.rng
    cs = []
    kinds = ["ints", "ints", "ties", "constant", "floats", "floats", "gauss", "decimal", "descending", "ascending"]
    while len(cs) < count:
        kind = r.choice(kinds)
        n = r.choice([1, 2, 3, r.randrange(1, 12), r.randrange(1, 60), r.randrange(1, big)])
        d, dt = _data(r, kind, n)
        which = r.choice(["none", "lo", "hi", "both"])
        lo, hi = _limits(r, d, which)
        mode = r.choice(["nbin", "binsize"])
        c = _case(r, "%s/%s/%s" % (kind, mode, which), d, dt, mode, _spec(r, d, lo, hi, mode), lo, hi)
        if r.random() < 0.12:                   # both keywords, or the default bin size
            other = "binsize" if mode == "nbin" else "nbin"
            t = r.random()
            if t < 0.7:
                c["kw"] = {"binsize": c["spec"] if mode == "binsize" else _enc(_spec(r, d, lo, hi, "binsize")),
                           "nbin": c["spec"] if mode == "nbin" else _spec(r, d, lo, hi, "nbin")}
            else:
                c["kw"] = {"binsize": "omit", "nbin": None}
            c["family"] = "%s/%s/%s" % (kind, "options", which)
        if r.random() < 0.35:
            _forms(r, c)
        e = expected(c)
        if e is not None and e["nbin"] > MAXBIN:
            continue
        if e is None and r.random() < 0.8:      # mostly-valid stream: keep only a few rejected inputs
            continue
        cs.append(c)
    return cs


# ----------------------------------------------------------------------------- the entry
class Hist(Entry):
    name = "histogram"
    search_rounds = 2

    def __init__(self):
        self.monitors = []

    def cases(self, ctx, round=0):
        cs = []
        if round == 0:
            cs += _adversarial(ctx.rng)
        cs += _random(ctx, ctx.n(850, 6000), ctx.n(200, 400))
        if round == 0:
            cs += _random(ctx, ctx.n(4, 24), ctx.n(1000, 2000))          # a few long arrays
            for n, kind, cut in ctx.n([(4097, "descending", False), (1025, "ascending", True)],
                                      [(4095, "descending", False), (4096, "descending", False), (4097, "descending", False),
                                       (4097, "descending", True), (8193, "descending", False), (8191, "descending", True),
                                       (1023, "ascending", False), (1025, "ascending", True),
                                       (2049, "ascending", False)]):
                cs.append(_long(ctx.rng, n, kind, cut))
        for _ in range(ctx.n(45, 150) if round == 0 else ctx.n(15, 40)):
            cs += _sequence(ctx.rng)
        ctx.rng.shuffle(cs)                       # spread the expensive cases over the Coq shards
        return cs

    # --- the real code
    # --- one call of the real code; `state` carries the objects shared by the calls of a sequence
    def _materialize(self, np, c, state):
        vals = [_num(v) for v in c["data"]]
        dt, cont = c["dtype"], c["container"]
        npdt = np.dtype(bool) if dt == "bool" else np.dtype(dt)
        if cont in ("scalar", "zerod") and len(vals) != 1:
            cont = "ndarray"
        name = c.get("obj")
        old = state["objs"].get(name) if name is not None else None
        if old is not None and np.ndim(old) == 1 and len(old) == len(vals):
            # the SAME object again, its contents changed in place
            if isinstance(old, list) and cont == "list" and dt == "f8":
                old[:] = vals
                return old, cont
            if isinstance(old, np.ndarray) and old.dtype == npdt and old.flags.writeable and cont == "ndarray":
                old[...] = np.array(vals, dtype=npdt)
                return old, cont
        if cont == "scalar":
            data = vals[0] if dt == "f8" else npdt.type(vals[0])
        elif cont == "zerod":
            data = np.array(vals[0], dtype=npdt)
        elif cont in ("list", "tuple") and dt == "f8":
            data = list(vals) if cont == "list" else tuple(vals)
        else:
            data = np.array(vals, dtype=npdt)
            view = c.get("view")
            if view == "strided":
                base = np.empty(2 * data.size, dtype=npdt)
                base[::2] = data
                base[1::2] = data[::-1]
                data = base[::2]
            elif view == "reversed":
                data = data[::-1].copy()[::-1]
            elif view == "readonly":
                data.setflags(write=False)
        if name is not None:
            state["objs"][name] = data
        return data, cont

    def _kwargs(self, np, c, cont):
        api = c["api"]
        n = len(c["data"])

        def f32ok(v):
            with np.errstate(all="ignore"):
                return float(np.float32(v)) == float(v)

        def npnum(v, form):
            if form == "np32" and f32ok(v):
                return np.float32(v)              # exactly representable: the same real number
            return np.int64(v) if isinstance(v, int) else np.float64(v)

        def npint(v, form):
            if form == "np32":
                for t, top in ((np.uint8, 255), (np.int16, 32767), (np.int32, 2**31 - 1)):
                    if 0 <= v <= top:
                        return t(v)
            return np.int64(v)
        kw = {}
        bs, nb = _kw(c)
        sf, lf = c.get("specform"), c.get("limform")
        if bs != "omit":
            kw["binsize"] = None if bs is None else (npnum(_num(bs), sf) if sf else _num(bs))
        if nb is not None:
            kw["nbin"] = npint(nb, sf) if sf else nb
        for key in ("min", "max"):
            if c[key] is not None:
                kw[key] = npnum(_num(c[key]), lf) if lf else _num(c[key])
        if c.get("explicit"):                     # defaults given explicitly
            kw.setdefault("min", None)
            kw.setdefault("max", None)
            kw.setdefault("nbin", None)
            kw.update(nperbin=None, mergelast=True)
            if not api.startswith("binner"):
                if "binsize" not in kw:
                    kw["binsize"] = 1.0
                if api != "weights":
                    kw["weights"] = None
            else:
                kw.setdefault("binsize", None)
        elif c.get("mergelast") is not None:      # documented option without influence on binsize/nbin histograms
            kw["mergelast"] = c["mergelast"]
        wts = None
        if api in ("weights", "binner_w", "binner_yw"):
            wts = np.ones(n) if c.get("wpat") != "mod3" else np.array([float(i % 3) for i in range(n)])
            if cont in ("scalar", "zerod"):
                wts = float(wts[0])
        return kw, wts

    @staticmethod
    def _yvals(np, c, n, cont):
        """the second variable: increasing, decreasing, or scrambled with repeats (never sorted within ties of x)"""
        if n == 1 and cont in ("scalar", "zerod"):
            return 0.0
        pat = c.get("ypat") or "asc"
        if pat == "desc":
            return -np.arange(n, dtype="f8")
        if pat == "mix":
            return np.array([float((i * 7 + 3) % 5) - 0.5 * (i % 2) for i in range(n)])
        return np.arange(n, dtype="f8")

    def _call(self, np, st, c, state):
        data, cont = self._materialize(np, c, state)
        kw, wts = self._kwargs(np, c, cont)
        api = c["api"]
        vals = c["data"]
        n = len(vals)
        obs = None
        if api == "tuple":
            h, rev = st.histogram(data, rev=True, **kw)
        elif api == "norev":                  # the counts without reverse indices, rev from a second call
            h = st.histogram(data, **kw)
            _, rev = st.histogram(data, rev=True, **kw)
        else:
            if api == "more":
                b = st.histogram(data, more=True, **kw)
            elif api == "weights":
                b = st.histogram(data, weights=wts, rev=True, **kw)
            elif api == "binner_y":           # a second variable forces the reverse indices
                b = st.Binner(data, y=self._yvals(np, c, n, cont))
                b.dohist(rev=False, calc_stats=False, **kw)
            elif api == "binner_w":
                b = st.Binner(data, weights=wts)
                b.dohist(rev=False, calc_stats=False, **kw)
            elif api == "binner_yw":          # second variable and weights together
                b = st.Binner(data, y=self._yvals(np, c, n, cont), weights=wts)
                b.dohist(rev=False, calc_stats=False, **kw)
            elif api == "binner_twice":       # the same object used before with another specification
                b = st.Binner(data)
                try:
                    med = sorted(_f(v) for v in vals)[n // 2]
                    b.dohist(nbin=3, min=med, rev=True, calc_stats=False)
                    b.dohist(binsize=0.75, max=med, rev=False, calc_stats=False)
                except (ValueError, IndexError, ZeroDivisionError):
                    pass
                b.dohist(rev=True, calc_stats=False, **kw)
            else:
                if c.get("reuse") and state.get("binner") is not None:
                    b = state["binner"]       # the Binner object of an earlier call of the sequence
                else:
                    b = st.Binner(data)
                    if c.get("obj") is not None:
                        state["binner"] = b
                b.dohist(rev=True, calc_stats=(api == "binner_stats"), **kw)
            h, rev = b["hist"], b["rev"]
            pre = "x" if api in ("binner_y", "binner_yw") else ""
            obs = {"binsize": float(b["binsize"]).hex(), "nbin": int(b["nbin"]),
                   "min": float(b[pre + "min"]).hex(), "max": float(b[pre + "max"]).hex(),
                   "sort": [int(v) for v in b["sort_index"]], "wsort": [int(v) for v in b["wsort"]]}
        assert h.dtype == np.int64 and rev.dtype == np.int64 and h.ndim == 1 and rev.ndim == 1
        if h.size > MAXOUT or rev.size > MAXOUT:     # a (mutated) tree that derives a huge bin count
            raise OverflowError("hist/rev with %d/%d elements: far beyond what the generated cases ask for"
                                % (h.size, rev.size))
        res = {"hist": [int(v) for v in h], "rev": [int(v) for v in rev], "obs": obs}
        scr = c.get("scribble")
        if scr:                               # the caller writes into the RETURNED arrays before calling again
            h[...] = -7
            rev[...] = -7
            if scr == "sort" and obs is not None:      # (only in witnesses of the aliasing finding, see docs/reports/C05.md 11)
                b["sort_index"][...] = 0
        return res

    def _one(self, c, have_chist, with_history=True):
        """the judged call, after the earlier calls of its sequence (c["history"]) were made in this
        process on the same objects"""
        import signal
        import numpy as np
        import esutil.stat as st
        import esutil.stat.util as U
        if not getattr(U, "_chist", None):
            return ("err", "EOther", "compiled extension _chist is not importable")

        def _alarm(signum, frame):
            raise TimeoutError("no answer within %d s (the generated cases need milliseconds)" % CASE_TIMEOUT)
        state = {"objs": {}, "binner": None}
        old = signal.signal(signal.SIGALRM, _alarm)
        signal.alarm(CASE_TIMEOUT)
        try:
            with warnings.catch_warnings():
                warnings.simplefilter("ignore")
                with np.errstate(all="ignore"):
                    if with_history:
                        for step in c.get("history") or []:
                            U.have_chist = (not have_chist) if step.get("flip") else have_chist
                            core.guarded(self._call, np, st, step, state)      # judged in its own case
                    U.have_chist = have_chist
                    out = core.guarded(self._call, np, st, c, state)
        finally:
            signal.alarm(0)
            signal.signal(signal.SIGALRM, old)
            U.have_chist = True
        if out[0] == "err" and out[2].startswith("ZeroDivisionError"):
            out = ("err", "EOther", out[2])
        return out

    def impl(self, c):
        out = {"c": self._one(c, True), "py": self._one(c, False)}
        if c.get("history"):
            # the statement does not depend on earlier calls: the same call alone on fresh objects
            fresh = {"c": self._one(c, True, with_history=False), "py": self._one(c, False, with_history=False)}
            out["history_dependent"] = (json.dumps(fresh, sort_keys=True, default=str)
                                        != json.dumps({"c": out["c"], "py": out["py"]}, sort_keys=True, default=str))
        return out

    # --- Coq
    def _input(self, c):
        x = [_f(v) for v in c["data"]]
        if c["dtype"] == "f4":
            pass                                    # already rounded to binary32 by the generator
        return "%s %s %s %s %s" % (_api(c), clist(x, cfloat), copt_f(c["min"]), copt_f(c["max"]), ckw(c))

    def term(self, c, out):
        self.monitors.append((c, "monitor_code %s" % self._input(c)))
        t = "v_hist_api %s %s %s %s %s" % (self._input(c), cobs(out["c"]), cobs(out["py"]),
                                           carrays(out["c"]), carrays(out["py"]))
        if out.get("history_dependent"):          # differs from the same call made alone: not what the model says
            t = "Z.lor (%s) 1" % t
        return t

    def show(self, c):
        return "show_api %s" % self._input(c)

    def nontrivial(self, c, out):
        e = expected(c)
        if e is None:
            return False
        occ = set(b for b in e["bins"] if b is not None)
        empty = len(occ) < e["nbin"]
        return len(occ) >= 2 and (empty or e["ties"] > 0 or e["edge"] > 0 or e["excluded"] > 0)

    def family(self, c):
        eff = _eff(c)
        return c.get("family", "?").split("/")[0] + ":" + (eff[0] if eff else "neither") + \
            ("+kw" if c.get("kw") is not None else "") + ":" + \
            ("both" if c["min"] is not None and c["max"] is not None else
             "min" if c["min"] is not None else "max" if c["max"] is not None else "nolimit")


ENTRIES = [Hist()]

REAL_THEOREMS = {"C05_binnum_monotone", "C05_argsort_stable", "C05_contracts_hold", "C05_holds_finite",
                 "C05_holds_finite_all", "C05_stable_argsort_unique", "C05_holds_finite_total", "C05_holds_binsize_mode"}

TRUSTED = [
    "Coq 8.16.1 kernel (coqc, vm_compute; no native_compute); all C05 theorems are closed under the global context "
    "except for the kernel's primitive binary64 operations (PrimFloat sub/div/ltb/leb/eqb, Prim2SF), i.e. the host "
    "CPU's IEEE-754 arithmetic is trusted to be what gcc -O3 (no FMA, no -ffast-math) emits for chist_pywrap.c",
    "hand-written model C05/Model.v of Binner.__init__/dohist/_get_minmax_and_indices/_hist_by_binsize_or_nbin/_do_hist, "
    "_dohist (util.py) and PyCHist_chist (chist_pywrap.c), two transcriptions of the pass; tied to the working tree by "
    "the correspondence run on every check (bit-for-bit on hist, rev, sort_index, wsort, binsize, nbin, min, max; "
    "differential testing, bounded by the generators)",
    "modelled, not verified: numpy's stable argsort (modelled as THE stable sorting permutation by insertion sort), "
    "astype(float64), numpy comparison/where, float -> int64 conversion as x86-64 cvttsd2si (out of range/NaN -> INT64_MIN)",
    "contracts of C05_model_meets_spec (value order total on the data, selection = data within the given limits, "
    "truncation = floor and bin numbers non-decreasing on the selected sorted data) are decided in Coq on every case "
    "(monitor) and are theorems for finite data where proved (see Properties.v)",
    "python harness (harness/props/C05.py), hex-float literal printer, coqc evaluating Exec.v verdict terms",
]


def run(ctx, replay=None):
    ctx.rule = ("every case runs esutil.stat.histogram(rev=True) / histogram(more=True) / Binner.dohist(rev=True) on the same "
                "input with have_chist True and False; Coq evaluates agree (arrays and observable bin specification equal "
                "the two model transcriptions) and ok (engines identical and verified checker hist_check on the "
                "implementation's arrays).  non-trivial: >= 2 occupied bins and (an empty bin, a tie, a value exactly on a "
                "bin edge, or an excluded/uncounted datum).  distinct by canonical JSON.")
    ctx.trusted = TRUSTED
    built = core.proof_step(ctx, "C05", core.ALLOW_FLOAT + core.ALLOW_REALS)
    if built:
        # only the IEEE theorems may use the axioms of the reals; everything else: primitive floats only
        import os
        thms = [t for t in core.theorems_in(os.path.join(core.COQDIR, "theories", "C05", "Properties.v"))
                if t not in REAL_THEOREMS]
        res, bad, _ = core.assumptions(ctx.work + "/strict", "C05.Properties", thms, core.ALLOW_FLOAT)
        ctx.obligation("the %d theorems of C05/Properties.v other than %s depend on no axiom besides the primitive-float "
                       "specifications" % (len(thms), ", ".join(sorted(REAL_THEOREMS))), not bad, str(bad[:3]))
        if bad:
            ctx.violation("a discrete C05 theorem depends on an axiom outside its allow-list: %s" % bad[:3],
                          {"kind": "assumptions", "bad": bad}, found_input=False)
    # constants and small decisions regenerated from the source of the tree under test
    try:
        consts, gen = c05_translate.translate(ctx.impl)
        t = ("if consts_agree gen_default_binsize gen_nbin_plus gen_rev_extra gen_c_binold_init gen_py_binold_init "
             "gen_c_offset_step gen_py_offset_init gen_c_offset_end_init gen_py_offset_end_init gen_c_offset_end_step "
             "gen_py_offset_end_step gen_lo_inclusive gen_hi_inclusive gen_sort_stable gen_hist_nbin_overrides "
             "gen_binner_binsize_first then 0 else 1")
        vals = core.coq_eval(ctx.work + "/gen", PRE + "Open Scope Z_scope.\n" + gen, [t], tag="gen", shard=1)
        same = vals[0].strip("() ").replace("%Z", "") == "0"
        note = "" if same else "regenerated: %s" % consts
        # expressions, tests and keyword handling translated into Gallina: each tie lemma is re-proved now
        ties = core.coq_lemmas(ctx.work + "/tie", PRE + "Open Scope Z_scope.\n" + gen,
                               [(st, pr) for _, st, pr in c05_translate.TIES], tag="tie", shard=len(c05_translate.TIES))
        for (name, st, _), (ok, msg) in zip(c05_translate.TIES, ties):
            ctx.obligation("tie (translated from the source): " + name, ok, msg[-300:])
            if not ok and same:
                same, note = False, "tie lemma no longer holds: %s: %s" % (name, st)
    except (c05_translate.TranslateError, OSError, SyntaxError, core.CoqEvalError) as e:
        same, note, consts = False, str(e)[-600:], None
    ctx.obligation("constants regenerated from esutil/stat/util.py and chist_pywrap.c (c05_translate) equal the named "
                   "constants of C05/Model.v (theorem C05_consts ties those to the model)", same, note)
    broken_tie = None if same else {"kind": "translation", "no_longer_checks": "C05.C05_consts / Exec.consts_agree",
                                    "detail": note, "regenerated": consts}
    ent = ENTRIES[0]
    differential(ctx, PRE, ENTRIES, replay)
    if broken_tie is not None:
        # a failing input, when there is one, has been reported by the differential run above
        ctx.violation("the source no longer matches the constants of the model (or the translator does not recognise "
                      "the code): " + note[:300], broken_tie, found_input=False)
    # contract monitors of C05_model_meets_spec on every explored input
    if ent.monitors:
        try:
            vals = core.coq_eval(ctx.work + "/monitor", PRE, [t for _, t in ent.monitors], tag="monitor")
            codes = [v.strip("() ").replace("%Z", "") for v in vals]
            bad = [c for (c, _), v in zip(ent.monitors, codes) if v not in ("0", "2")]
            ctx.count("inside the proved domain of C05_holds_finite_total", sum(1 for v in codes if v == "2"))
        except core.CoqEvalError as e:
            bad = None
            ctx.notes.append(str(e)[-1500:])
        ctx.obligation("contract monitor of C05_model_meets_spec holds on all %d explored inputs" % len(ent.monitors),
                       bad == [], "" if bad is None else "%d failing" % len(bad or []))
        ctx.count("monitored", len(ent.monitors))
        if bad is None:
            ctx.violation("contract monitor case file does not evaluate in Coq", {"kind": "monitor-file"}, found_input=False)
        elif bad:
            c = min(bad, key=lambda c: len(str(c)))
            ctx.violation("contract monitor of C05_model_meets_spec fails (the model's assumptions about IEEE order / "
                          "monotone bin numbers do not hold on this input; not an esutil defect by itself)",
                          {"kind": "contract-monitor", "entry": ent.name, "case": c,
                           "no_longer_checks": "hypothesis `contracts` of C05.C05_model_meets_spec"}, found_input=False)
    if not ctx.quick() and replay is None:
        # exhaustive small scope inside Coq: model vs verified checker + contracts + engines
        t = ("if sweep [0; 1; 2; 3]%float 4 [None; Some 1%float; Some 2%float] "
             "[ByNbin 1; ByNbin 2; ByNbin 3; ByBinsize 1; ByBinsize 2; ByBinsize 0.5] then 0 else 1")
        t2 = ("if sweep [0.1; 0.2; 0.30000000000000004; 0.3; 0.7]%float 4 [None; Some 0.2%float] "
              "[ByNbin 2; ByNbin 3; ByBinsize 0.1; ByBinsize 0.2] then 0 else 1")
        try:
            vals = core.coq_eval(ctx.work + "/sweep", PRE.replace("From Coq Require Import PrimFloat.\n", "From Coq Require Import PrimFloat.\nSet Warnings \"-inexact-float\".\n"),
                                 [t, t2], tag="sweep", shard=1)
        except core.CoqEvalError as e:
            vals = ["1", "1"]
            ctx.notes.append(str(e)[-1500:])
        ctx.obligation("sweep: model satisfies hist_check, contracts and engine equality on all data over {0,1,2,3} of "
                       "length <= 4 x 9 limit pairs x 6 bin specifications (vm_compute)", vals[0].strip() == "0")
        ctx.obligation("sweep: same over {0.1,0.2,0.1+0.2,0.3,0.7}, length <= 4, 4 limit pairs, 4 bin specifications",
                       vals[1].strip() == "0")
        ctx.exhaustive = True

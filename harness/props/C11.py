"""C11 -- cosmological distances equal their Hogg (1999) definitions (DESIGN.md section 7, C11).

Per run:
  0. Gen.v is regenerated from cosmolib.h / cosmolib.c / cosmology.py (c11_translate, fail-closed);
  1. proof_step: Properties.v / Exec.v / Cert.v build, Print Assumptions within the allow-list;
  2. constants of the sources against the pinned documented ones; the Gauss-Legendre tables the code
     computes (bit-exact PrimFloat model of gauleg == float port) are mirror-symmetric and satisfy the
     moment conditions (exact rational arithmetic, vm_compute);
  3. differential entries: params (normalisation, copy/deepcopy/pickle), chain (bit-exact binary64
     model of cosmolib.c + identities to rounding on the exact rational values), dispatch (array calls
     = map of scalar calls; mismatched lengths rejected);
  4. one kernel-checked certificate per case and quantity: the statement's criterion
     |out - Hogg| <= 1.5 |GL_R - Hogg| + 1e-12 |out| with the genuine integral in Hogg's definition
     (Cert.cert: verified outward-rounded interval evaluation of the R model, closed by vm_compute; GL_R - Hogg is the
     truncation error of the rule by Properties.C11_chain_is_Hogg_up_to_quadrature);
  5. for concordance-like cosmologies the documented accuracy (1e-6 at z<=1, 1e-3 at z<=5) against
     kernel-checked enclosures of the integral (Interval's `integral` tactic over Coquelicot RInt).
"""
import copy as _copy
import json
import math
import os
import pickle
import struct
import time

from .. import core
from ..core import cz, cbool, cfloat
from ..runner import Entry, differential
from . import c11_translate

PID = "C11"
GEN_PATH = os.path.join(core.COQDIR, "theories", "C11", "Gen.v")

PRE = ("From Coq Require Import String.\nFrom Coq Require Import PrimFloat ZArith List QArith.\nImport ListNotations.\n"
       "From EsVerif.Common Require Import Base.\n"
       "From EsVerif.C11 Require Import Gen Model ModelF Spec Exec.\nOpen Scope Z_scope.\n")
PRE_CERT = ("From Coq Require Import Reals ZArith List.\nImport ListNotations.\n"
            "From EsVerif.C11 Require Import Gen Model Spec Proofs Cert Properties.\n")
PRE_ACC = ("From Coq Require Import Reals ZArith List Lra.\nImport ListNotations.\n"
           "From Coquelicot Require Import Coquelicot.\nFrom Interval Require Import Tactic.\n"
           "From EsVerif.C11 Require Import Gen Model Spec Proofs Cert Properties.\nOpen Scope R_scope.\n")

CERT_PREC = 80
ZMAX = 5.0


# ----------------------------------------------------------------------------------------------
# literal printers
# ----------------------------------------------------------------------------------------------
def fh(x):
    return float(x).hex()


def hf(s):
    return float.fromhex(s)


def cF(h):
    """hex string -> PrimFloat literal"""
    return cfloat(hf(h))


def cFo(h):
    return "None" if h is None else "(Some %s)" % cF(h)


def cP(x):
    """binary64 value -> exact integer pair (n, d)%Z"""
    n, d = core.dyadic(x)
    return "(%d, %d)%%Z" % (n, d) if n >= 0 else "((%d), %d)%%Z" % (n, d)


def cPl(xs):
    return "[" + "; ".join(cP(x) for x in xs) + "]"


def cFl(xs):
    return "[" + "; ".join(cfloat(x) for x in xs) + "]"


def cQl(xs):
    return "[" + "; ".join(core.cQ(x) for x in xs) + "]"


def bits(x):
    return struct.unpack("<Q", struct.pack("<d", float(x)))[0]


def fin(h):
    """hex string (or None) of an implementation output -> is it a finite binary64 value?"""
    return h is not None and math.isfinite(hf(h))


def bits_finite(b):
    """bit pattern of a binary64 value -> finite?  (exponent field not all ones)"""
    return (int(b) >> 52) & 0x7FF != 0x7FF


def nonfinite_outputs(res):
    """names of the non-finite (NaN, +-inf) values in one chain result: reported parameters and outputs.  Inside the
    generator's domain (E^2 >= 0.05 on [0,5], 0 <= z <= 5, distmod only for z > 0) every definition is finite, and the
    statement demands specific finite values (e.g. sigmacritinv = 0 at or in front of the lens)."""
    rep, o = res["rep"], res["out"]
    bad = ["rep[%d]" % i for i in (0, 1, 3, 4, 5) if not fin(rep[i])]
    bad += [k for k, h in sorted(o.items()) if h is not None and not fin(h)]
    return bad


# ----------------------------------------------------------------------------------------------
# float port of cosmolib.c (only used to produce the libm oracle tables and the table literals;
# it is itself checked bit-for-bit against the PrimFloat model and the real code on every run)
# ----------------------------------------------------------------------------------------------
class Port:
    def __init__(self, K):
        self.K = K
        self.cos_calls = []
        self.x, self.w = self.gauleg(-1.0, 1.0, K["NPTS"])
        self.vx, self.vw = self.gauleg(-1.0, 1.0, K["VNPTS"])

    def gauleg(self, x1, x2, npts):
        K = self.K
        x = [0.0] * npts
        w = [0.0] * npts
        eps = K["GAULEG_EPS"]
        m = (npts + 1) // 2
        xm = (x1 + x2) / 2.0
        xl = (x2 - x1) / 2.0
        z1 = 0.0
        pp = 0.0
        for i in range(1, m + 1):
            arg = K["M_PI"] * (i - 0.25) / (npts + .5)
            z = math.cos(arg)
            self.cos_calls.append((arg, z))
            n = 0
            while abs(z - z1) > eps:
                p1, p2 = 1.0, 0.0
                for j in range(1, npts + 1):
                    p3 = p2
                    p2 = p1
                    p1 = ((2.0 * j - 1.0) * z * p2 - (j - 1.0) * p3) / j
                pp = npts * (z * p1 - p2) / (z * z - 1.)
                z1 = z
                z = z1 - p1 / pp
                n += 1
                if n > 100:
                    raise RuntimeError("gauleg port: no convergence")
            x[i - 1] = xm - xl * z
            x[npts + 1 - i - 1] = xm + xl * z
            w[i - 1] = 2.0 * xl / ((1. - z * z) * pp * pp)
            w[npts + 1 - i - 1] = w[i - 1]
        return x, w


class PortCosmo:
    def __init__(self, port, DH, flat, om, ol, ok):
        self.p, self.DH, self.flat, self.om, self.ol, self.ok = port, DH, bool(flat), om, ol, ok
        self.tc = 0.0
        if not self.flat:
            try:
                self.tc = (math.sqrt(ok) if ok > 0 else math.sqrt(-ok)) / DH
            except (ValueError, ZeroDivisionError):      # NaN / zero parameters reported by a mutated implementation
                self.tc = float("nan")
        self.libm = []

    def ez(self, z):
        o = 1. + z
        if self.flat:
            e = self.om * o * o * o + self.ol
        else:
            o2 = o * o
            e = self.om * o2 * o + self.ok * o2 + self.ol
        try:
            return math.sqrt(1.0 / e)
        except (ValueError, ZeroDivisionError):
            return float("nan")

    def ezint(self, a, b):
        f1 = (b - a) / 2.
        f2 = (b + a) / 2.
        s = 0.0
        for x, w in zip(self.p.x, self.p.w):
            s += f1 * self.ez(x * f1 + f2) * w
        return s

    def Dc(self, a, b):
        return self.DH * self.ezint(a, b)

    def Dm(self, a, b):
        d = self.Dc(a, b)
        if not self.flat:
            arg = d * self.tc
            v = math.sinh(arg) if self.ok > 0 else math.sin(arg)
            self.libm.append((arg, v))
            d = v / self.tc
        return d

    def Da(self, a, b):
        return self.Dm(a, b) / (1. + b)

    def dV(self, z):
        o = 1. + z
        da = self.Da(0.0, z)
        return self.DH * da * da * self.ez(z) * o * o

    def V(self, a, b):
        f1 = (b - a) / 2.
        f2 = (b + a) / 2.
        v = 0.0
        for x, w in zip(self.p.vx, self.p.vw):
            v += f1 * self.dV(x * f1 + f2) * w
        return v * 4. * self.p.K["M_PI"]

    def scinv(self, zl, zs):
        if zs <= zl:
            return 0.0
        dl = self.Da(0.0, zl)
        ds = self.Da(0.0, zs)
        dls = self.Da(zl, zs)
        return dls * dl / ds * self.p.K["FOUR_PI_G_OVER_C_SQUARED"]


_STATE = {}


def port():
    return _STATE["port"]


# ----------------------------------------------------------------------------------------------
# generators
# ----------------------------------------------------------------------------------------------
def normalise(kw, K):
    """documented normalisation, only used by the generator to stay inside the domain E(z)^2 > 0"""
    om = K["DEFAULT_OMEGA_M"] if kw.get("omega_m") is None else kw["omega_m"]
    ol = K["DEFAULT_OMEGA_L"] if kw.get("omega_l") is None else kw["omega_l"]
    ok = kw.get("omega_k")
    if ok is None or ok == 0.0:
        return om, 1.0 - om, 0.0
    return om, ol, ok


def in_domain(kw, K):
    """E(z)^2 >= 0.05 on [0,5] (the definitions need E real and the integrand finite) and, in a
    closed universe, z = 5 well in front of the antipode (sqrt|Ok| Dc/DH <= 2.6), where sin(u)/u
    is well conditioned."""
    om, ol, ok = normalise(kw, K)
    n = 400
    e2 = [om * (1 + ZMAX * i / n) ** 3 + ok * (1 + ZMAX * i / n) ** 2 + ol for i in range(n + 1)]
    if min(e2) < 0.05:
        return False
    if ok < 0:
        h = ZMAX / n
        integ = sum(0.5 * h * (1 / math.sqrt(e2[i]) + 1 / math.sqrt(e2[i + 1])) for i in range(n))
        if math.sqrt(-ok) * integ > 2.6:
            return False
    return True


def gen_hubble(r):
    k = r.random()
    if k < 0.15:
        return {}                                   # default H0
    if k < 0.55:
        return {"H0": r.choice([30.0, 120.0, 70.0, 67.4, r.uniform(30, 120)])}
    if k < 0.65:
        return {"H0": r.choice([30, 70, 100, 120])}          # python int
    return {"h": r.choice([0.3, 1.2, 0.7, r.uniform(0.3, 1.2)])}


def gen_om(r):
    k = r.random()
    if k < 0.25:
        return r.choice([1.5, 1.0, 0.3, 0.05, 0.01, 0.25, 0.315])
    if k < 0.5:
        return math.exp(r.uniform(math.log(0.01), math.log(1.5)))
    return r.uniform(0.01, 1.5)


def gen_cosmo(ctx, kind, K):
    """kind in flat / open / closed / free-ol / concordance; returns constructor kwargs inside the domain"""
    r = ctx.rng
    for _ in range(200):
        kw = dict(gen_hubble(r))
        if kind == "concordance":
            kw["omega_m"] = r.choice([0.2, 0.4, 0.3, 0.25, 0.315, r.uniform(0.2, 0.4)])
            if r.random() < 0.3:
                kw["flat"] = True
        elif kind == "flat":
            kw["omega_m"] = gen_om(r)
            s = r.random()
            if s < 0.3:
                kw["flat"] = True
            elif s < 0.5:
                kw["omega_k"] = r.choice([0.0, -0.0])
            if r.random() < 0.3:
                kw["omega_l"] = r.uniform(0, 1)            # ignored when flat
        else:
            om = gen_om(r)
            lo, hi = (0.0, 0.5) if kind == "open" else ((-0.5, 0.0) if kind == "closed" else (-0.5, 0.5))
            ok = r.choice([lo if lo != 0 else hi, hi if hi != 0 else lo, r.uniform(lo, hi), r.uniform(lo, hi) * 0.1])
            if ok == 0.0:
                continue
            kw["omega_m"] = om
            kw["omega_k"] = ok
            kw["omega_l"] = r.uniform(0.0, 1.2) if kind == "free-ol" else 1.0 - om - ok
            if r.random() < 0.3:
                kw["flat"] = r.choice([True, False])       # overridden by omega_k
        if in_domain(kw, K):
            return kw
        ctx.count("generator:outside-domain-resampled")
    return {"omega_m": 0.3}


def gen_zpair(r, kind):
    if kind == "from0":
        return 0.0, r.choice([5.0, 1.0, 0.5, r.uniform(0.001, 5), r.uniform(0.001, 1)])
    if kind == "same":
        z = r.choice([0.0, 5.0, r.uniform(0, 5)])
        return z, z
    if kind == "tiny":
        z = r.uniform(0, 4.9)
        return z, z + r.choice([1e-9, 1e-6, 1e-3])
    if kind == "low":
        a, b = sorted([r.uniform(0, 1), r.uniform(0, 1)])
        return a, b
    if kind == "edge":
        return r.choice([0.0, 0.5, 1.0, r.uniform(0, 5)]), 5.0
    a, b = sorted([r.uniform(0, 5), r.uniform(0, 5)])
    return a, b


CTOR_ORDER = ["H0", "h", "flat", "omega_m", "omega_l", "omega_k"]
# numpy float32 scalars as constructor arguments make the unrepaired constructor compute DH / H0 / omega_l in float32
# (fixes/C11/0001-*.patch); generated and replayed from the corpus only once that repair is in /repo HEAD
CTOR_F4 = True


def build(kw, form=None, reinit=None):
    """form (constructor input forms, report section 10): {"types": {key: "np.f8" | "np.f4" | "np.i8" | "py-int"},
    "explicit_none": [keys passed explicitly as None], "positional": bool}"""
    from esutil.cosmology import Cosmo
    form = form or {}
    args = {k: v for k, v in kw.items() if v is not None}
    for k, t in form.get("types", {}).items():
        if k in args and k != "flat":
            args[k] = mk_scalar(args[k], t)
    for k in form.get("explicit_none", []):
        if k not in args:
            args[k] = None
    if form.get("positional"):
        # all six positionally; a parameter the case does not give is passed as its documented default
        K = _STATE["K"]
        dflt = {"H0": K["DEFAULT_H0"], "h": None, "flat": K["DEFAULT_FLAT"], "omega_m": K["DEFAULT_OMEGA_M"],
                "omega_l": K["DEFAULT_OMEGA_L"], "omega_k": None}
        pos = [args.get(k, dflt[k]) for k in CTOR_ORDER]
        if reinit is not None:
            reinit.__init__(*pos)
            return reinit
        return Cosmo(*pos)
    if reinit is not None:                 # the same object given a second parameter set through its constructor
        reinit.__init__(**args)
        return reinit
    return Cosmo(**args)


def gen_form(r, kw):
    """constructor input forms for the params entry; values stay the exact reals of kw"""
    import numpy as np
    form = {}
    k = r.random()
    if k < 0.35:
        types = {}
        for key, v in kw.items():
            if key == "flat" or v is None:
                continue
            opts = ["np.f8"]
            if float(v) == int(v):
                opts += ["np.i8", "py-int"]
            if CTOR_F4 and float(np.float32(v)) == float(v):
                opts += ["np.f4"]
            if r.random() < 0.6:
                types[key] = r.choice(opts)
        if types:
            form["types"] = types
    if r.random() < 0.25:
        en = [key for key in ("h", "omega_k") if kw.get(key) is None and r.random() < 0.6]
        if en:
            form["explicit_none"] = en
    if r.random() < 0.15:
        form["positional"] = True
    return form


def rep_of(c):
    return [fh(c.H0()), fh(c.DH()), bool(c.flat()), fh(c.omega_m()), fh(c.omega_l()), fh(c.omega_k())]


def c_rep(rep):
    return "(mkRep %s %s %s %s %s %s)" % (cF(rep[0]), cF(rep[1]), cbool(rep[2]), cF(rep[3]), cF(rep[4]), cF(rep[5]))


def c_kw(kw):
    def num(v):
        return "None" if v is None else "(Some %s)" % cfloat(float(v))
    fl = kw.get("flat")
    return "(mkKw %s %s %s %s %s %s)" % (num(kw.get("H0")), num(kw.get("h")),
                                         "None" if fl is None else "(Some %s)" % cbool(fl),
                                         num(kw.get("omega_m")), num(kw.get("omega_l")), num(kw.get("omega_k")))


def c_oracle(pairs):
    seen, out = set(), []
    for a, v in pairs:
        k = (fh(a), fh(v))
        if k not in seen:
            seen.add(k)
            out.append("(%s, %s)" % (cfloat(a), cfloat(v)))
    return "[" + "; ".join(out) + "]"


# ----------------------------------------------------------------------------------------------
# entry: params (normalisation, h, copies, pickle)
# ----------------------------------------------------------------------------------------------
OPS = ["copy", "copy.copy", "copy.deepcopy", "pickle"]


def apply_op(c, op):
    if op == 0:
        return c.copy()
    if op == 1:
        return _copy.copy(c)
    if op == 2:
        return _copy.deepcopy(c)
    return pickle.loads(pickle.dumps(c, protocol={3: pickle.HIGHEST_PROTOCOL, 4: 2, 5: 0}.get(op, pickle.HIGHEST_PROTOCOL)))


def probe(c):
    """bit patterns of a fixed probe set of distances"""
    import numpy as np
    vals = [c.Ez_inverse(1.1), c.Ezinv_integral(0.0, 2.0), c.Dc(0.1, 0.9), c.Dm(0.3, 2.0), c.Da(0.3, 2.0),
            c.Dl(0.2, 4.5), c.dV(0.7), c.V(0.1, 1.3), c.sigmacritinv(0.2, 0.8), float(c.distmod(0.5))]
    vals += [float(v) for v in c.Da(np.array([0.1, 0.2]), np.array([0.5, 3.0]))]
    return [bits(v) for v in vals]


class Params(Entry):
    name = "params"

    def cases(self, ctx, round=0):
        K, r, cs = _STATE["K"], ctx.rng, []
        if round == 0:
            hand = [({}, []), ({"h": 0.7}, [0]), ({"H0": 70.0, "h": 0.5}, [3]), ({"flat": False}, [1]),
                    ({"omega_k": 0.0, "omega_l": 0.2}, [2]), ({"omega_k": -0.0}, [3, 0]),
                    ({"omega_k": 0.1, "omega_l": 0.6, "flat": True}, [3]),
                    ({"omega_k": -0.1, "omega_l": 0.8, "flat": False}, [0, 3, 2, 1]),
                    ({"omega_m": 1.0}, [3, 3]), ({"omega_m": 1.5, "H0": 30}, [2, 3]),
                    ({"omega_m": 0.2, "omega_l": 0.3, "flat": True}, [1, 3])]
            for kw, ops in hand:
                cs.append({"kw": kw, "ops": ops, "family": "hand"})
            # keyword given explicitly as its documented default / explicit None / positional / numpy scalar types
            for kw, ops, form in [({"H0": 100.0, "flat": True, "omega_m": 0.3, "omega_l": 0.7}, [3], {}),
                                  ({"omega_m": 0.3}, [0, 3], {"explicit_none": ["h", "omega_k"]}),
                                  ({"H0": 70.0, "omega_m": 0.25}, [3, 4], {"positional": True}),
                                  ({"h": 0.5, "omega_m": 0.25, "omega_k": 0.25, "omega_l": 0.5}, [5, 2], {"positional": True}),
                                  ({"H0": 70.0, "omega_m": 1.0}, [4], {"types": {"H0": "np.i8", "omega_m": "py-int"}}),
                                  ({"H0": 67.4, "omega_m": 0.315, "omega_k": 0.0}, [5, 5],
                                   {"types": {"H0": "np.f8", "omega_m": "np.f8", "omega_k": "np.f8"}})]:
                cs.append({"kw": kw, "ops": ops, "form": form, "family": "hand-forms"})
        for _ in range(ctx.n(70, 400)):
            kind = r.choice(["flat", "open", "closed", "free-ol", "concordance"])
            kw = gen_cosmo(ctx, kind, K)
            if r.random() < 0.15:           # a default given explicitly
                for key, dv in (("H0", K["DEFAULT_H0"]), ("flat", K["DEFAULT_FLAT"]), ("omega_l", K["DEFAULT_OMEGA_L"])):
                    if key not in kw and not (key == "H0" and "h" in kw) and r.random() < 0.5:
                        kw[key] = dv
            # ops: 0 copy, 1 copy.copy, 2 deepcopy, 3 pickle (highest protocol), 4 pickle protocol 2, 5 pickle protocol 0
            ops = [r.randrange(0, 6) for _ in range(r.choice([0, 1, 1, 2, 3, 4]))]
            cs.append({"kw": kw, "ops": ops, "form": gen_form(r, kw), "family": kind})
        return cs

    def impl(self, c):
        def f():
            o = build(c["kw"], c.get("form"))
            d = o
            for op in c["ops"]:
                d = apply_op(d, op)
            po, pd = probe(o), probe(d)
            return {"orig": rep_of(o), "clone": rep_of(d), "d_orig": po, "d_clone": pd,
                    "probe_finite": all(bits_finite(b) for b in po + pd),
                    "distinct_object": (d is not o) or not c["ops"]}
        return core.guarded(f)

    def term(self, c, out):
        if out[0] != "ok":
            return "3"          # the constructor / a copy raised inside the domain
        o = out[1]
        t = "v_params %s %s %s %s %s %s" % (c_kw(c["kw"]), core.clist(c["ops"]), c_rep(o["orig"]), c_rep(o["clone"]),
                                             core.clist(o["d_orig"]), core.clist(o["d_clone"]))
        if not o.get("probe_finite", True):
            return "Z.lor 2 (%s)" % t      # a probe distance (all at 0 < z <= 5) is NaN / inf: the checker rejects
        return t

    def nontrivial(self, c, out):
        return bool(c["ops"]) or c["kw"].get("omega_k") not in (None, 0.0)

    def show(self, c):
        return "reported (constructF (fill %s))" % c_kw(c["kw"])


# ----------------------------------------------------------------------------------------------
# entry: chain (bit-exact model, identities)
# ----------------------------------------------------------------------------------------------
QUANT = ["QEz", "QInt", "QDc", "QDm", "QDa", "QDl", "QDistmod", "QdV", "QV", "QScinv"]
OUTKEY = {"QEz": "ez", "QInt": "int", "QDc": "Dc", "QDm": "Dm", "QDa": "Da", "QDl": "Dl", "QDistmod": "distmod",
          "QdV": "dV", "QV": "V", "QScinv": "sc"}


class Chain(Entry):
    name = "chain"

    def __init__(self):
        self.results = []
        self.searching = False

    def cases(self, ctx, round=0):
        K, r, cs = _STATE["K"], ctx.rng, []
        self.searching = round > 0          # search rounds are not certified again (the first round is)
        if round == 0:
            for kw, z1, z2 in [({}, 0.0, 1.0), ({"omega_m": 0.3, "H0": 70.0}, 0.2, 0.9),
                               ({"omega_m": 0.27, "omega_l": 0.5, "omega_k": 0.23, "H0": 70.0}, 0.3, 2.2),
                               ({"omega_m": 0.4, "omega_l": 1.0, "omega_k": -0.4, "h": 0.7}, 0.1, 5.0),
                               ({"omega_m": 1.5, "omega_l": -1.0, "omega_k": 0.5}, 0.0, 5.0),
                               ({"omega_m": 1.5, "omega_l": 0.0, "omega_k": -0.5, "H0": 120.0}, 1.0, 3.0),
                               ({"omega_m": 0.01}, 0.0, 5.0), ({"omega_m": 1.5}, 4.0, 5.0)]:
                cs.append({"kw": kw, "z1": z1, "z2": z2, "family": "hand"})
        kinds = ["flat", "flat", "concordance", "open", "closed", "open", "closed", "free-ol"]
        zk = ["from0", "same", "tiny", "low", "edge", "any", "any", "any"]
        for i in range(ctx.n(100, 1000)):
            kind = kinds[i % len(kinds)]
            kw = gen_cosmo(ctx, kind, K)
            z1, z2 = gen_zpair(r, r.choice(zk))
            cs.append({"kw": kw, "z1": z1, "z2": z2, "family": kind})
        return cs

    def impl(self, c):
        def f():
            o = build(c["kw"])
            z1, z2 = c["z1"], c["z2"]
            out = {"ez": o.Ez_inverse(z2), "int": o.Ezinv_integral(z1, z2), "Dc": o.Dc(z1, z2), "Dm": o.Dm(z1, z2),
                   "Da": o.Da(z1, z2), "Dl": o.Dl(z1, z2), "dV": o.dV(z2), "V": o.V(z1, z2),
                   "sc": o.sigmacritinv(z1, z2), "Dc_rev": o.Dc(z2, z1), "sc_rev": o.sigmacritinv(z2, z1),
                   "sc_same": o.sigmacritinv(z2, z2)}
            res = {"rep": rep_of(o), "out": {k: fh(v) for k, v in out.items()}}
            res["out"]["distmod"] = fh(float(o.distmod(z2))) if z2 > 0 else None
            return res
        res = core.guarded(f)
        if not self.searching:
            self.results.append((c, res))
        return res

    def term(self, c, out):
        if out[0] != "ok":
            return "3"
        rep, o = out[1]["rep"], out[1]["out"]
        pc = PortCosmo(port(), hf(rep[1]), rep[2], hf(rep[3]), hf(rep[4]), hf(rep[5]))
        z1, z2 = c["z1"], c["z2"]
        for fn in (lambda: pc.Dm(z1, z2), lambda: pc.dV(z2), lambda: pc.V(z1, z2), lambda: pc.scinv(z1, z2)):
            try:
                fn()
            except Exception:  # noqa  (a mutated struct may leave the port's domain; the model then answers None)
                pass
        outs = "(mkOut %s)" % " ".join(cF(o[k]) for k in ("ez", "int", "Dc", "Dm", "Da", "Dl", "dV", "V", "sc",
                                                         "Dc_rev", "sc_rev", "sc_same"))
        return "v_chain cosv %s %s %s %s %s" % (c_oracle(pc.libm), c_rep(rep), cfloat(z1), cfloat(z2), outs)

    def nontrivial(self, c, out):
        return (c["z2"] > c["z1"] > 0) or (out[0] == "ok" and not out[1]["rep"][2])

    def show(self, c):
        return None


# ----------------------------------------------------------------------------------------------
# entry: dispatch
# ----------------------------------------------------------------------------------------------
TWO = ["Dc", "Dm", "Da", "Dl", "sigmacritinv"]
ONE = ["Ez_inverse", "dV", "distmod"]
SS_ONLY = ["V", "Ezinv_integral"]          # documented for scalars only: exercised with every scalar form
TWO_ALL = TWO + SS_ONLY
# array forms handed to esutil (input-form audit, docs/reports/C11.md section 10).  Every form denotes the exact reals
# in c["a"] / c["b"]: integer forms carry integers, float32 forms float32-representable values.
DTYPES = ["f8", "f4", "i8", "i4", "u8", "u1", "f8-be", "f4-be", "i4-be", "list", "list-int", "tuple", "strided",
          "reversed", "readonly", "col2d", "field", "0d"]
INT_FORMS = ("i8", "i4", "u8", "u1", "i4-be", "list-int", "py-int", "np.i8", "np.i4")
F4_FORMS = ("f4", "f4-be", "np.f4")
NP_DTYPE = {"f8": "f8", "f4": "f4", "i8": "i8", "i4": "i4", "u8": "u8", "u1": "u1", "f8-be": ">f8", "f4-be": ">f4",
            "i4-be": ">i4"}
# scalar forms for the scalar positions of a call
SCALARS = ["scalar", "scalar", "py-int", "np.f8", "np.f4", "np.i8", "np.i4"]


def mk_array(vals, dt):
    """vals: python floats (already representable in dt); returns the object handed to esutil"""
    import numpy as np
    n = len(vals)
    if dt in NP_DTYPE:
        return np.array([int(v) for v in vals] if dt in INT_FORMS else vals, dtype=NP_DTYPE[dt])
    if dt == "list":
        return [float(v) for v in vals]
    if dt == "list-int":
        return [int(v) for v in vals]
    if dt == "tuple":
        return tuple(float(v) for v in vals)
    if dt == "strided":
        big = np.full(2 * n + 1, 9.75)
        big[1::2] = vals
        return big[1::2]
    if dt == "reversed":                       # negative stride
        return np.array(vals[::-1], dtype="f8")[::-1]
    if dt == "readonly":
        arr = np.array(vals, dtype="f8")
        arr.flags.writeable = False
        return arr
    if dt == "col2d":                          # column of a C-ordered 2-d array
        m = np.full((n, 3), 9.75)
        m[:, 1] = vals
        return m[:, 1]
    if dt == "field":                          # field of a structured array
        rec = np.zeros(n, dtype=[("a", "f8"), ("z", "f8"), ("c", "i4")])
        rec["a"] = 9.75
        rec["z"] = vals
        return rec["z"]
    if dt == "0d":                             # not a scalar for numpy.isscalar: treated as a length-1 array
        return np.array(vals[0], dtype="f8")
    raise ValueError(dt)


def mk_scalar(v, dt):
    import numpy as np
    if dt == "py-int":
        return int(v)
    if dt == "np.f8":
        return np.float64(v)
    if dt == "np.f4":
        return np.float32(v)
    if dt == "np.i8":
        return np.int64(int(v))
    if dt == "np.i4":
        return np.int32(int(v))
    if dt == "np.0d":                          # 0-d array where only scalars are documented (V, Ezinv_integral)
        return np.array(float(v))
    return float(v)


def gen_vals(r, n, dt, lo=0.0, hi=5.0):
    if dt in INT_FORMS:
        return [float(r.randrange(int(math.ceil(lo)), int(hi) + 1)) for _ in range(n)]
    vals = [r.choice([r.uniform(lo, hi), r.uniform(lo, min(hi, 1.0)), lo, hi]) for _ in range(n)]
    if dt in F4_FORMS:
        import numpy as np
        vals = [float(np.float32(v)) for v in vals]
        vals = [min(max(v, lo), hi) for v in vals]
        vals = [float(np.float32(v)) for v in vals]
    return vals


def expand(c, key):
    """the element values of argument `key` ('a' / 'b'); long arrays are stored as palette + PRNG seed"""
    lg = c.get("long")
    if lg is None or key not in lg:
        return c[key]
    import random as _random
    pal, n, seed = lg[key]["pal"], lg[key]["n"], lg[key]["seed"]
    rr = _random.Random(seed)
    return [pal[rr.randrange(len(pal))] for _ in range(n)]


def c_zlist(bl):
    """list of bit patterns -> Coq term : list Z; long lists are palette-encoded (Exec.pal / Exec.pal2)"""
    if len(bl) <= 600:
        return core.clist(bl)
    pal = sorted(set(bl))
    if len(pal) > 65536:
        return core.clist(bl)
    idx = {v: i for i, v in enumerate(pal)}
    w, fn = (2, "pal") if len(pal) <= 256 else (4, "pal2")
    P = core.clist(pal)
    per = 4096
    parts = ['%s %s "%s"%%string' % (fn, P, "".join("%0*x" % (w, idx[v]) for v in bl[i:i + per]))
             for i in range(0, len(bl), per)]
    return "(" + " ++ ".join(parts) + ")%list"


def canon_out(res):
    import numpy as np
    if isinstance(res, np.ndarray):
        if res.ndim != 1 or res.dtype != np.dtype("f8"):
            raise TypeError("array result of shape %r dtype %r" % (res.shape, res.dtype))
        return ["ar", [bits(v) for v in res]]
    return ["sc", bits(res)]


class Dispatch(Entry):
    name = "dispatch"

    def cases(self, ctx, round=0):
        K, r, cs = _STATE["K"], ctx.rng, []
        nmax = ctx.n(6, 40)
        for i in range(ctx.n(170, 1000)):
            kind = r.choice(["flat", "open", "closed", "concordance"])
            kw = gen_cosmo(ctx, kind, K)
            if r.random() < 0.72:
                meth = r.choice(TWO)
                shape = ["ss", "as", "sa", "aa", "aa", "aa-mismatch"][i % 6]
                da = r.choice(DTYPES) if shape[0] == "a" else r.choice(SCALARS)
                db = r.choice(DTYPES) if shape[1] == "a" else r.choice(SCALARS)
                n = r.choice([1, 2, 3, r.randrange(1, nmax + 1), r.randrange(0, nmax + 1)])
                m = n
                if shape == "aa-mismatch":
                    m = r.choice([k for k in (0, 1, 2, 3, n + 1, n + 2, max(1, n - 1)) if k != n])
                    da, db = (da if da != "0d" else "f8"), (db if db != "0d" else "f8")
                if da == "0d":
                    n = 1
                    m = 1 if shape == "aa" else m
                if db == "0d":
                    m = 1
                    n = 1 if shape == "aa" else n
                a = gen_vals(r, n if shape[0] == "a" else 1, da)
                b = gen_vals(r, m if shape[1] == "a" else 1, db)
                cs.append({"kw": kw, "meth": meth, "shape": shape, "da": da, "db": db, "a": a, "b": b,
                           "family": "%s/%s" % (meth, shape)})
            else:
                meth = r.choice(ONE)
                shape = r.choice(["s", "a", "a"])
                da = r.choice(DTYPES) if shape == "a" else r.choice(SCALARS)
                n = 1 if da == "0d" else r.choice([1, 2, 3, r.randrange(1, nmax + 1), r.randrange(0, nmax + 1)])
                lo = 0.01 if meth == "distmod" else 0.0
                if meth == "distmod" and da in INT_FORMS:
                    lo = 1.0
                a = gen_vals(r, n if shape == "a" else 1, da, lo=lo)
                cs.append({"kw": kw, "meth": meth, "shape": shape, "da": da, "a": a, "family": "%s/%s" % (meth, shape)})
        for _ in range(ctx.n(14, 80)):
            kw = gen_cosmo(ctx, r.choice(["flat", "open", "closed", "concordance"]), K)
            da, db = r.choice(SCALARS + ["np.0d"]), r.choice(SCALARS + ["np.0d"])
            x, y = gen_vals(r, 1, da)[0], gen_vals(r, 1, db)[0]
            if x > y:
                x, y, da, db = y, x, db, da
            meth = r.choice(SS_ONLY)
            cs.append({"kw": kw, "meth": meth, "shape": "ss", "da": da, "db": db, "a": [x], "b": [y],
                       "family": "%s/ss" % meth})
        if round == 0:
            # long arrays (beyond numpy's 8192-element cast buffer and any plausible block size): few distinct values
            # (palette), so that the measured scalar table stays small.  EVERY C loop (5 methods x vec1/vec2/2vec, the
            # three one-argument loops) gets a length just beyond a power of two; thorough adds more and longer ones.
            loops = [(m, sh) for m in TWO for sh in ("as", "sa", "aa")] + [(m, "a") for m in ONE]
            plan = [(m, sh, ([4097, 1025, 2049][j % 3] if j % 9 else 8193) if ctx.quick() else [4097, 8193, 1025][j % 3])
                    for j, (m, sh) in enumerate(loops)]
            if not ctx.quick():
                plan += [(m, sh, [8191, 4095, 16385][j % 3]) for j, (m, sh) in enumerate(loops)]
                plan += [("Dc", "aa", 65537), ("sigmacritinv", "sa", 100000), ("Da", "as", 65536), ("dV", "a", 100000),
                         ("Dm", "sa", 8192), ("Dl", "aa", 4096)]
            fa = ["f8", "f4", "i8", "strided", "list", "f8-be", "reversed", "i4", "readonly", "u1", "col2d", "tuple"]
            for j, (meth, shape, n) in enumerate(plan):
                kw = gen_cosmo(ctx, r.choice(["flat", "open", "closed"]), K)
                da, db = fa[j % len(fa)], fa[(5 * j + 3) % len(fa)]
                long = {}
                if meth in ONE:
                    lo = 1.0 if (meth == "distmod" and da in INT_FORMS) else (0.01 if meth == "distmod" else 0.0)
                    long["a"] = {"pal": gen_vals(r, 6, da, lo=lo), "n": n, "seed": r.randrange(10 ** 9)}
                    cs.append({"kw": kw, "meth": meth, "shape": shape, "da": da, "a": None, "long": long,
                               "family": "%s/long" % meth})
                    continue
                if shape[0] == "a":
                    long["a"] = {"pal": gen_vals(r, 6, da), "n": n, "seed": r.randrange(10 ** 9)}
                if shape[1] == "a":
                    long["b"] = {"pal": gen_vals(r, 6, db), "n": n, "seed": r.randrange(10 ** 9)}
                cs.append({"kw": kw, "meth": meth, "shape": shape, "da": da if shape[0] == "a" else "scalar",
                           "db": db if shape[1] == "a" else "scalar",
                           "a": None if shape[0] == "a" else gen_vals(r, 1, "f8"),
                           "b": None if shape[1] == "a" else gen_vals(r, 1, "f8"), "long": long,
                           "family": "%s/long" % meth})
            # one long mismatch (n vs n - 1)
            kw = gen_cosmo(ctx, "flat", K)
            cs.append({"kw": kw, "meth": "Da", "shape": "aa-mismatch", "da": "f8", "db": "f8", "a": None, "b": None,
                       "long": {"a": {"pal": gen_vals(r, 4, "f8"), "n": 8193, "seed": 1},
                                "b": {"pal": gen_vals(r, 4, "f8"), "n": 8192, "seed": 2}}, "family": "Da/long"})
        return cs

    def impl(self, c):
        try:
            return self._impl(c)
        except Exception as e:  # noqa  the constructor or a SCALAR call raised inside the domain: a failing input
            return {"crash": core.errclass(e), "out": ["err", core.errclass(e)], "tab": []}

    @staticmethod
    def _is_arr(c, pos):
        sh = c["shape"]
        return sh[pos] == "a" if c["meth"] in TWO_ALL else sh == "a"

    def _impl(self, c):
        import numpy as np
        o = build(c["kw"])
        f = getattr(o, c["meth"])
        res = {}
        av = expand(c, "a")
        A = mk_array(av, c["da"]) if self._is_arr(c, 0) else mk_scalar(av[0], c["da"])
        if c["meth"] in TWO_ALL:
            bv = expand(c, "b")
            B = mk_array(bv, c["db"]) if self._is_arr(c, 1) else mk_scalar(bv[0], c["db"])
            r = core.guarded(lambda: canon_out(f(A, B)))
            res["out"] = list(r[:2])
            # the reference: the scalar entry point, called with python floats, on every DISTINCT element pair that an
            # element-wise call would use
            tab, seen = [], set()
            xa, xb = self._is_arr(c, 0), self._is_arr(c, 1)
            n = max(len(av) if xa else 1, len(bv) if xb else 1)
            for i in range(n):
                if (xa and i >= len(av)) or (xb and i >= len(bv)):
                    continue
                x, y = float(av[i if xa else 0]), float(bv[i if xb else 0])
                key = (bits(x), bits(y))
                if key in seen:
                    continue
                seen.add(key)
                tab.append([key[0], key[1], bits(f(x, y))])
            res["tab"] = tab
        else:
            r = core.guarded(lambda: canon_out(f(A)))
            res["out"] = list(r[:2])
            tab, dl, post, seen = [], [], [], set()
            for x in av:
                x = float(x)
                if bits(x) in seen:
                    continue
                seen.add(bits(x))
                tab.append([bits(x), bits(float(f(x)))])
                if c["meth"] == "distmod":
                    d = o.Dl(0.0, x)
                    dl.append([0, bits(x), bits(d)])
                    post.append([bits(d), bits(float(5.0 * np.log10(d * 1.0e6 / 10.0)))])
            res["tab"], res["dl"], res["post"] = tab, dl, post
        return res

    @staticmethod
    def _arg(vals, is_arr):
        return "(Ar %s)" % c_zlist([bits(v) for v in vals]) if is_arr else "(Sc %s)" % cz(bits(vals[0]))

    @staticmethod
    def _out(o):
        if o[0] != "ok":
            return "(Err %s)" % o[1]
        k, v = o[1]
        return "(Ok (Ar %s))" % c_zlist(v) if k == "ar" else "(Ok (Sc %s))" % cz(v)

    def term(self, c, out):
        if "crash" in out:
            return "3"
        t = self._term(c, out)
        vals = []
        if out["out"][0] == "ok":
            k, v = out["out"][1]
            vals = list(v) if k == "ar" else [v]
        vals += [row[-1] for row in out.get("tab", [])]
        if not all(bits_finite(b) for b in vals):
            # an array slot or a scalar result is NaN / inf although every element (pair) lies inside the domain where the
            # definitions are finite (distmod is only generated for z >= 0.01): the checker rejects, whatever the model says
            return "Z.lor 2 (%s)" % t
        return t

    def _term(self, c, out):
        av = expand(c, "a")
        if c["meth"] in TWO_ALL:
            bv = expand(c, "b")
            tab = "[" + "; ".join("(%s, %s, %s)" % (cz(a), cz(b), cz(v)) for a, b, v in out["tab"]) + "]"
            return "v_dispatch2 %s %s %s %s" % (tab, self._arg(av, self._is_arr(c, 0)), self._arg(bv, self._is_arr(c, 1)),
                                                self._out(out["out"]))
        tab = "[" + "; ".join("(%s, %s)" % (cz(a), cz(v)) for a, v in out["tab"]) + "]"
        if c["meth"] == "distmod":
            dl = "[" + "; ".join("(%s, %s, %s)" % (cz(a), cz(b), cz(v)) for a, b, v in out["dl"]) + "]"
            post = "[" + "; ".join("(%s, %s)" % (cz(a), cz(v)) for a, v in out["post"]) + "]"
            return "v_distmod %s %s %s %s %s" % (dl, post, tab, self._arg(av, self._is_arr(c, 0)), self._out(out["out"]))
        return "v_dispatch1 %s %s %s" % (tab, self._arg(av, self._is_arr(c, 0)), self._out(out["out"]))

    def nontrivial(self, c, out):
        return "a" in c["shape"]

    def show(self, c):
        return None


# ----------------------------------------------------------------------------------------------
# entry: sequence (several objects / clones / interleaved calls in ONE process; history independence)
# ----------------------------------------------------------------------------------------------
# cosmologies that collide in what a too-coarse cache key would use: equal normalised omegas with different H0 (given as H0 or
# through h), equal H0 with different omegas, explicit defaults, omega_k = 0 / -0.0 given (normalises to the default), flat flag
# ignored, almost-flat curved twins, equal omega_m with either sign of omega_k, equal (omega_m, omega_k) with different omega_l
COLLIDE = [
    {}, {"h": 0.7}, {"H0": 70.0}, {"H0": 100.0, "omega_m": 0.3}, {"H0": 100.0, "h": 0.7}, {"h": 1.0},
    {"omega_m": 0.3, "omega_k": 0.0, "omega_l": 0.2}, {"omega_k": -0.0}, {"omega_m": 0.3, "flat": False},
    {"omega_m": 0.25}, {"omega_m": 0.25, "H0": 70.0}, {"omega_m": 0.3, "omega_l": 0.7, "omega_k": 1e-6},
    {"omega_m": 0.3, "omega_l": 0.7, "omega_k": -1e-6}, {"omega_m": 0.3, "omega_l": 0.5, "omega_k": 0.2},
    {"omega_m": 0.3, "omega_l": 0.9, "omega_k": -0.2}, {"omega_m": 0.3, "omega_l": 0.6, "omega_k": 0.2},
    {"omega_m": 0.3, "omega_l": 0.5, "omega_k": 0.2, "H0": 70.0}, {"omega_m": 0.3, "omega_l": 0.5, "omega_k": 0.2, "h": 0.7},
    {"omega_m": 0.3, "omega_l": 0.5, "omega_k": 0.2, "flat": True},
]
SEQ_CALLS = [("Dc", [0.0, 1.0]), ("Da", [0.3, 2.0]), ("Dl", [0.0, 0.5]), ("Dm", [0.2, 4.5]), ("sigmacritinv", [0.2, 0.8]),
             ("sigmacritinv", [0.5, 0.5]), ("sigmacritinv", [0.0, 0.0]), ("V", [0.1, 1.3]), ("dV", [0.7]), ("Ez_inverse", [1.1]),
             ("distmod", [0.5]), ("Ezinv_integral", [0.0, 2.0]), ("Dc", [1.0, 1.0]), ("Dc", [2.0, 0.5]), ("Dm", [0.0, 0.0]),
             ("Da", [0.0, 5.0])]
ERRCODE = {"EValue": 1, "EType": 2, "EIndex": 3, "ERuntime": 4}


def sibling(ctx, kw, K):
    """a cosmology that shares most of what a lazy key would use with kw"""
    r = ctx.rng
    for _ in range(20):
        k2 = dict(kw)
        how = r.choice(["H0", "h", "om", "ok-sign", "ol", "same"])
        if how == "H0":
            k2.pop("h", None)
            k2["H0"] = r.choice([30.0, 70.0, 100.0, 120.0, 67.4])
        elif how == "h":
            k2["h"] = r.choice([0.3, 0.7, 1.0, 1.2])
        elif how == "om":
            k2["omega_m"] = r.choice([0.2, 0.25, 0.3, 0.315, 0.4])
        elif how == "ok-sign" and k2.get("omega_k") not in (None, 0.0):
            k2["omega_k"] = -k2["omega_k"]
            k2["omega_l"] = 1.0 - k2.get("omega_m", 0.3) - k2["omega_k"]
        elif how == "ol" and k2.get("omega_k") not in (None, 0.0):
            k2["omega_l"] = k2.get("omega_l", 0.7) + r.choice([0.1, -0.1])
        if in_domain(k2, K):
            return k2
    return dict(kw)


class Sequence(Entry):
    name = "sequence"
    search_rounds = 1

    def __init__(self):
        self.server = None

    # ---- generation
    def _calls(self, r, oid, k=3, arrs=None):
        st = []
        for meth, args in r.sample(SEQ_CALLS, k):
            st.append(["call", oid, meth, list(args)])
        return st

    def _template(self, ctx, P, Q, R, t):
        r = ctx.rng
        fP, fQ = gen_form(r, P), gen_form(r, Q)
        if t == 0:      # both constructed, calls interleaved, first calls repeated at the end
            first = self._calls(r, "x", 3)
            return ([["new", "x", P, fP], ["new", "y", Q, fQ]] + first + self._calls(r, "y", 3) + self._calls(r, "x", 2)
                    + self._calls(r, "y", 2) + first)
        if t == 1:      # clones made before and after another construction; originals and clones used afterwards
            o1, o2, o3 = r.randrange(0, 6), r.randrange(0, 6), r.randrange(0, 6)
            return ([["new", "x", P, fP], ["clone", "x1", "x", o1], ["new", "y", Q, fQ], ["clone", "x2", "x", o2],
                     ["clone", "y1", "y", o3], ["clone", "x3", "x1", r.randrange(0, 6)]]
                    + self._calls(r, "x1", 2) + self._calls(r, "y1", 2) + self._calls(r, "x2", 2) + self._calls(r, "x3", 2)
                    + self._calls(r, "x", 2) + self._calls(r, "y", 2))
        if t == 2:      # object dropped, another one constructed (address reuse), the first parameter set constructed again
            return ([["new", "x", P, fP]] + self._calls(r, "x", 2) + [["del", "x"], ["new", "y", Q, fQ]] + self._calls(r, "y", 3)
                    + [["new", "z", P, fP]] + self._calls(r, "z", 2) + [["del", "y"], ["new", "w", R, {}]] + self._calls(r, "w", 2)
                    + self._calls(r, "z", 2))
        if t == 3:      # the same argument OBJECT passed again after an in-place change; an equal but distinct array
            v1 = sorted(r.uniform(0, 5) for _ in range(4))
            v2 = sorted(r.uniform(0, 5) for _ in range(4))
            v2[0], v2[-1] = v1[0], v1[-1]                         # equal length, equal first / last element
            meth = r.choice(TWO)
            return [["new", "x", P, fP], ["new", "y", Q, fQ], ["setarr", "a", v1], ["call", "x", meth, [{"arr": "a"}, 5.0]],
                    ["call", "y", meth, [{"arr": "a"}, 5.0]], ["setarr", "a", v2], ["call", "x", meth, [{"arr": "a"}, 5.0]],
                    ["call", "y", meth, [0.0, {"arr": "a"}]], ["newarr", "b", v2], ["call", "x", meth, [{"arr": "b"}, 5.0]],
                    ["setarr", "a", v1], ["call", "x", meth, [{"arr": "a"}, {"arr": "b"}]], ["call", "x", "Ez_inverse", [{"arr": "a"}]],
                    ["setarr", "a", v2], ["call", "x", "Ez_inverse", [{"arr": "a"}]], ["call", "y", "dV", [{"arr": "a"}]],
                    # ownership / aliasing: the caller overwrites a RETURNED array and calls again; a returned array is passed
                    # back as an argument; one array object serves as both bounds
                    ["setarr", "a", v1], ["call", "x", meth, [{"arr": "a"}, 5.0], "r"], ["scribble", "r", -1.0],
                    ["call", "x", meth, [{"arr": "a"}, 5.0], "r2"], ["call", "y", meth, [{"arr": "a"}, 5.0]],
                    ["call", "x", "Ez_inverse", [{"arr": "a"}], "e"], ["call", "y", meth, [{"arr": "e"}, 5.0]],
                    ["scribble", "e", 0.5], ["call", "x", "Ez_inverse", [{"arr": "a"}]],
                    ["call", "x", meth, [{"arr": "a"}, {"arr": "a"}]], ["call", "y", "Dc", [{"arr": "a"}, {"arr": "a"}]]]
        if t == 5:      # churn: many short-lived objects of alternating parameter sets (address / id() reuse by later objects)
            st = []
            for i, kw in enumerate([P, Q, R, P]):
                st.append(["new", "a%d" % i, kw, {}])
            for i in (0, 2, 1, 3):
                st.append(["del", "a%d" % i])
            meth, args = r.choice(SEQ_CALLS)
            for i in range(14):
                kw = [Q, P, R][i % 3] if i % 2 else [P, Q][(i // 2) % 2]
                st += [["new", "t%d" % i, kw, {}], ["call", "t%d" % i, meth, list(args)], ["del", "t%d" % i]]
            st += [["new", "k", P, fP], ["new", "l", Q, fQ]] + self._calls(r, "k", 2) + self._calls(r, "l", 2)
            return st
        # three objects, every pair constructed in both relative orders over the sequence
        return ([["new", "x", P, fP], ["new", "y", Q, fQ], ["new", "z", R, {}]] + self._calls(r, "z", 2) + self._calls(r, "x", 2)
                + [["del", "x"], ["new", "x", P, fP], ["clone", "z1", "z", r.randrange(0, 6)]] + self._calls(r, "y", 2)
                + self._calls(r, "x", 2) + self._calls(r, "z1", 2)
                # the same object re-initialised with a second parameter set; its earlier clone must keep the old one
                + [["reinit", "y", R, {}]] + self._calls(r, "y", 2) + [["reinit", "z", Q, fQ]] + self._calls(r, "z", 2)
                + self._calls(r, "z1", 2))

    def cases(self, ctx, round=0):
        K, r, cs = _STATE["K"], ctx.rng, []
        pairs = []
        if round == 0:
            # every collision pair of the first six (H0 / h / explicit defaults) in BOTH orders, then a sample of the rest
            for i in range(6):
                for j in range(6):
                    if i != j:
                        pairs.append((COLLIDE[i], COLLIDE[j]))
        for _ in range(ctx.n(20, 150)):
            if r.random() < 0.6:
                P, Q = r.sample(COLLIDE, 2)
            else:
                P = gen_cosmo(ctx, r.choice(["flat", "open", "closed", "concordance"]), K)
                Q = sibling(ctx, P, K)
            pairs.append((P, Q))
            pairs.append((Q, P))
        for n, (P, Q) in enumerate(pairs):
            R = r.choice(COLLIDE)
            t = n % 6
            cs.append({"steps": self._template(ctx, dict(P), dict(Q), dict(R), t), "family": "seq-template-%d" % t})
        return cs

    # ---- execution
    @staticmethod
    def lineage(steps):
        """oid -> (root kw, root form, clone ops) at each point of the sequence; returns per-step snapshot for call steps"""
        lin, arrs, snap = {}, {}, []
        for st in steps:
            if st[0] in ("new", "reinit"):
                lin[st[1]] = (st[2], st[3], [])
            elif st[0] == "clone":
                k, f, ops = lin[st[2]]
                lin[st[1]] = (k, f, ops + [st[3]])
            elif st[0] in ("setarr", "newarr"):
                arrs[st[1]] = list(st[2])
            snap.append((dict(lin), dict(arrs)))
        return snap

    def impl(self, c):
        from . import c11_seq
        if self.server is None:
            self.server = c11_seq.Server(_STATE["K"])
        steps = c["steps"]
        res = self.server.run(steps)
        if "crash" in res:
            return {"crash": res["crash"]}
        out = res["out"]
        snap = self.lineage(steps)
        items, seq, alone = [], [], []
        live = {}
        dyn = {}                       # arrays whose contents come from the execution (returned results, scribbles)
        for i, (st, o) in enumerate(zip(steps, out)):
            lin, arrs = snap[i]
            if st[0] in ("setarr", "newarr"):
                dyn.pop(st[1], None)
            if st[0] == "scribble":
                base = dyn.get(st[1], arrs.get(st[1], []))
                dyn[st[1]] = [st[2]] * len(base)
            arrs = dict(arrs, **dyn)
            if st[0] in ("new", "clone", "rep", "reinit"):
                items.append([st[1], lin[st[1]][0], lin[st[1]][2], o])
                if st[0] != "rep":
                    live[st[1]] = True
            elif st[0] == "del":
                live.pop(st[1], None)
            elif st[0] == "call":
                k, f, ops = lin[st[1]]
                ref = [["new", "r0", k, f]]
                cur = "r0"
                for n, op in enumerate(ops):
                    ref.append(["clone", "r%d" % (n + 1), cur, op])
                    cur = "r%d" % (n + 1)
                for a in st[3]:
                    if isinstance(a, dict) and "arr" in a:
                        ref.append(["newarr", a["arr"], arrs[a["arr"]]])
                ref.append(["call", cur, st[2], st[3]])
                rr = self.server.run(ref)
                if len(st) > 4 and st[4] and o[0] == "ok":
                    dyn[st[4]] = [struct.unpack("<d", struct.pack("<Q", b))[0] for b in o[1]]
                seq.append(o)
                alone.append(rr["out"][-1] if "out" in rr else ["err", "crash"])
        # every live object's reported parameters once more at the end of the sequence (in a run of its own that repeats
        # the whole sequence and appends the rep steps: the executor is deterministic)
        tail = [["rep", oid] for oid in sorted(live)]
        if tail:
            r2 = self.server.run(steps + tail)
            if "out" in r2:
                lin, _ = snap[-1]
                for st, o in zip(tail, r2["out"][len(steps):]):
                    items.append([st[1], lin[st[1]][0], lin[st[1]][2], o])
        return {"items": items, "seq": seq, "alone": alone}

    @staticmethod
    def _flat(results):
        fl, finite = [], True
        for o in results:
            if o[0] == "ok":
                fl += [len(o[1])] + list(o[1])
                finite = finite and all(bits_finite(b) for b in o[1])
            else:
                fl += [-1, ERRCODE.get(o[1], 9)]
        return fl, finite

    def term(self, c, out):
        if "crash" in out:
            return "3"
        its = []
        for _oid, kw, ops, rep in out["items"]:
            if not (isinstance(rep, list) and len(rep) == 6):
                return "3"                    # a constructor / clone operation raised inside the domain
            its.append("(%s, %s, %s)" % (c_kw(kw), core.clist(ops), c_rep(rep)))
        seq, fin = self._flat(out["seq"])
        alone, _ = self._flat(out["alone"])
        t = "v_sequence [%s] %s %s" % ("; ".join(its), core.clist(seq), core.clist(alone))
        if not fin or any(o[0] != "ok" for o in out["seq"]):
            return "Z.lor 2 (%s)" % t        # NaN / inf / an exception from a call whose arguments are inside the domain
        return t

    def nontrivial(self, c, out):
        return True

    def show(self, c):
        return None


# ----------------------------------------------------------------------------------------------
# certificates
# ----------------------------------------------------------------------------------------------
def branch(rep):
    if rep[2]:
        return "Flat"
    return "Open" if hf(rep[5]) > 0 else "Closed"


def c_cq(rep):
    return "(mkCq %s %s %s %s %s)" % (cP(hf(rep[1])), cbool(rep[2]), cP(hf(rep[3])), cP(hf(rep[4])), cP(hf(rep[5])))


REF = {"QInt": "I_def {c} {z1} {z2}", "QDc": "Dc_def {c} {z1} {z2}", "QDm": "Dm_def {c} {z1} {z2}",
       "QDa": "Da_def {c} {z1} {z2}", "QDl": "Dl_def {c} {z1} {z2}", "QDistmod": "distmod_def {c} {z2}",
       "QdV": "dV_def {c} {z2}", "QV": "V_def {c} {z1} {z2}", "QScinv": "scinv_def {c} {z1} {z2}"}


def cert_items(case, res):
    """[(quantity, check term, lemma statement, proof)] for one chain case"""
    rep, o = res["rep"], res["out"]
    cq, br = c_cq(rep), branch(rep)
    z1, z2 = cP(case["z1"]), cP(case["z2"])
    items = []
    for q in QUANT:
        h = o[OUTKEY[q]]
        if h is None or not fin(h):        # non-finite outputs are reported by the caller (nonfinite_outputs)
            continue
        out = cP(hf(h))
        chk = "check %d %s X5 W5 X10 W10 %s %s %s %s %s" % (CERT_PREC, q, br, cq, z1, z2, out)
        val = "(value_R %s (map q2R X5) (map q2R W5) (map q2R X10) (map q2R W10) (cosmoR_of %s) (q2R %s) (q2R %s))" % (
            q, cq, z1, z2)
        if q == "QEz":
            chk = "(flat_k0_b %s && E2_pos_check %d %s %s && %s)%%bool" % (cq, CERT_PREC, cq, z2, chk)
            st = "close12 (q2R %s) (Einv_def (cosmoR_of %s) (q2R %s))" % (out, cq, z2)
            pr = "apply (cert_Einv %d X5 W5 X10 W10 %s %s %s %s %s); vm_compute; reflexivity." % (
                CERT_PREC, br, cq, z1, z2, out)
        else:
            ref = REF[q].format(c="(cosmoR_of %s)" % cq, z1="(q2R %s)" % z1, z2="(q2R %s)" % z2)
            st = "within_truncation (q2R %s) (%s) %s" % (out, ref, val)
            pr = "apply (C11_certificate_sound %d %s X5 W5 X10 W10 %s); vm_compute; reflexivity." % (CERT_PREC, q, br)
        items.append((q, chk, st, pr))
    return items


def tables_defs(p):
    return ("Definition X5 : list (Z * Z) := %s.\nDefinition W5 : list (Z * Z) := %s.\n"
            "Definition X10 : list (Z * Z) := %s.\nDefinition W10 : list (Z * Z) := %s.\n" % (
                cPl(p.x), cPl(p.w), cPl(p.vx), cPl(p.vw)))


def run_certificates(ctx, results):
    p = port()
    pre = PRE_CERT + tables_defs(p)
    todo = []
    nf_reported = set()
    for case, res in results:
        if res[0] != "ok":
            continue
        bad = nonfinite_outputs(res[1])
        if bad:
            # NaN / inf cannot enter a real-number certificate: it IS a failing input (never skipped, never an exception)
            for b in bad:
                ctx.count("cert:nonfinite:%s" % b)
            ctx.obligation("outputs finite %r" % (case,), False, "non-finite: %s" % bad)
            key = tuple(bad)
            if key not in nf_reported:
                nf_reported.add(key)
                ctx.violation("non-finite output (NaN or inf) for %s inside the domain of the definitions; the statement demands a "
                              "finite value (sigmacritinv = 0 for sources at or in front of the lens, distances equal to their "
                              "definitions)" % ", ".join(bad),
                              {"kind": "failing-input", "entry": "cert", "case": case, "nonfinite": bad,
                               "impl_output": res[1], "class": None}, found_input=True)
            if any(b.startswith("rep[") for b in bad):
                continue
        for q, chk, st, pr in cert_items(case, res[1]):
            todo.append((case, res[1], q, chk, st, pr))
    if not todo:
        return
    try:
        vals = core.coq_eval(os.path.join(ctx.work, "certeval"), pre, [t[3] for t in todo], ty="bool", shard=600,
                             tag="certeval")
    except core.CoqEvalError as e:
        ctx.violation("certificate evaluation does not compile", {"kind": "case-file", "entry": "cert",
                                                                   "error": str(e)[-3000:]}, found_input=False)
        return
    good, reported = [], set()
    for t, v in zip(todo, vals):
        case, res, q = t[0], t[1], t[2]
        ctx.count("cert:%s:%s" % (q, v))
        if v == "true":
            good.append(t)
        else:
            ctx.obligation("certificate %s" % q, False, "case %r" % (case,))
            if q not in reported:
                reported.add(q)
                ctx.violation("certificate: %s is NOT within 1e-12 relative of the fixed-order Gauss-Legendre value of "
                              "the Hogg chain (criterion of the statement cannot be certified)" % OUTKEY[q],
                              {"kind": "failing-input", "entry": "cert", "case": case, "quantity": q,
                               "impl_output": res, "class": None}, found_input=True)
    # the kernel-checked lemmas (one per case and quantity); quick: the cases of every third chain case (all were already
    # evaluated with the verified checker above), thorough: all
    if ctx.quick():
        keep, seen = [], {}
        for t in good:
            k = json.dumps(t[0], sort_keys=True, default=str)
            if k not in seen:
                seen[k] = len(seen)
            if seen[k] % 3 == 0:
                keep.append(t)
        ctx.count("certificates_evaluated_only", len(good) - len(keep))
        good = keep
    res = core.coq_lemmas(os.path.join(ctx.work, "certlem"), pre, [(t[4], t[5]) for t in good], shard=400, tag="cert")
    nbad = 0
    for t, (ok, msg) in zip(good, res):
        if not ok:
            nbad += 1
            ctx.obligation("certificate lemma %s" % t[2], False, msg)
            if nbad == 1:
                ctx.violation("a certificate whose boolean check is true failed to compile as a lemma",
                              {"kind": "obligation", "entry": "cert", "case": t[0], "quantity": t[2], "msg": msg[-1500:]},
                              found_input=False)
    ctx.obligations.append(("%d per-case certificates within_truncation(out, Hogg definition with RInt, GL model) "
                            "[Cert.cert, vm_compute]" % (len(good) - nbad), True))
    ctx.count("certificates_proved", len(good) - nbad)


# ----------------------------------------------------------------------------------------------
# documented accuracy for concordance-like parameters (integral enclosures)
# ----------------------------------------------------------------------------------------------
INTEGRAL = "with (i_degree 10, i_fuel 200, i_relwidth 34)"

ACC_TAC = r"""
Ltac c11_E2pos := let z := fresh "z" in let Hz := fresh "Hz" in intros z Hz;
  unfold E2, cosmoR_of, q2R; cbn [cDH cflat com col cok qDH qflat qom qol qok fst snd];
  let A := fresh "A" in let B := fresh "B" in
  assert (A : 0 < (1 + z) ^ 3) by (apply pow_lt; lra); assert (B : 0 <= (1 + z) ^ 2) by (apply pow2_ge_0);
  generalize dependent ((1 + z) ^ 3); generalize dependent ((1 + z) ^ 2); intros; lra.
(* the comoving volume is stated against its DEFINITION (RInt of 4 pi dV) and rewritten to Hogg's closed form by the
   theorem C11_V_closed_form_derivative; its side conditions 0 <= z1 <= z2 and E^2 > 0 on [0,z2] are proved per case *)
Ltac c11_V := repeat match goal with |- context [V_def ?c ?a ?b] =>
  rewrite (C11_V_closed_form_derivative c a b) by (first [unfold q2R; cbn [fst snd]; lra | c11_E2pos]) end.
Ltac c11_unf := c11_V; unfold within_rel, distmod_def, log10, dV_def, Dl_def, Da_def, Dm_def, V_closed, Vcum_closed,
  Dc_def in *; rewrite ?Dm_of_def_flat, ?Vcum_of_flat by (unfold cosmoR_of, q2R; cbn; lra);
  rewrite ?I_def_same; unfold I_def, Einv_def, E2, cosmoR_of, q2R, FOUR_PI_G_OVER_C2;
  cbn [cDH cflat com col cok qDH qflat qom qol qok fst snd].
Ltac c11_ints := repeat match goal with |- context [RInt ?f ?a ?b] =>
  let H := fresh "H" in let I := fresh "I" in
  integral_intro (RInt f a b) """ + INTEGRAL + r""" as H; set (I := RInt f a b) in *; clearbody I end.
Ltac c11_fin := apply Rminus_le; interval.
"""


def accuracy_lemma(case, res):
    rep, o = res["rep"], res["out"]
    cq = "(cosmoR_of %s)" % c_cq(rep)
    z1, z2 = case["z1"], case["z2"]
    tol = "(1 / 10 ^ 6)" if z2 <= 1.0 else "(1 / 10 ^ 3)"
    Z1, Z2 = ("0" if z1 == 0 else "(q2R %s)" % cP(z1)), "(q2R %s)" % cP(z2)
    conj = []

    def add(q, ref):
        h = o[OUTKEY[q]]
        if fin(h) and hf(h) != 0.0:        # non-finite outputs were reported by run_certificates on the same results
            conj.append((q, "within_rel %s (q2R %s) (%s)" % (tol, cP(hf(h)), ref)))
    add("QInt", "I_def %s %s %s" % (cq, Z1, Z2))
    add("QDc", "Dc_def %s %s %s" % (cq, Z1, Z2))
    add("QDm", "Dm_def %s %s %s" % (cq, Z1, Z2))
    add("QDa", "Da_def %s %s %s" % (cq, Z1, Z2))
    add("QDl", "Dl_def %s %s %s" % (cq, Z1, Z2))
    add("QDistmod", "distmod_def %s %s" % (cq, Z2))
    add("QdV", "dV_def %s %s" % (cq, Z2))
    add("QV", "V_def %s %s %s" % (cq, Z1, Z2))
    if z1 > 0:
        add("QScinv", "FOUR_PI_G_OVER_C2 * Da_def %s %s %s * Da_def %s 0 %s / Da_def %s 0 %s" % (cq, Z1, Z2, cq, Z1, cq, Z2))
    return conj


def run_accuracy(ctx, results):
    """documented accuracy: flat, omega_m in [0.2,0.4]: 1e-6 relative for z <= 1, 1e-3 for z <= 5"""
    sel = []
    for case, res in results:
        if res[0] != "ok" or case.get("family") not in ("concordance", "hand", "corpus-concordance"):
            continue
        rep = res[1]["rep"]
        if not rep[2] or not (0.2 <= hf(rep[3]) <= 0.4):
            continue
        if case["z2"] - case["z1"] < 1e-3:
            continue
        if any(b.startswith("rep[") for b in nonfinite_outputs(res[1])):
            continue                          # reported as a failing input by run_certificates
        sel.append((case, res[1]))
    sel = sel[:ctx.n(14, 100)]
    lem, owner = [], []
    for case, res in sel:
        conj = accuracy_lemma(case, res)
        if not conj:
            continue
        st = " /\\ ".join("(%s)" % s for _, s in conj)
        pr = "c11_unf; c11_ints; repeat split; c11_fin."
        lem.append((st, pr))
        owner.append((case, res, conj))
    if not lem:
        return
    out = core.coq_lemmas(os.path.join(ctx.work, "acc"), PRE_ACC + ACC_TAC, lem, shard=3, tag="acc", timeout=900)
    # attribute the failed ones: one lemma per quantity, all in ONE parallel batch (also the fallback when a combined
    # lemma ran out of time on a loaded machine: the conjunction is proved as soon as every conjunct is)
    failed = [i for i, (ok, _m) in enumerate(out) if not ok]
    single_of = {}
    if failed:
        # at most 6 lemmas are attributed (a broken tree fails them all; on a correct tree none fails)
        flat = [(i, q, st) for i in failed[:6] for (q, st) in owner[i][2]]
        single = core.coq_lemmas(os.path.join(ctx.work, "acc1"), PRE_ACC + ACC_TAC,
                                 [(st, "c11_unf; c11_ints; c11_fin.") for _i, _q, st in flat], shard=4, tag="acc1", timeout=900)
        for (i, q, _st), (k, m) in zip(flat, single):
            single_of.setdefault(i, []).append((q, k, m))
    nok, reported = 0, set()
    for i, ((case, res, conj), (ok, msg)) in enumerate(zip(owner, out)):
        bad, msgs = [], []
        if not ok and i in single_of:
            bad = [q for q, k, _m in single_of[i] if not k]
            msgs = [m for _q, k, m in single_of[i] if not k]
            ok = not bad
            if ok:
                ctx.count("accuracy:proved-per-quantity-after-combined-lemma-failed")
        ctx.count("accuracy:%s:%s" % ("z<=1" if case["z2"] <= 1 else "z<=5", "ok" if ok else "FAILED"))
        if ok:
            nok += 1
            continue
        ctx.obligation("documented accuracy %r" % (case,), False, msgs[0] if msgs else msg)
        key = tuple(bad)
        if key in reported:
            continue
        reported.add(key)
        ctx.violation("documented accuracy (1e-6 at z<=1, 1e-3 at z<=5, concordance-like) not certified for %s" % (bad or "?"),
                      {"kind": "failing-input", "entry": "accuracy", "case": case, "impl_output": res, "quantities": bad,
                       "msg": (msgs[0] if msgs else msg)[-1200:], "class": None}, found_input=True)
    ctx.obligations.append(("%d per-case documented-accuracy lemmas (integral enclosures of RInt, interval)" % nok, True))
    ctx.count("accuracy_lemmas_proved", nok)


# ----------------------------------------------------------------------------------------------
# per-run obligations on the regenerated constants and on the tables
# ----------------------------------------------------------------------------------------------
PRE_F = ("From Coq Require Import ZArith List PrimFloat.\nFrom EsVerif.Common Require Import Base.\n"
         "From EsVerif.C11 Require Import Gen Model ModelF ProofsL.\n")
# cosmolib.c translated statement by statement (Gen.<name>_src) = the hand-written binary64 model (ModelF)
LEM_F = [
    ("cosmolib.c ez_inverse as translated = ModelF.ez_inverseF",
     "forall c z, ez_inverse_src (fflat c) (fom c) (fol c) (fok c) z = ez_inverseF c z",
     "intros; unfold ez_inverse_src, ez_inverseF; destruct (fflat c); reflexivity."),
    ("cosmolib.c ez_inverse_integral (loop over the NPTS table) and Dc as translated = ModelF.ezinv_integralF / DcF",
     "(forall c a b, ez_inverse_integral_src (fx c) (fw c) (ez_inverseF c) a b = ezinv_integralF c a b) /\\ "
     "(forall c a b, Dc_src (fDH c) (ezinv_integralF c) a b = DcF c a b)", "split; reflexivity."),
    ("cosmolib.c Dm (flat / sinh / sin branches) as translated = ModelF.DmF, libm value supplied by the oracle",
     "forall libm c a b s, (fflat c = true \\/ ask libm (DcF c a b * tcfacF c)%float = Some s) -> "
     "DmF libm c a b = Some (Dm_src (fflat c) (fok c) (tcfacF c) (DcF c) (fun _ => s) (fun _ => s) a b)",
     "intros libm c a b s H; unfold DmF, Dm_src; destruct (fflat c); [reflexivity|]; destruct H as [H|H]; [discriminate|]; "
     "rewrite H; cbn; destruct (PrimFloat.ltb _ (fok c)); reflexivity."),
    ("cosmolib.c Da, Dl as translated = ModelF.DaF / DlF",
     "forall libm c a b, DaF libm c a b = option_map (fun d => Da_src (fun _ _ => d) a b) (DmF libm c a b) /\\ "
     "DlF libm c a b = option_map (fun d => Dl_src (fun _ _ => d) a b) (DmF libm c a b)", "split; reflexivity."),
    ("cosmolib.c dV as translated = ModelF.dVF",
     "forall libm c z, dVF libm c z = option_map (fun da => dV_src (fDH c) (fun _ _ => da) (ez_inverseF c) z) (DaF libm c 0 z)",
     "intros; unfold dVF; destruct (DaF libm c 0 z); reflexivity."),
    ("cosmolib.c scinv (guard zs <= zl, three Da calls, constant) as translated = ModelF.scinvF",
     "forall libm c zl zs, let F := fun a b => match DaF libm c a b with Some v => v | None => 0%float end in "
     "(PrimFloat.leb zs zl = true \\/ (DaF libm c 0 zl <> None /\\ DaF libm c 0 zs <> None /\\ DaF libm c zl zs <> None)) -> "
     "scinvF libm c zl zs = Some (scinv_src F zl zs)",
     "intros libm c zl zs F H; unfold scinvF, scinv_src, F; destruct (PrimFloat.leb zs zl); [reflexivity|]; "
     "destruct H as [H|(H1 & H2 & H3)]; [discriminate|]; "
     "destruct (DaF libm c 0 zl), (DaF libm c 0 zs), (DaF libm c zl zs); try congruence; reflexivity."),
    ("cosmolib.c cosmo_new's curvature factor as translated = ModelF.tcfacF",
     "forall c, tcfac_src (fflat c) (fDH c) (fok c) = tcfacF c",
     "intros; unfold tcfac_src, tcfacF; destruct (fflat c); cbn; [reflexivity|destruct (PrimFloat.ltb _ (fok c)); reflexivity]."),
    ("cosmolib.c V (loop over the VNPTS table, 4 pi) as translated = ModelF.VF",
     "forall libm c a b r, VF libm c a b = Some r -> "
     "r = V_src (fvx c) (fvw c) (fun z => match dVF libm c z with Some d => d | None => 0%float end) a b",
     "intros libm c a b r H; unfold VF in H; destruct (gl_sumF_opt _ _ _ _ _) as [v|] eqn:G; [|discriminate]; cbn in H; "
     "inversion H; subst r; unfold gl_sumF_opt in G; apply fold_opt_unwrap in G; unfold V_src; cbv zeta; rewrite G; reflexivity."),
]


def run_constants(ctx):
    lem = [
        ("documented quadrature orders: NPTS = 5 /\\ VNPTS = 10", "NPTS = 5%nat /\\ VNPTS = 10%nat", "split; reflexivity."),
        ("speed of light of cosmology.py is c in km/s", "PY_CLIGHT_R = CLIGHT_KMS", "unfold PY_CLIGHT_R, CLIGHT_KMS; lra."),
        ("FOUR_PI_G_OVER_C_SQUARED is the documented constant", "FOUR_PI_G_OVER_C_SQUARED_R = FOUR_PI_G_OVER_C2",
         "unfold FOUR_PI_G_OVER_C_SQUARED_R, FOUR_PI_G_OVER_C2; simpl; lra."),
        ("H0 = 100 h", "H_SCALE_R = 100", "unfold H_SCALE_R; lra."),
        ("documented defaults H0 = 100, flat, omega_m = 0.3",
         "DEFAULT_H0_R = 100 /\\ DEFAULT_FLAT = true /\\ DEFAULT_OMEGA_M_R = 3 / 10",
         "unfold DEFAULT_H0_R, DEFAULT_OMEGA_M_R; repeat split; try reflexivity; lra."),
        ("M_PI is pi to 1e-15", "Rabs (M_PI_R - PI) <= 1 / 10 ^ 15", "unfold M_PI_R; interval with (i_prec 80)."),
        ("gauleg's EPS is at most 1e-9", "GAULEG_EPS_R <= 1 / 10 ^ 9", "unfold GAULEG_EPS_R; lra."),
        ("Cosmo.extract_parms as translated from cosmology.py = Model.extract_parms (all number types, all inputs)",
         "forall (num : Type) (zero one : num) (sub : num -> num -> num) (is_zero : num -> bool) om ol ok flat, "
         "@extract_parms_src num zero one sub is_zero om ol ok flat = "
         "(let '(f, a, b, k) := @extract_parms num zero one sub is_zero om ol ok flat in (f, a, b, Some k))",
         "intros; unfold extract_parms_src, extract_parms; destruct ok as [k|]; [destruct (is_zero k)|]; destruct flat; reflexivity."),
        ("Cosmo.copy/__copy__/__deepcopy__ as translated from cosmology.py = Model.stored_args",
         "forall (num : Type) (o : @cosmo_obj num), (let a := stored_args o in (a_H0 a, a_h a, a_flat a, a_om a, a_ol a, a_ok a)) "
         "= copy_args_src (s_H0 o) (s_flat o) (s_om o) (s_ol o) (s_ok o)", "intros; reflexivity."),
        ("dispatch of Dc/Dm/Da/Dl/sigmacritinv as translated from cosmology.py = the entry point Model.dispatch2 takes "
         "(scalar, _vec1, _vec2, _2vec, ValueError), for every argument shape",
         "forall (A B : Type) (f : A -> A -> B) (a b : zarg A), "
         + " /\\ ".join("dispatch_src_%s (is_sc a) (is_sc b) (negb (Nat.eqb (arg_len a) (arg_len b))) = code_of f a b" % m
                         for m in ("Dc", "Dm", "Da", "Dl", "sigmacritinv")),
         "intros A B f [x|xs] [y|ys]; unfold code_of, dispatch2, dispatch_src_Dc, dispatch_src_Dm, dispatch_src_Da, "
         "dispatch_src_Dl, dispatch_src_sigmacritinv; cbn [is_sc arg_len andb negb]; "
         "try destruct (Nat.eqb (length xs) (length ys)); repeat split; reflexivity."),
        ("C wrappers of cosmolib_pywrap.c as translated (callee, argument order, arg[i] / arg reads, loop size) = the wrappers "
         "Model.W_vec1 / W_vec2 / W_2vec for which the loops are proved element-wise (C11_vector_loops_are_elementwise)",
         "wrapper_of WRAP_Dc_vec1 = (1%nat, true, W_vec1) /\\ wrapper_of WRAP_Dc_vec2 = (1%nat, true, W_vec2) /\\ wrapper_of WRAP_Dc_2vec = (1%nat, true, W_2vec) /\\ SCALAR_Dc = (1%nat, true) /\\ wrapper_of WRAP_Dm_vec1 = (2%nat, true, W_vec1) /\\ wrapper_of WRAP_Dm_vec2 = (2%nat, true, W_vec2) /\\ wrapper_of WRAP_Dm_2vec = (2%nat, true, W_2vec) /\\ SCALAR_Dm = (2%nat, true) /\\ wrapper_of WRAP_Da_vec1 = (3%nat, true, W_vec1) /\\ wrapper_of WRAP_Da_vec2 = (3%nat, true, W_vec2) /\\ wrapper_of WRAP_Da_2vec = (3%nat, true, W_2vec) /\\ SCALAR_Da = (3%nat, true) /\\ wrapper_of WRAP_Dl_vec1 = (4%nat, true, W_vec1) /\\ wrapper_of WRAP_Dl_vec2 = (4%nat, true, W_vec2) /\\ wrapper_of WRAP_Dl_2vec = (4%nat, true, W_2vec) /\\ SCALAR_Dl = (4%nat, true) /\\ wrapper_of WRAP_scinv_vec1 = (7%nat, true, W_vec1) /\\ wrapper_of WRAP_scinv_vec2 = (7%nat, true, W_vec2) /\\ wrapper_of WRAP_scinv_2vec = (7%nat, true, W_2vec) /\\ SCALAR_scinv = (7%nat, true) /\\ WRAP1_ez_inverse_vec = (0%nat, true) /\\ SCALAR_ez_inverse = (0%nat, true) /\\ WRAP1_dV_vec = (5%nat, true) /\\ SCALAR_dV = (5%nat, true) /\\ SCALAR_V = (6%nat, true) /\\ SCALAR_ez_inverse_integral = (8%nat, true)",
         "repeat split; reflexivity."),
        ("Cosmo._pars/__reduce__ as translated from cosmology.py = Model.reduce_args",
         "forall (num : Type) (o : @cosmo_obj num), (let a := reduce_args o in (a_H0 a, a_h a, a_flat a, a_om a, a_ol a, a_ok a)) "
         "= reduce_args_src (s_H0 o) (c_flat o) (c_om o) (c_ol o) (c_ok o)", "intros; reflexivity."),
    ]
    out = core.coq_lemmas(os.path.join(ctx.work, "const"), PRE_ACC + "From EsVerif.C11 Require Import ModelF Exec ProofsL.\n",
                          [(s, p) for _, s, p in lem], shard=8, tag="const")
    out += core.coq_lemmas(os.path.join(ctx.work, "constF"), PRE_F, [(s, p) for _, s, p in LEM_F], shard=8, tag="constF")
    lem = lem + LEM_F
    allok = all(ok for ok, _m in out)
    for (name, s, _p), (ok, msg) in zip(lem, out):
        ctx.obligation("Gen: " + name, ok, msg)
        if not ok:
            ctx.violation("a constant / function regenerated from the sources no longer matches the documented or modelled one: " + name,
                          {"kind": "gen-obligation", "statement": s, "msg": msg[-800:],
                           "no_longer_checks": "Gen obligation: " + name}, found_input=False)
    return allok


def run_tables(ctx):
    p = port()
    cosv = c_oracle(p.cos_calls)
    terms = ["v_tables %s %s %s %s %s" % (cosv, cFl(p.x), cFl(p.w), cFl(p.vx), cFl(p.vw)),
             "if moments_ok_b %s %s (5 # 10000000000)%%Q then 0 else 2" % (cQl(p.x), cQl(p.w)),
             "if moments_ok_b %s %s (5 # 10000000000)%%Q then 0 else 2" % (cQl(p.vx), cQl(p.vw))]
    names = ["gauleg tables: bit-exact PrimFloat model = float port (NPTS and VNPTS)",
             "NPTS-point table: |sum w x^k - int x^k| <= 5e-10 for k < 2 NPTS (exact rational arithmetic)",
             "VNPTS-point table: |sum w x^k - int x^k| <= 5e-10 for k < 2 VNPTS (exact rational arithmetic)"]
    try:
        vals = core.coq_eval(os.path.join(ctx.work, "tables"), PRE, terms, tag="tables")
    except core.CoqEvalError as e:
        vals = None
        ctx.violation("table certificates do not evaluate", {"kind": "case-file", "error": str(e)[-2000:]}, found_input=False)
    if vals is not None:
        for n, v in zip(names, vals):
            ok = v.strip("() ").replace("%Z", "") == "0"
            ctx.obligation(n, ok)
            if not ok:
                ctx.violation("Gauss-Legendre table certificate failed: " + n,
                              {"kind": "table", "x": p.x, "w": p.w, "vx": p.vx, "vw": p.vw,
                               "no_longer_checks": n}, found_input=False)
    # mirror symmetry over R, hence antisymmetry of Dc for the tables actually used
    lem = [("forall c a b, (Dc_GL (map q2R X5) (map q2R W5) c a b = - Dc_GL (map q2R X5) (map q2R W5) c b a)%R",
            "intros; apply C11_Dc_antisymmetric, mirror_check_sound; vm_compute; reflexivity."),
           ("mirror (map q2R X10) (map q2R W10)", "apply mirror_check_sound; vm_compute; reflexivity.")]
    out = core.coq_lemmas(os.path.join(ctx.work, "mirror"), PRE_CERT + tables_defs(p), lem, shard=4, tag="mirror")
    for (s, _), (ok, msg), n in zip(lem, out, ["Dc(a,b) = -Dc(b,a) over R for the NPTS table actually computed (mirror-symmetric)",
                                              "the VNPTS table actually computed is mirror-symmetric"]):
        ctx.obligation(n, ok, msg)
        if not ok:
            ctx.violation("table symmetry obligation failed: " + n, {"kind": "table", "statement": s, "msg": msg[-800:],
                                                                      "no_longer_checks": n}, found_input=False)
    return cosv


TRUSTED = [
    "Coq 8.16.1 kernel (coqc, vm_compute; no native_compute). Axioms: the Coq.Reals axioms (ClassicalDedekindReals.sig_forall_dec, "
    "sig_not_dec), FunctionalExtensionality.functional_extensionality_dep, Classical_Prop.classic; through the Interval library's "
    "BigZ arithmetic the Uint63 specification axioms and PrimInt63 primitives; the per-case documented-accuracy lemmas "
    "(integral/interval tactics with native floats) additionally the FloatAxioms.* specifications of PrimFloat",
    "hand-written models C11/Model.v (R, discrete) and C11/ModelF.v (binary64) of cosmolib.c / cosmolib_pywrap.c / cosmology.py; "
    "tied to the working tree by the bit-exact correspondence run and by Gen.v regenerated from the sources on every run by "
    "harness/props/c11_translate.py (regex / ast, fail-closed): NPTS, VNPTS, constants, defaults, and Cosmo.extract_parms / copy / "
    "_pars translated statement by statement, each proved equal to the hand model by a per-run lemma",
    "measured, not modelled: libm cos (Newton start values of gauleg), sinh, sin (curved universes) enter the binary64 model as oracle "
    "tables measured through CPython's math module on the same libm; numpy.log10 of distmod only through the R certificate; "
    "IEEE rounding of the formula chain is not bounded a priori but certified per sampled case (|out - R model| <= 1e-12 |out|)",
    "modelled, not verified: numpy.isscalar / asarray(dtype f8, order C) / atleast_1d conversions, PyArg_ParseTuple('d'), "
    "pickle and copy protocols of CPython (the harness drives the real ones)",
    "sequence entry: os.fork of a pristine zygote process gives every step list (and every reference call) module state of its own; "
    "CPython's allocator decides whether a dropped object's address is reused (churn template: observed, not guaranteed)",
    "python harness (harness/props/C11.py: generators, float port used only to produce oracle tables and table literals, "
    "literal printers binary64 -> hex float / exact integer fraction), coqc evaluating Exec.v verdicts and Cert.check",
]


def run(ctx, replay=None):
    ctx.rule = ("corpus + adversarial families (flat/open/closed/free omega_l/concordance; omega_m in (0,1.5], omega_k in [-0.5,0.5], "
                "H0 in [30,120] or h; z pairs from 0, equal, 1e-9..1e-3 apart, z<=1, up to 5, random) + seeded random; cosmologies with "
                "E(z)^2 < 0.05 somewhere on [0,5] or (closed) z=5 beyond u=2.6 are outside the domain of the definitions and resampled "
                "(counted). Every case runs on the real esutil and in Coq. non-trivial: zmax > zmin > 0, or an array argument, or a "
                "non-flat universe (params: a clone operation or omega_k given non-zero). distinct by canonical JSON. sequence entry: step lists "
                "(constructions with colliding parameters in both orders, clones before/after other constructions, drops and "
                "re-creations, interleaved calls, the same array object passed again after an in-place change) executed in a child forked "
                "from a pristine process; every reported tuple against the history-free model, every call against the same call made alone.")
    ctx.trusted = TRUSTED
    # 0. regenerate Gen.v from the working tree
    try:
        changed, _txt = c11_translate.regenerate(ctx.impl, GEN_PATH)
        ctx.obligation("Gen.v regenerated from cosmolib.h / cosmolib.c / cosmology.py", True)
        if changed:
            ctx.notes.append("Gen.v changed: constants of the sources differ from the last build; C11 is rebuilt")
    except Exception as e:  # noqa
        ctx.obligation("Gen.v regenerated from cosmolib.h / cosmolib.c / cosmology.py", False, str(e))
        ctx.violation("translator failed (fail-closed): %s" % e, {"kind": "translate", "error": str(e),
                                                                    "no_longer_checks": "tie Gen.v <-> sources"}, found_input=False)
        # no masking: the correspondence and the checkers still run, against the LAST GOOD generated model (Gen.v.good is
        # written by every run whose Gen obligations all hold), so that a failing input is searched for and reported as well
        good = GEN_PATH + ".good"
        if os.path.exists(good) and open(good).read() != (open(GEN_PATH).read() if os.path.exists(GEN_PATH) else None):
            with open(GEN_PATH, "w") as f:
                f.write(open(good).read())
            ctx.notes.append("Gen.v restored from Gen.v.good after the translation failure")
        c11_translate.VALUES.clear()
        c11_translate.VALUES.update({'NPTS': 5, 'VNPTS': 10, 'C_CLIGHT': 299792.458,
                                     'FOUR_PI_G_OVER_C_SQUARED': 6.0150504541630152e-07, 'M_PI': math.pi, 'GAULEG_EPS': 4e-11,
                                     'PY_CLIGHT': 299792.458, 'DEFAULT_H0': 100.0, 'DEFAULT_FLAT': True,
                                     'DEFAULT_OMEGA_M': 0.3, 'DEFAULT_OMEGA_L': 0.7, 'H_SCALE': 100.0})
    K = dict(c11_translate.VALUES)
    _STATE["K"] = K
    _STATE["port"] = Port(K)
    # 1. proofs
    t0 = time.time()

    def lap(name):
        nonlocal t0
        ctx.count("wall_s:" + name, round(time.time() - t0, 1))
        t0 = time.time()
    allow = core.ALLOW_DISCRETE + core.ALLOW_REALS + core.ALLOW_INTERVAL + core.ALLOW_FLOAT
    if not core.proof_step(ctx, PID, allow, extra_targets=["theories/C11/Cert.vo"]):
        # no masking: a regenerated Gen.v that does not build (reported above) must not stop the dynamic side; fall back to
        # the last good generated model and go on
        good = GEN_PATH + ".good"
        if not (os.path.exists(good) and open(good).read() != open(GEN_PATH).read()):
            return
        with open(GEN_PATH, "w") as f:
            f.write(open(good).read())
        ctx.notes.append("Gen.v did not build; restored from Gen.v.good for the dynamic checks")
        if not core.proof_step(ctx, PID, allow, extra_targets=["theories/C11/Cert.vo"]):
            return
    lap("proof_step")
    chain = Chain()
    sequence = Sequence()
    entries = [Params(), chain, Dispatch(), sequence]
    if replay is not None:
        ent = replay.get("entry")
        if ent in ("cert", "accuracy"):
            res = chain.impl(replay["case"])
            ctx.case(["chain", replay["case"]], True, "replay")
            cosv = c_oracle(port().cos_calls)
            if ent == "cert":
                run_certificates(ctx, [(replay["case"], res)])
            else:
                c = dict(replay["case"], family="concordance")
                run_accuracy(ctx, [(c, res)])
            return
    else:
        # 2. constants and tables
        if run_constants(ctx) and not any(v["what"].startswith("translator failed") for v in ctx.violations):
            txt = open(GEN_PATH).read()
            if not os.path.exists(GEN_PATH + ".good") or open(GEN_PATH + ".good").read() != txt:
                with open(GEN_PATH + ".good", "w") as f:
                    f.write(txt)
        lap("constants")
    cosv = run_tables(ctx)
    lap("tables")
    pre = PRE + "Definition cosv : oracle := %s.\n" % cosv
    # 3. differential entries
    try:
        differential(ctx, pre, entries, replay)
    finally:
        if sequence.server is not None:
            sequence.server.close()
    if replay is not None:
        return
    # 4. / 5. certificates
    t0 = time.time()
    run_certificates(ctx, chain.results)
    lap("certificates")
    run_accuracy(ctx, chain.results)
    lap("accuracy")

"""T-const / T-expr translator for property C18 (DESIGN.md 4.1):
    <tree under check>/esutil/stat/util.py   ->   coq/theories/C18/Gen.v

Reads the source of wmom, wmedian, sigma_clip, _get_sigma_clip_stats, interplin, get_stats, cov2cor,
cor2cov and boxcar_average with python's `ast` and prints, as Gallina definitions over exact
rationals / integers,
  * the keyword defaults (niter, nsig of sigma_clip; calcerr, sdev, inputmean of wmom; the keywords
    get_stats and _get_sigma_clip_stats pass on),
  * the elementwise formulas under the numpy reductions of wmom (mean, calcerr error, default error,
    deviation), with every `sqrt` removed by squaring the returned quantity,
  * the decisions: the clip comparison of sigma_clip, its round count and stop tests, the loop
    test / initial value / update of wmedian, the index arithmetic and clamps of interplin and its
    interpolation formula, the diagonal test and the entry formulas of cov2cor / cor2cov, the
    window weight and slice offset of boxcar_average.
C18/GenProofs.v proves that the hand-written model (Model.v) IS these definitions; a change of a
constant, an operator or a formula in the source therefore changes Gen.v and the tie theorems are
re-checked against the new text.  Everything that does not have exactly the expected shape raises
TranslateError (fail closed): the run reports a broken tie.  The file is rewritten only when its
text changes (atomic rename).
"""
import ast
import os
from fractions import Fraction

SRC_REL = os.path.join("esutil", "stat", "util.py")
GEN_REL = os.path.join("theories", "C18", "Gen.v")


class TranslateError(Exception):
    pass


def need(cond, what):
    if not cond:
        raise TranslateError("esutil/stat/util.py no longer has the expected shape: " + what)


def up(node):
    return ast.unparse(node)


def func(tree, name):
    fs = [n for n in tree.body if isinstance(n, ast.FunctionDef) and n.name == name]
    need(len(fs) == 1, "exactly one top-level def %s (found %d)" % (name, len(fs)))
    return fs[0]


def defaults(fn):
    """positional-or-keyword arguments with defaults -> {name: ast node of the default}"""
    a = fn.args
    pos = a.args
    ds = a.defaults
    out = {}
    for arg, d in zip(pos[len(pos) - len(ds):], ds):
        out[arg.arg] = d
    for arg, d in zip(a.kwonlyargs, a.kw_defaults):
        if d is not None:
            out[arg.arg] = d
    return out


def const(node, types):
    need(isinstance(node, ast.Constant) and type(node.value) in types, "literal of type %s, got %s" % (
        "/".join(t.__name__ for t in types), up(node)))
    return node.value


def qlit(v):
    need(type(v) in (int, float), "numeric literal, got %r" % (v,))
    f = Fraction(v)
    if f.denominator == 1:
        return "%d" % f.numerator if f.numerator >= 0 else "(-%d)" % -f.numerator
    return "(%d # %d)" % (f.numerator, f.denominator)


def zlit(v):
    need(type(v) is int, "integer literal, got %r" % (v,))
    return "%d" % v if v >= 0 else "(-%d)" % -v


def cbool(v):
    need(type(v) is bool, "boolean literal, got %r" % (v,))
    return "true" if v else "false"


def is_sqrt(node):
    """np.sqrt(E) / sqrt(E) -> E, else None"""
    if isinstance(node, ast.Call) and len(node.args) == 1 and not node.keywords:
        f = node.func
        if (isinstance(f, ast.Name) and f.id == "sqrt") or \
           (isinstance(f, ast.Attribute) and f.attr == "sqrt" and isinstance(f.value, ast.Name) and f.value.id == "np"):
            return node.args[0]
    return None


def is_abs(node):
    if isinstance(node, ast.Call) and len(node.args) == 1 and not node.keywords:
        f = node.func
        if (isinstance(f, ast.Name) and f.id == "abs") or \
           (isinstance(f, ast.Attribute) and f.attr == "abs" and isinstance(f.value, ast.Name) and f.value.id == "np"):
            return node.args[0]
    return None


def alloc_f64(node, shape_of, what):
    """zeros(<shape_of>.shape) / np.zeros(<shape_of>.shape[, dtype=<float64 spelling>]): a float64 result array
    whose dtype does not depend on the dtype of the input"""
    ok = (isinstance(node, ast.Call) and up(node.func) in ("zeros", "np.zeros", "numpy.zeros")
          and len(node.args) == 1 and up(node.args[0]) == shape_of + ".shape"
          and all(k.arg == "dtype" and up(k.value) in ("'f8'", "'<f8'", "'float64'", "float", "np.float64", "numpy.float64")
                  for k in node.keywords))
    need(ok, "%s must allocate a float64 array independent of the input dtype (zeros(%s.shape)), got %s" % (what, shape_of, up(node)))
    return "true"


def cast_f64(stmts_text, wanted, what):
    need(wanted in stmts_text, "%s: `%s`" % (what, wanted))
    return "true"


ERRCLASS = {"ValueError": "EValue", "IndexError": "EIndex", "TypeError": "EType", "RuntimeError": "ERuntime"}


def raise_class(stmt, what):
    """`raise <Exc>(...)` -> the model's error class of <Exc>"""
    need(isinstance(stmt, ast.Raise) and isinstance(stmt.exc, ast.Call) and isinstance(stmt.exc.func, ast.Name),
         "%s: `raise <Exception>(...)`, got %s" % (what, up(stmt)))
    need(stmt.exc.func.id in ERRCLASS, "%s: exception class %s" % (what, stmt.exc.func.id))
    return ERRCLASS[stmt.exc.func.id]


SLOTS = {"wmean": "SMean", "werr": "SErr", "wsdev": "SStd", "m": "SMean", "e": "SErr", "s": "SStd",
         "mn": "SMean", "err": "SErr", "std": "SStd", "indices": "SIdx"}


def slots(names, what):
    for n in names:
        need(n in SLOTS, "%s: unknown result name %s" % (what, n))
    return "[" + "; ".join(SLOTS[n] for n in names) + "]"


def tuple_names(node, what):
    need(isinstance(node, (ast.Tuple, ast.List)) and all(isinstance(e, ast.Name) for e in node.elts), "%s: tuple of names, got %s" % (what, up(node)))
    return [e.id for e in node.elts]


class Tr:
    """expression translator over Q (kind='Q') or Z (kind='Z').  env maps the *unparsed text* of a
    sub-expression (a name, `x.size`, `cov[ix, iy]`, `weights[sind[k]]`) to a Gallina variable."""

    def __init__(self, env, kind="Q"):
        self.env = env
        self.kind = kind

    def lit(self, v):
        return qlit(v) if self.kind == "Q" else zlit(v)

    def __call__(self, n):
        key = up(n)
        if key in self.env:
            return self.env[key]
        if isinstance(n, ast.Constant):
            return self.lit(const(n, (int, float) if self.kind == "Q" else (int,)))
        if isinstance(n, ast.UnaryOp) and isinstance(n.op, ast.USub):
            return "(- %s)" % self(n.operand)
        if isinstance(n, ast.BinOp):
            if isinstance(n.op, ast.Pow):
                need(isinstance(n.right, ast.Constant) and n.right.value == 2 and type(n.right.value) is int,
                     "only the power 2 is translated: %s" % key)
                a = self(n.left)
                return "(%s * %s)" % (a, a)
            ops = {ast.Add: "+", ast.Sub: "-", ast.Mult: "*"}
            if self.kind == "Q":
                ops[ast.Div] = "/"
            need(type(n.op) in ops, "operator not translated in %s" % key)
            return "(%s %s %s)" % (self(n.left), ops[type(n.op)], self(n.right))
        if self.kind == "Q":
            a = is_abs(n)
            if a is not None:
                return "(Qabs %s)" % self(a)
        raise TranslateError("expression outside the translated subset: %s" % key)


def cmp_bool(op, a, b, kind):
    """boolean Gallina term for  a <op> b"""
    if kind == "Q":
        t = {ast.Lt: "Qlt_bool %s %s" % (a, b), ast.Gt: "Qlt_bool %s %s" % (b, a),
             ast.LtE: "Qle_bool %s %s" % (a, b), ast.GtE: "Qle_bool %s %s" % (b, a),
             ast.Eq: "Qeq_bool %s %s" % (a, b)}
    else:
        t = {ast.Lt: "(%s <? %s)%%Z" % (a, b), ast.Gt: "(%s <? %s)%%Z" % (b, a),
             ast.LtE: "(%s <=? %s)%%Z" % (a, b), ast.GtE: "(%s <=? %s)%%Z" % (b, a),
             ast.Eq: "(%s =? %s)%%Z" % (a, b)}
    need(type(op) in t, "comparison operator %s" % type(op).__name__)
    return t[type(op)]


def one_cmp(node, what):
    need(isinstance(node, ast.Compare) and len(node.ops) == 1 and len(node.comparators) == 1, "single comparison in " + what)
    return node.left, node.ops[0], node.comparators[0]


def assign1(stmt, what):
    """`name = value` -> (name, value)"""
    need(isinstance(stmt, ast.Assign) and len(stmt.targets) == 1, "assignment expected (%s), got %s" % (what, up(stmt)))
    return up(stmt.targets[0]), stmt.value


def strip_sum(node, what):
    """(E).sum(axis=0) -> E"""
    ok = (isinstance(node, ast.Call) and isinstance(node.func, ast.Attribute) and node.func.attr == "sum"
          and not node.args and len(node.keywords) == 1 and node.keywords[0].arg == "axis"
          and isinstance(node.keywords[0].value, ast.Constant) and node.keywords[0].value.value == 0)
    need(ok, "%s must be `(...).sum(axis=0)`, got %s" % (what, up(node)))
    return node.func.value


def body_no_doc(fn):
    b = list(fn.body)
    if b and isinstance(b[0], ast.Expr) and isinstance(b[0].value, ast.Constant) and isinstance(b[0].value.value, str):
        b = b[1:]
    return [s for s in b if not isinstance(s, (ast.Import, ast.ImportFrom))]


def find_if(stmts, test_text, what):
    hits = [s for s in stmts if isinstance(s, ast.If) and up(s.test) == test_text]
    need(len(hits) == 1, "exactly one `if %s:` in %s (found %d)" % (test_text, what, len(hits)))
    return hits[0]


# ----------------------------------------------------------------------------
def t_wmom(tree, D):
    fn = func(tree, "wmom")
    ds = defaults(fn)
    need(set(ds) >= {"inputmean", "calcerr", "sdev"}, "wmom keywords inputmean/calcerr/sdev")
    need(const(ds["inputmean"], (type(None),)) is None, "wmom inputmean default None")
    D.append(("gen_wmom_calcerr_default", "bool", cbool(const(ds["calcerr"], (bool,))), "def wmom(..., calcerr=%s" % up(ds["calcerr"])))
    D.append(("gen_wmom_sdev_default", "bool", cbool(const(ds["sdev"], (bool,))), "def wmom(..., sdev=%s" % up(ds["sdev"])))
    b = body_no_doc(fn)
    sh = [x for x in ast.walk(fn) if isinstance(x, ast.If) and up(x.test) == "weights.shape != arr.shape"]
    need(len(sh) == 1 and len(sh[0].body) == 1, "wmom: `if weights.shape != arr.shape: raise ...` for 1-d data")
    D.append(("gen_wmom_shape_error", "err", raise_class(sh[0].body[0], "wmom shape test"), "if weights.shape != arr.shape: raise " + up(sh[0].body[0].exc.func)))
    D.append(("gen_wmom_weights_f64", "bool", cast_f64([up(x) for x in b], "weights = np.atleast_1d(weights_in).astype(np.float64)",
                                                       "wmom weights forced to float64"), "weights = np.atleast_1d(weights_in).astype(np.float64)"))
    hits = [s for s in b if isinstance(s, ast.Assign) and up(s.targets[0]) == "wtot"]
    need(len(hits) == 1 and up(hits[0].value) == "weights.sum(axis=0)", "wtot = weights.sum(axis=0)")
    # mean
    im = find_if(b, "inputmean is None", "wmom")
    need(len(im.body) == 1, "one statement under `if inputmean is None`")
    nm, val = assign1(im.body[0], "wmean")
    need(nm == "wmean" and isinstance(val, ast.BinOp) and isinstance(val.op, ast.Div) and up(val.right) == "wtot",
         "wmean = (...).sum(axis=0) / wtot")
    e = strip_sum(val.left, "numerator of wmean")
    D.append(("gen_wmom_mean_term", "(w x : Q) : Q", Tr({"weights": "w", "arr": "x"})(e), up(im.body[0])))
    D.append(("gen_wmom_mean_fin", "(num wtot : Q) : Q", Tr({up(val.left): "num", "wtot": "wtot"})(val), up(im.body[0])))
    # supplied mean: scalar or [ndim] array (fixes/C18/0001); `float(inputmean)` alone rejects the array form
    et = [up(x) for x in im.orelse]
    need(et == ["wmean = np.asarray(inputmean, dtype=np.float64)", "if wmean.ndim == 0:\n    wmean = float(wmean)"],
         "else-branch of `if inputmean is None`: wmean = np.asarray(inputmean, dtype=np.float64); "
         "if wmean.ndim == 0: wmean = float(wmean)   (got %r)" % (et,))
    # error
    ce = find_if(b, "calcerr", "wmom")
    need(len(ce.body) == 2 and len(ce.orelse) >= 1, "two statements under `if calcerr`, an else branch")
    nm, val = assign1(ce.body[0], "werr2")
    need(nm == "werr2", "werr2 = ...")
    e = strip_sum(val, "werr2")
    D.append(("gen_wmom_err2_term", "(m w x : Q) : Q", Tr({"weights": "w", "arr": "x", "wmean": "m"})(e), up(ce.body[0])))
    nm, val = assign1(ce.body[1], "werr")
    need(nm == "werr" and isinstance(val, ast.BinOp) and isinstance(val.op, ast.Div) and is_sqrt(val.left) is not None,
         "werr = np.sqrt(werr2) / wtot")
    tr = Tr({"werr2": "werr2", "wtot": "wtot"})
    den = tr(val.right)
    D.append(("gen_wmom_err2_calc", "(werr2 wtot : Q) : Q", "(%s / (%s * %s))" % (tr(is_sqrt(val.left)), den, den),
              up(ce.body[1]) + "   (squared)"))
    nm, val = assign1(ce.orelse[0], "werr")
    need(nm == "werr" and isinstance(val, ast.BinOp) and isinstance(val.op, ast.Div) and is_sqrt(val.right) is not None,
         "werr = 1.0 / np.sqrt(wtot)")
    tr = Tr({"wtot": "wtot"})
    num = tr(val.left)
    D.append(("gen_wmom_err2_default", "(wtot : Q) : Q", "((%s * %s) / %s)" % (num, num, tr(is_sqrt(val.right))),
              up(ce.orelse[0]) + "   (squared)"))
    # deviation
    sd = find_if(b, "sdev", "wmom")
    need(len(sd.body) == 3 and len(sd.orelse) == 1, "three statements under `if sdev`, one under else")
    nm, val = assign1(sd.body[0], "wvar")
    need(nm == "wvar" and isinstance(val, ast.BinOp) and isinstance(val.op, ast.Div) and up(val.right) == "wtot",
         "wvar = (...).sum(axis=0) / wtot")
    e = strip_sum(val.left, "numerator of wvar")
    D.append(("gen_wmom_var_term", "(m w x : Q) : Q", Tr({"weights": "w", "arr": "x", "wmean": "m"})(e), up(sd.body[0])))
    D.append(("gen_wmom_var_fin", "(num wtot : Q) : Q", Tr({up(val.left): "num", "wtot": "wtot"})(val), up(sd.body[0])))
    nm, val = assign1(sd.body[1], "wsdev")
    need(nm == "wsdev" and is_sqrt(val) is not None and up(is_sqrt(val)) == "wvar", "wsdev = np.sqrt(wvar)")
    need(isinstance(sd.body[2], ast.Return) and isinstance(sd.orelse[0], ast.Return), "return ... / return ... under `if sdev`")
    D.append(("gen_wmom_return_sdev", "list slot", slots(tuple_names(sd.body[2].value, "wmom return"), "wmom return"), up(sd.body[2])))
    D.append(("gen_wmom_return", "list slot", slots(tuple_names(sd.orelse[0].value, "wmom return"), "wmom return"), up(sd.orelse[0])))


def t_wmedian(tree, D):
    fn = func(tree, "wmedian")
    b = body_no_doc(fn)
    txt = [up(s) for s in b]
    need("sind = arr.argsort()" in txt and "wtot = weights.sum()" in txt, "wmedian: sind = arr.argsort(); wtot = weights.sum()")
    D.append(("gen_wmedian_weights_f64", "bool", cast_f64(txt, "weights = np.atleast_1d(weights_in).astype(np.float64)",
                                                          "wmedian weights forced to float64"), "weights = np.atleast_1d(weights_in).astype(np.float64)"))
    asg = {up(s.targets[0]): s for s in b if isinstance(s, ast.Assign)}
    need("wtot2" in asg and "k" in asg and "sum" in asg, "wmedian assigns wtot2, k, sum")
    D.append(("gen_wm_half", "(wtot : Q) : Q", Tr({"wtot": "wtot"})(asg["wtot2"].value), up(asg["wtot2"])))
    k0 = const(asg["k"].value, (int,))
    need(k0 == 0, "k = 0")
    D.append(("gen_wm_init", "(wtot w0 : Q) : Q", Tr({"wtot": "wtot", "weights[sind[%d]]" % k0: "w0"})(asg["sum"].value),
              up(asg["sum"])))
    wh = [s for s in b if isinstance(s, ast.While)]
    need(len(wh) == 1 and not wh[0].orelse, "one while loop in wmedian")
    l, op, r = one_cmp(wh[0].test, "the wmedian loop test")
    tr = Tr({"sum": "sum", "wtot2": "wtot2"})
    D.append(("gen_wm_continue", "(sum wtot2 : Q) : bool", cmp_bool(op, tr(l), tr(r), "Q"), "while %s:" % up(wh[0].test)))
    need(len(wh[0].body) == 2 and up(wh[0].body[0]) == "k += 1", "loop body: k += 1; sum -= weights[sind[k]]")
    s2 = wh[0].body[1]
    need(isinstance(s2, ast.AugAssign) and up(s2.target) == "sum" and isinstance(s2.op, ast.Sub), "sum -= weights[sind[k]]")
    D.append(("gen_wm_step", "(sum wk : Q) : Q", "(sum - %s)" % Tr({"weights[sind[k]]": "wk"})(s2.value), up(s2)))
    need(up(b[-1]) == "return arr[sind[k]]", "return arr[sind[k]]")


def t_sigma_clip(tree, D):
    fn = func(tree, "sigma_clip")
    ds = defaults(fn)
    need("niter" in ds and "nsig" in ds, "sigma_clip keywords niter, nsig")
    D.append(("gen_sc_niter_default", "Z", zlit(const(ds["niter"], (int,))) + "%Z", "def sigma_clip(..., niter=%s" % up(ds["niter"])))
    D.append(("gen_sc_nsig_default", "Q", qlit(const(ds["nsig"], (int, float))), "def sigma_clip(..., nsig=%s" % up(ds["nsig"])))
    b = body_no_doc(fn)
    need("weights = np.atleast_1d(weights).astype(np.float64)" in up(fn), "sigma_clip weights forced to float64")
    nd_if = [x for x in b if isinstance(x, ast.If) and up(x.test).startswith("len(arr.shape)")]
    need(len(nd_if) == 1 and len(nd_if[0].body) == 1, "sigma_clip: one test on len(arr.shape)")
    l_, op_, r_ = one_cmp(nd_if[0].test, "sigma_clip dimension test")
    tzz = Tr({"len(arr.shape)": "ndim"}, "Z")
    D.append(("gen_sc_rejects_ndim", "(ndim : Z) : bool", cmp_bool(op_, tzz(l_), tzz(r_), "Z"), "if %s: raise" % up(nd_if[0].test)))
    D.append(("gen_sc_ndim_error", "err", raise_class(nd_if[0].body[0], "sigma_clip dimension test"), "raise " + up(nd_if[0].body[0].exc.func)))
    sz_if = [x for x in ast.walk(fn) if isinstance(x, ast.If) and "weights.size" in up(x.test)]
    need(len(sz_if) == 1 and len(sz_if[0].body) == 1, "sigma_clip: one test on weights.size")
    l_, op_, r_ = one_cmp(sz_if[0].test, "sigma_clip size test")
    need(isinstance(op_, ast.NotEq), "sigma_clip size test is `!=`")
    tzz = Tr({"weights.size": "wsize", "arr.size": "asize"}, "Z")
    D.append(("gen_sc_rejects_size", "(wsize asize : Z) : bool", "negb (%s =? %s)%%Z" % (tzz(l_), tzz(r_)), "if %s: raise" % up(sz_if[0].test)))
    D.append(("gen_sc_size_error", "err", raise_class(sz_if[0].body[0], "sigma_clip size test"), "raise " + up(sz_if[0].body[0].exc.func)))
    # res = []; res.append(m); res.append(s); if get_err: res.append(e); if get_indices: res.append(indices)
    order = []
    for st_ in b:
        for x in ([st_] if not isinstance(st_, ast.If) else st_.body):
            if isinstance(x, ast.Expr) and isinstance(x.value, ast.Call) and up(x.value.func) == "res.append" and len(x.value.args) == 1:
                need(isinstance(x.value.args[0], ast.Name), "res.append(<name>)")
                order.append((x.value.args[0].id, up(st_.test) if isinstance(st_, ast.If) else None))
    need([c for _, c in order] == [None, None, "get_err", "get_indices"], "sigma_clip appends mean, deviation, [error if get_err], [indices if get_indices]")
    D.append(("gen_sc_return_full", "list slot", slots([n for n, _ in order], "sigma_clip result"), "res.append(...) x4"))
    D.append(("gen_sigma_clip_weights_f64", "bool", "true", "weights = np.atleast_1d(weights).astype(np.float64)"))
    loops = [s for s in b if isinstance(s, ast.For)]
    need(len(loops) == 1 and not loops[0].orelse, "one for loop in sigma_clip")
    lp = loops[0]
    it = lp.iter
    need(isinstance(it, ast.Call) and up(it.func) == "range" and len(it.args) == 2 and not it.keywords, "for i in range(a, b)")
    trz = Tr({"niter": "niter"}, "Z")
    D.append(("gen_sc_rounds", "(niter : Z) : Z", "(%s - %s)%%Z" % (trz(it.args[1]), trz(it.args[0])), "for %s in %s:" % (up(lp.target), up(it))))
    # the statistics before the loop are those of all points
    pre = [up(s) for s in b[:b.index(lp)]]
    need("indices = np.arange(arr.size)" in pre and "nold = arr.size" in pre
         and "tarr, tweights = _get_sigma_clip_subset(arr, indices, weights=weights)" in [p.replace("(tarr, tweights)", "tarr, tweights") for p in pre]
         and "m, e, s = _get_sigma_clip_stats(tarr, weights=tweights)" in [p.replace("(m, e, s)", "m, e, s") for p in pre],
         "sigma_clip prologue (indices, nold, first subset and statistics)")
    body = [s for s in lp.body]
    # 1. the clip decision
    nm, val = assign1(body[0], "w")
    need(nm in ("(w,)", "w,") and isinstance(val, ast.Call) and up(val.func) == "np.where" and len(val.args) == 1,
         "(w,) = np.where(<comparison>)")
    l, op, r = one_cmp(val.args[0], "the clip comparison")
    tr = Tr({"tarr": "x", "m": "m", "nsig": "nsig", "s": "s"})
    D.append(("gen_clip_keep", "(nsig m s x : Q) : bool", cmp_bool(op, tr(l), tr(r), "Q"), up(body[0])))
    # 2. stop tests, in this order, each ending in break
    ifs = [s for s in body[1:] if isinstance(s, ast.If)]
    need(len(ifs) >= 2 and body[1] is ifs[0] and body[2] is ifs[1], "two stop tests directly after the clip decision")
    for k, (name, envk) in enumerate((("gen_sc_stop_empty", {"w.size": "kept"}), ("gen_sc_stop_same", {"w.size": "kept", "nold": "nold"}))):
        st = ifs[k]
        need(isinstance(st.body[-1], ast.Break) and not st.orelse, "stop test %d ends in break" % (k + 1))
        l, op, r = one_cmp(st.test, "stop test %d" % (k + 1))
        tz = Tr(envk, "Z")
        D.append((name, "(%s : Z) : bool" % " ".join(sorted(set(envk.values()))), cmp_bool(op, tz(l), tz(r), "Z"), "if %s: ... break" % up(st.test)))
    rest = [up(s).replace("(tarr, tweights)", "tarr, tweights").replace("(m, e, s)", "m, e, s") for s in body[3:]]
    need(rest[:4] == ["indices = indices[w]",
                      "tarr, tweights = _get_sigma_clip_subset(arr, indices, weights=weights)",
                      "nold = w.size",
                      "m, e, s = _get_sigma_clip_stats(tarr, weights=tweights)"],
         "loop tail: indices = indices[w]; subset; nold = w.size; statistics (got %r)" % rest[:4])
    # _get_sigma_clip_subset
    sub = func(tree, "_get_sigma_clip_subset")
    st = [up(s) for s in body_no_doc(sub)]
    need(st[0] == "tarr = arr[indices]" and "tweights = weights[indices]" in up(sub), "_get_sigma_clip_subset takes arr[indices], weights[indices]")
    # _get_sigma_clip_stats
    stf = func(tree, "_get_sigma_clip_stats")
    sb = body_no_doc(stf)
    need(len(sb) == 2 and isinstance(sb[0], ast.If) and up(sb[0].test) == "weights is not None" and up(sb[1]) == "return (m, e, s)",
         "_get_sigma_clip_stats: if weights is not None ... else ...; return m, e, s")
    wb, ub = sb[0].body, sb[0].orelse
    need(len(wb) == 1, "one statement in the weighted branch")
    nm, val = assign1(wb[0], "m, e, s")
    need(nm in ("(m, e, s)", "m, e, s") and isinstance(val, ast.Call) and up(val.func) == "wmom"
         and [up(a) for a in val.args] == ["arr", "weights"], "m, e, s = wmom(arr, weights, ...)")
    kws = {k.arg: k.value for k in val.keywords}
    need(set(kws) == {"calcerr", "sdev"}, "wmom(..., calcerr=, sdev=) in _get_sigma_clip_stats")
    D.append(("gen_scstats_unpack", "list slot", slots(tuple_names(wb[0].targets[0], "stats unpack"), "stats unpack"), up(wb[0])))
    need(isinstance(sb[1], ast.Return), "_get_sigma_clip_stats return")
    D.append(("gen_scstats_return", "list slot", slots(tuple_names(sb[1].value, "stats return"), "stats return"), up(sb[1])))
    D.append(("gen_scstats_calcerr", "bool", cbool(const(kws["calcerr"], (bool,))), up(wb[0])))
    D.append(("gen_scstats_sdev", "bool", cbool(const(kws["sdev"], (bool,))), up(wb[0])))
    ut = [up(s) for s in ub]
    need(ut[:2] == ["m = arr.mean()", "s = arr.std()"] and len(ub) == 3, "m = arr.mean(); s = arr.std(); e = ...")
    D.append(("gen_plain_err2", "(var n : Q) : Q", _std_over_sqrt_n(ub[2], "e", "s", "arr.shape[0]"), ut[2] + "   (squared; var = s^2)"))


def _std_over_sqrt_n(stmt, target, sname, ntext):
    """`target = sname / sqrt(ntext)`  ->  squared: (var / n)"""
    nm, val = assign1(stmt, target)
    need(nm == target and isinstance(val, ast.BinOp) and isinstance(val.op, ast.Div) and up(val.left) == sname
         and is_sqrt(val.right) is not None,
         "%s = %s / sqrt(<expression in %s>), got %s" % (target, sname, ntext, up(stmt)))
    return "(var / %s)" % Tr({ntext: "n"})(is_sqrt(val.right))


def t_interplin(tree, D):
    fn = func(tree, "interplin")
    b = body_no_doc(fn)
    txt = [up(s) for s in b]
    need(txt[:3] == ["v = np.atleast_1d(vin)", "x = np.atleast_1d(xin)", "u = np.atleast_1d(uin)"], "interplin prologue")
    nm, val = assign1(b[3], "xm")
    need(nm == "xm", "xm = x.searchsorted(u) - 1")
    envz = {"x.searchsorted(u)": "ss", "x.size": "n", "xm": "xm"}
    tz = Tr(envz, "Z")
    lines = ["let xm := %s in" % tz(val)]
    k = 4
    nclamp = 0
    while k + 1 < len(b) and isinstance(b[k], ast.Assign) and up(b[k].targets[0]) in ("(w,)", "w,"):
        w = b[k].value
        need(isinstance(w, ast.Call) and up(w.func) == "np.where" and len(w.args) == 1, "(w,) = np.where(<comparison>)")
        l, op, r = one_cmp(w.args[0], "an interplin clamp")
        st = b[k + 1]
        need(isinstance(st, ast.If) and up(st.test) == "w.size > 0" and len(st.body) == 1 and not st.orelse, "if w.size > 0: xm[w] = ...")
        nm2, v2 = assign1(st.body[0], "xm[w]")
        need(nm2 == "xm[w]", "xm[w] = ...")
        lines.append("let xm := if %s then %s else xm in" % (cmp_bool(op, tz(l), tz(r), "Z"), tz(v2)))
        nclamp += 1
        k += 2
    need(nclamp >= 1, "at least one clamp in interplin")
    need(up(b[k]) == "xmp1 = xm + 1" and k + 2 == len(b) and isinstance(b[k + 1], ast.Return), "xmp1 = xm + 1; return <formula>")
    D.append(("gen_interp_index", "(n ss : Z) : Z", "(" + " ".join(lines) + " xm)%Z", "; ".join(txt[3:k])))
    tr = Tr({"u": "u", "x[xm]": "x0", "x[xmp1]": "x1", "v[xm]": "v0", "v[xmp1]": "v1"})
    D.append(("gen_interp_formula", "(x0 v0 x1 v1 u : Q) : Q", tr(b[k + 1].value), up(b[k + 1])))
    D.append(("gen_interp_next", "(xm : Z) : Z", "(xm + 1)%Z", up(b[k])))


def t_get_stats(tree, D):
    fn = func(tree, "get_stats")
    b = body_no_doc(fn)
    txt = [up(s) for s in b]
    need("amin = arr.min(axis=0)" in txt and "amax = arr.max(axis=0)" in txt, "amin/amax = arr.min/max(axis=0)")
    D.append(("gen_get_stats_data_f64", "bool", cast_f64(txt, "arr = np.atleast_1d(arr_in).astype(np.float64)",
                                                         "get_stats data forced to float64"), "arr = np.atleast_1d(arr_in).astype(np.float64)"))
    sel = find_if(b, "'nsig' in kw or 'niter' in kw", "get_stats")
    need(up(sel.body[0]) == "do_sigma_clip = True" and up(sel.orelse[0]) == "do_sigma_clip = False", "do_sigma_clip selection")
    br = find_if(b, "do_sigma_clip", "get_stats")
    need([up(s).replace("(mn, std, err)", "mn, std, err") for s in br.body] ==
         ["kw['get_err'] = True", "mn, std, err = sigma_clip(arr, weights=weights, **kw)"], "clip branch of get_stats")
    need(len(br.orelse) == 1 and isinstance(br.orelse[0], ast.If) and up(br.orelse[0].test) == "weights is not None", "elif weights is not None")
    wb = br.orelse[0]
    wt = [up(s).replace("(mn, err, std)", "mn, err, std") for s in wb.body]
    need(len(wt) == 3 and wt[0].startswith("kw['sdev'] = ") and wt[2] == "mn, err, std = wmom(arr, weights, **kw)"
         and isinstance(wb.body[1], ast.If) and up(wb.body[1].test) == "'calcerr' not in kw" and len(wb.body[1].body) == 1,
         "weights branch of get_stats")
    D.append(("gen_gs_clip_unpack", "list slot", slots(tuple_names(br.body[1].targets[0], "get_stats clip unpack"), "get_stats clip unpack"), up(br.body[1])))
    D.append(("gen_gs_wmom_unpack", "list slot", slots(tuple_names(wb.body[2].targets[0], "get_stats wmom unpack"), "get_stats wmom unpack"), up(wb.body[2])))
    D.append(("gen_gs_sdev", "bool", cbool(const(wb.body[0].value, (bool,))), wt[0]))
    nm, val = assign1(wb.body[1].body[0], "kw['calcerr']")
    need(nm == "kw['calcerr']", "kw['calcerr'] = ...")
    D.append(("gen_gs_calcerr", "bool", cbool(const(val, (bool,))), up(wb.body[1])))
    ub = wb.orelse
    ut = [up(s) for s in ub]
    need(len(ub) == 3 and ut[:2] == ["mn = arr.mean(axis=0)", "std = arr.std(axis=0)"], "plain branch of get_stats")
    D.append(("gen_gs_plain_err2", "(var n : Q) : Q", _std_over_sqrt_n(ub[2], "err", "std", "arr.shape[0]"), ut[2] + "   (squared; var = std^2)"))


def t_cov(tree, D):
    fn = func(tree, "cov2cor")
    al = [s for s in body_no_doc(fn) if isinstance(s, ast.Assign) and up(s.targets[0]) == "cor"]
    need(len(al) == 1, "exactly one `cor = ...` allocation in cov2cor")
    D.append(("gen_cov2cor_result_f64", "bool", alloc_f64(al[0].value, "cov", "cov2cor result"), up(al[0])))
    fx = [s for s in body_no_doc(fn) if isinstance(s, ast.For)]
    need(len(fx) == 1 and up(fx[0].iter) == "range(cov.shape[0])" and up(fx[0].target) == "ix", "for ix in range(cov.shape[0])")
    bx = fx[0].body
    need(up(bx[0]) == "cxx = cov[ix, ix]" and isinstance(bx[1], ast.If) and isinstance(bx[1].body[0], ast.Raise)
         and up(bx[1].body[0].exc.func) == "ValueError", "cxx = cov[ix, ix]; if <test>: raise ValueError")
    l, op, r = one_cmp(bx[1].test, "the diagonal test of cov2cor")
    tr = Tr({"cxx": "c"})
    D.append(("gen_cov_diag_error", "err", raise_class(bx[1].body[0], "cov2cor diagonal test"), "raise " + up(bx[1].body[0].exc.func)))
    D.append(("gen_cov_diag_bad", "(c : Q) : bool", cmp_bool(op, tr(l), tr(r), "Q"), "if %s: raise ValueError" % up(bx[1].test)))
    need(isinstance(bx[2], ast.For) and up(bx[2].iter) == "range(cov.shape[1])" and up(bx[2].target) == "iy", "for iy in range(cov.shape[1])")
    by = bx[2].body
    need(up(by[0]) == "cyy = cov[iy, iy]" and isinstance(by[1], ast.If) and up(by[1].test) == up(bx[1].test).replace("cxx", "cyy")
         and isinstance(by[1].body[0], ast.Raise), "cyy = cov[iy, iy]; same test")
    nm, val = assign1(by[2], "cor[ix, iy]")
    need(nm == "cor[ix, iy]" and isinstance(val, ast.BinOp) and isinstance(val.op, ast.Div) and is_sqrt(val.right) is not None,
         "cor[ix, iy] = <num> / sqrt(<den2>)")
    tr = Tr({"cov[ix, iy]": "cij", "cxx": "cxx", "cyy": "cyy"})
    D.append(("gen_cor_num", "(cij cxx cyy : Q) : Q", tr(val.left), up(by[2])))
    D.append(("gen_cor_den2", "(cij cxx cyy : Q) : Q", tr(is_sqrt(val.right)), up(by[2])))
    fn = func(tree, "cor2cov")
    al = [s for s in body_no_doc(fn) if isinstance(s, ast.Assign) and up(s.targets[0]) == "cov"]
    need(len(al) == 1, "exactly one `cov = ...` allocation in cor2cov")
    D.append(("gen_cor2cov_result_f64", "bool", alloc_f64(al[0].value, "cor", "cor2cov result"), up(al[0])))
    fx = [s for s in body_no_doc(fn) if isinstance(s, ast.For)]
    need(len(fx) == 1 and up(fx[0].iter) == "range(diagerr.shape[0])" and up(fx[0].target) == "ix"
         and len(fx[0].body) == 1 and isinstance(fx[0].body[0], ast.For) and up(fx[0].body[0].iter) == "range(diagerr.shape[0])"
         and up(fx[0].body[0].target) == "iy" and len(fx[0].body[0].body) == 1, "cor2cov double loop")
    nm, val = assign1(fx[0].body[0].body[0], "cov[ix, iy]")
    need(nm == "cov[ix, iy]", "cov[ix, iy] = ...")
    tr = Tr({"cor[ix, iy]": "c", "diagerr[ix]": "di", "diagerr[iy]": "dj"})
    D.append(("gen_cor2cov_entry", "(c di dj : Q) : Q", tr(val), up(fx[0].body[0].body[0])))


def t_boxcar(tree, D):
    fn = func(tree, "boxcar_average")
    b = body_no_doc(fn)
    need(len(b) == 2, "boxcar_average: kernel = ...; return ...")
    nm, val = assign1(b[0], "kernel")
    need(nm == "kernel" and isinstance(val, ast.BinOp) and isinstance(val.op, ast.Div) and up(val.left) == "ones((N,))",
         "kernel = ones((N,)) / N")
    D.append(("gen_boxcar_weight", "(N : Q) : Q", "(1 / %s)" % Tr({"N": "N"})(val.right), up(b[0])))
    r = b[1].value if isinstance(b[1], ast.Return) else None
    need(r is not None and isinstance(r, ast.Subscript) and up(r.value) == "convolve(x, kernel)" and isinstance(r.slice, ast.Slice)
         and r.slice.upper is None and r.slice.step is None and r.slice.lower is not None, "return convolve(x, kernel)[<lo>:]")
    D.append(("gen_boxcar_skip", "(N : Z) : Z", Tr({"N": "N"}, "Z")(r.slice.lower) + "%Z", up(b[1])))


def extract(src):
    try:
        tree = ast.parse(src)
    except SyntaxError as e:
        raise TranslateError("esutil/stat/util.py does not parse: %s" % e)
    D = []
    try:
        t_wmom(tree, D)
        t_wmedian(tree, D)
        t_sigma_clip(tree, D)
        t_interplin(tree, D)
        t_get_stats(tree, D)
        t_cov(tree, D)
        t_boxcar(tree, D)
    except TranslateError:
        raise
    except Exception as e:      # any surprise in the walk is a shape failure, never a silent pass
        raise TranslateError("unexpected structure (%s: %s)" % (type(e).__name__, e))
    return D


def gen_text(D):
    out = ["(* GENERATED by harness/props/c18_translate.py from esutil/stat/util.py of the tree under check --",
           "   do not edit by hand.  Keyword defaults, elementwise formulas (square roots removed by squaring the",
           "   returned quantity), decisions and index arithmetic, read out of the source with python's ast.",
           "   C18/GenProofs.v proves that the hand-written model C18/Model.v is exactly these definitions. *)",
           "From Coq Require Import QArith Qabs ZArith.",
           "From EsVerif.Common Require Import Base.   (* err: the model's error classes *)",
           "From EsVerif.C18 Require Import Model.   (* only for Qlt_bool x y := negb (Qle_bool y x) *)",
           "Open Scope Q_scope.",
           "",
           "(* a returned / unpacked position: weighted mean, error, deviation, indices *)",
           "Inductive slot := SMean | SErr | SStd | SIdx.",
           ""]
    for name, sig, body, srcline in D:
        out.append("(* %s *)" % " ".join(srcline.split()).replace("(*", "( *").replace("*)", "* )"))
        if sig.startswith("("):
            out.append("Definition %s %s := %s." % (name, sig, body))
        else:
            out.append("Definition %s : %s := %s." % (name, sig, body))
    return "\n".join(out) + "\n"


def regenerate(impl_root, coqdir):
    """returns (definitions, changed).  Raises TranslateError (fail closed)."""
    p = os.path.join(impl_root, SRC_REL)
    try:
        src = open(p).read()
    except OSError as e:
        raise TranslateError("cannot read %s: %s" % (p, e))
    D = extract(src)
    text = gen_text(D)
    dst = os.path.join(coqdir, GEN_REL)
    old = open(dst).read() if os.path.exists(dst) else None
    if old != text:
        tmp = dst + ".tmp.%d" % os.getpid()
        with open(tmp, "w") as f:
            f.write(text)
        os.replace(tmp, dst)
    return D, old != text


if __name__ == "__main__":
    import sys
    sys.stdout.write(gen_text(extract(open(sys.argv[1]).read())))
